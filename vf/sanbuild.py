"""Build the Cython-generated C/C++ that sits in /repo/src *now* and expose it
through an overlay package.

flavours
    plain : gcc -O1                     (behavioural monitors only)
    san   : clang -O1 ASan + UBSan      (behavioural monitors + sanitizer)

Objects are cached by sha256(source) + flavour + flags under /verif/.build/obj;
the overlay (symlinks to the .py / data files of /repo/src, real .so files from
the cache) is cached by the hash of its manifest.
"""

import hashlib
import json
import os
import shutil
import subprocess
import sys
import sysconfig
import tempfile
import time
from concurrent.futures import ThreadPoolExecutor

VERIF = os.path.dirname(os.path.dirname(os.path.abspath(__file__)))
REPO = os.environ.get("VERIF_REPO", "/repo")
SRC = os.path.join(REPO, "src")
BUILD = os.path.join(VERIF, ".build")
PY = "/venv/bin/python"
EXT_SUFFIX = ".cpython-312-x86_64-linux-gnu.so"

_COMMON = [
    "-fPIC", "-shared", "-g", "-fno-omit-frame-pointer", "-fno-strict-aliasing",
    "-DNPY_NO_DEPRECATED_API=NPY_1_7_API_VERSION", "-w",
]
FLAGS = {
    "plain": ["-O1"],
    "san": [
        "-O1", "-fsanitize=address,undefined",
        "-fno-sanitize-recover=undefined", "-shared-libasan",
        # Cython's own object model casts between struct layouts and function
        # pointer types on purpose; these two sub-checks only flag that idiom.
        "-fno-sanitize=function,vptr,alignment",
    ],
}


def _includes():
    out = subprocess.run(
        [PY, "-c",
         "import sysconfig, numpy; print(sysconfig.get_paths()['include']); "
         "print(numpy.get_include())"],
        capture_output=True, text=True, check=True,
    ).stdout.split()
    return ["-I" + p for p in out]


def asan_runtime():
    return subprocess.run(
        ["clang", "--print-file-name=libclang_rt.asan-x86_64.so"],
        capture_output=True, text=True, check=True,
    ).stdout.strip()


def generated_sources():
    res = []
    for root, _dirs, files in os.walk(os.path.join(SRC, "biotite")):
        for f in files:
            if f.endswith(".c") or f.endswith(".cpp"):
                stem = f.rsplit(".", 1)[0]
                if os.path.exists(os.path.join(root, stem + ".pyx")):
                    res.append(os.path.join(root, f))
    return sorted(res)


def _sha(path):
    h = hashlib.sha256()
    with open(path, "rb") as f:
        for chunk in iter(lambda: f.read(1 << 20), b""):
            h.update(chunk)
    return h.hexdigest()


def _compile(src, flavour, inc, out):
    cxx = src.endswith(".cpp")
    if flavour == "san":
        cc = "clang++" if cxx else "clang"
    else:
        cc = "g++" if cxx else "gcc"
    cmd = [cc] + FLAGS[flavour] + _COMMON + inc
    if cxx:
        cmd += ["-std=c++11"]
    tmp = out + ".tmp%d" % os.getpid()
    cmd += [src, "-o", tmp]
    p = subprocess.run(cmd, capture_output=True, text=True)
    if p.returncode != 0:
        raise RuntimeError("compile failed: %s\n%s" % (" ".join(cmd), p.stderr[-4000:]))
    os.replace(tmp, out)


def stale_cython():
    """.pyx files edited relative to the pin while the generated C is unchanged."""
    stale = []
    pins = {}
    for name, fn in (("pyx", "pyx.sha256"), ("c", "gen_c.sha256")):
        d = {}
        p = os.path.join(VERIF, "pins", fn)
        if os.path.exists(p):
            for line in open(p):
                h, f = line.split()
                d[f] = h
        pins[name] = d
    for rel, h in pins["pyx"].items():
        path = os.path.join(SRC, rel)
        if not os.path.exists(path):
            continue
        if _sha(path) != h:
            stem = rel.rsplit(".", 1)[0]
            unchanged = False
            for ext in (".c", ".cpp"):
                crel = stem + ext
                if crel in pins["c"] and os.path.exists(os.path.join(SRC, crel)):
                    unchanged = _sha(os.path.join(SRC, crel)) == pins["c"][crel]
            if rel.endswith(".pxd") or unchanged:
                stale.append(rel)
    return stale


def ensure(flavour, verbose=False):
    """Return (overlay_dir, info).  Compiles what is missing."""
    t0 = time.time()
    os.makedirs(os.path.join(BUILD, "obj", flavour), exist_ok=True)
    inc = None
    flag_tag = hashlib.sha256(" ".join(FLAGS[flavour] + _COMMON).encode()).hexdigest()[:8]
    srcs = generated_sources()
    jobs, mods = [], {}
    for s in srcs:
        h = _sha(s)
        rel = os.path.relpath(s, SRC).rsplit(".", 1)[0]
        out = os.path.join(BUILD, "obj", flavour, "%s-%s-%s.so" % (os.path.basename(rel), h[:20], flag_tag))
        mods[rel] = out
        if not os.path.exists(out):
            jobs.append((s, out))
    if jobs:
        inc = _includes()
        if verbose:
            print("[sanbuild] compiling %d module(s), flavour=%s" % (len(jobs), flavour), flush=True)
        with ThreadPoolExecutor(max_workers=min(16, os.cpu_count() or 4)) as ex:
            list(ex.map(lambda j: _compile(j[0], flavour, inc, j[1]), jobs))
    # overlay manifest
    entries = []
    for root, dirs, files in os.walk(os.path.join(SRC, "biotite")):
        dirs[:] = [d for d in dirs if d != "__pycache__"]
        for f in files:
            if f.endswith((".c", ".cpp", ".so", ".pyc", ".pyd")):
                continue
            p = os.path.join(root, f)
            entries.append((os.path.relpath(p, SRC), p))
    for rel, so in mods.items():
        entries.append((rel + EXT_SUFFIX, so))
    entries.sort()
    tag = hashlib.sha256(json.dumps(entries).encode()).hexdigest()[:20]
    ov = os.path.join(BUILD, "overlay", "%s-%s" % (flavour, tag))
    if not os.path.isdir(ov):
        os.makedirs(os.path.dirname(ov), exist_ok=True)
        tmp = tempfile.mkdtemp(prefix="ov-", dir=os.path.dirname(ov))
        for rel, target in entries:
            dst = os.path.join(tmp, rel)
            os.makedirs(os.path.dirname(dst), exist_ok=True)
            os.symlink(target, dst)
        try:
            os.rename(tmp, ov)
        except OSError:
            shutil.rmtree(tmp, ignore_errors=True)
    # drop old overlays of this flavour (keep the 10 most recently used: concurrent runs on scratch trees each have one)
    try:
        os.utime(ov)
        base = os.path.dirname(ov)
        olds = sorted(
            (d for d in os.listdir(base) if d.startswith(flavour + "-") and os.path.join(base, d) != ov),
            key=lambda d: os.path.getmtime(os.path.join(base, d)),
        )
        for d in olds[:-10]:
            shutil.rmtree(os.path.join(base, d), ignore_errors=True)
    except OSError:
        pass
    info = {
        "flavour": flavour,
        "modules": len(mods),
        "compiled_now": len(jobs),
        "build_s": round(time.time() - t0, 2),
        "stale_cython": stale_cython(),
    }
    return ov, info


def worker_env(flavour, overlay, log_prefix=None):
    env = dict(os.environ)
    env["PYTHONPATH"] = os.pathsep.join([overlay, os.path.join(VERIF, ".deps"), VERIF])
    env["PYTHONHASHSEED"] = "0"
    env["PYTHONDONTWRITEBYTECODE"] = "1"
    env["OMP_NUM_THREADS"] = "1"
    env["OPENBLAS_NUM_THREADS"] = "1"
    env["MKL_NUM_THREADS"] = "1"
    env["PIP_NO_INDEX"] = "1"
    if flavour == "san":
        env["LD_PRELOAD"] = asan_runtime()
        opts = "detect_leaks=0:halt_on_error=1:abort_on_error=1:allocator_may_return_null=1:handle_segv=1:symbolize=1"
        if log_prefix:
            opts += ":log_path=" + log_prefix
        env["ASAN_OPTIONS"] = opts
        ub = "print_stacktrace=1:halt_on_error=1"
        if log_prefix:
            ub += ":log_path=" + log_prefix
        env["UBSAN_OPTIONS"] = ub
        env["ASAN_SYMBOLIZER_PATH"] = shutil.which("llvm-symbolizer") or "/usr/bin/llvm-symbolizer-14"
    return env


if __name__ == "__main__":
    for fl in sys.argv[1:] or ["plain", "san"]:
        ov, info = ensure(fl, verbose=True)
        print(ov, json.dumps(info))
