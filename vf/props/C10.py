"""C10  k-mer indices find exactly the matching k-mers; selectors obey definitions.

Monitor: lock-step comparison of KmerTable / BucketKmerTable against a naive
dictionary multimap kmer -> [(ref_id, pos)] built from an own radix-code k-mer
decomposition (contiguous and spaced); every constructor, pickling, merging,
counting, lookup, iteration, == and the three match functions (with ignore masks
and ScoreThresholdRule) are compared after every build; selectors are compared
with the literal window / s-mer / threshold definitions; ASan/UBSan and the
process exit status watch the malloc'ed buckets and the unchecked loops.
"""

import pickle

import numpy as np

ID = "C10"
FLAVOUR = "san"
LEVEL = "exploration"
THOROUGH_MULT = 4.0       # deepens the sampled strata of the thorough tier (measured: about ten minutes on 16 cores)
RULE = (
    "seeded generator: base alphabet of 2-6 symbols (LetterAlphabet or generic Alphabet, sometimes a "
    "257-300 symbol alphabet for the uint16 code path), k 2-5, contiguous or spaced model (string, list, "
    "array, unsorted, not starting at 0), 1-6 reference sequences of length span..40 (low-complexity, "
    "copied and mutated segments so that k-mers repeat), ref ids None/small/duplicated/near 2^32-1, ignore "
    "masks none/random/all/none-set; tables are KmerTable or BucketKmerTable (n_buckets None, 1, 2, primes, "
    "> number of k-mers) built by from_sequences/from_kmers/from_kmer_selection/from_positions/from_tables "
    "and re-read through pickle; queries are mutated copies of the references.  Strata: table_build, match, "
    "similarity (ScoreThresholdRule over random symmetric matrices/thresholds), invalid (too short, wrong "
    "masks, foreign alphabets, invalid codes: must raise and leave tables unchanged), selectors (Minimizer/"
    "Syncmer/CachedSyncmer/Mincode, windows 2-12, s < k, offsets incl. negative, no/Random/Frequency/"
    "user-defined table permutation, lengths around window+span-1, select and select_from_kmers), big_codes "
    "(BucketKmerTable with k-mer codes >= 2^32).  A case is non-trivial when the reference multimap holds a "
    "repeated k-mer and at least two distinct k-mers (tables), at least one but not every candidate matched "
    "(match), a proper non-empty subset was selected (selectors) or an exception was provoked (invalid); "
    "distinct = distinct digest of the logged inputs."
)
STRATA = {
    "table_build": (5000, 120000),
    "match": (5000, 120000),
    "similarity": (1800, 40000),
    "invalid": (2200, 45000),
    "selectors": (3200, 70000),
    "big_codes": (1000, 25000),
}
# functions that must leave their arguments untouched (vf.core.PurityMonitor; '!' = the object itself is watched too)
PURE = [
    "biotite.sequence.align.kmeralphabet:KmerAlphabet.create_kmers",
    "biotite.sequence.align.kmeralphabet:KmerAlphabet.fuse",
    "biotite.sequence.align.kmeralphabet:KmerAlphabet.split",
]
REQUIRED_ORACLES = [
    "create_kmers_vs_naive", "get_kmers_vs_model", "count_vs_model", "lookup_vs_model",
    "iteration_vs_model", "eq_vs_model", "pickle_roundtrip", "match_vs_naive",
    "match_table_vs_naive", "match_selection_vs_naive", "similar_kmers_vs_bruteforce",
    "rejects_invalid", "state_unchanged_after_reject", "minimizer_vs_definition",
    "syncmer_vs_definition", "mincode_vs_definition", "permutation_vs_model",
]
ASSUMPTIONS = [
    "all entry points are Cython (no pure-Python anchor to count with sys.monitoring): calls are counted with ctx.op at the call site",
    "row order of match arrays, of table[kmer] and the entry order inside a bucket are not part of the property (compared as sets / sorted multisets); a differing multiplicity of equal rows is only counted",
    "== is judged only where the statement decides it: identical construction and pickle copy must be equal, a different multimap must be unequal; same multimap in another insertion order is counted, not judged",
    "k-mer alphabets are limited to n^k < 2^63; ref ids and positions to the uint32 range",
    "MincodeSelector: a permuted code within float64 rounding of the threshold is undecided (counted)",
    "a user-defined Permutation (injective int64 table, extremes included) is part of 'all permutations'; its INT64_MAX key is a quarantined trigger class",
    "invalid inputs (negative k-mer code, n_buckets=0, masks of wrong length) must be rejected with an exception, not crash: memory-safety clause of the property",
    "BucketKmerTable is documented as not iterable: iteration/contains are judged for KmerTable only",
]
MIN_CASES_PER_WORKER = 40
MANIFEST = {
    "technique": "lock-step differential monitor: naive radix-code k-mer decomposition + dict multimap vs KmerTable/BucketKmerTable for every constructor, pickle, merge, count, lookup, iteration, ==, match/match_table/match_kmer_selection (masks, ScoreThresholdRule vs brute force); selectors vs literal definitions; ASan/UBSan build of kmertable.cpp/kmeralphabet.c/selector.c/permutation.c/kmersimilarity.c; process-exit monitor",
    "level_text": "Runtime monitoring: thousands of generated alphabets, spacing models, reference sets, masks, bucket counts, similarity rules and selector parameters are executed on the real Cython classes (ASan+UBSan build of the generated C/C++) while a dictionary multimap and naive window/s-mer/threshold loops run in lock-step; every view of every table and every match array is compared, invalid inputs must raise and leave tables unchanged, worker deaths and sanitizer reports are violations.  Held-on-what-was-observed, not a proof.",
    "level_note": "Trusts the naive models (audited in selftest against docstring literals and exhaustive tiny enumerations), numpy, and that the generated C in the tree corresponds to the .pyx (no Cython here).  Row order and entry order are not judged.  Alphabet sizes 2-6 (plus 24 and 257-300), k <= 5 for the direct table, codes up to 2^62 for the bucket table, sequences <= 40 (150 in thorough).  Known findings are quarantined into probes.",
    "design_ref": "DESIGN.md section 6, C10",
}

seq = None
align = None
KmerTable = None
BucketKmerTable = None
KmerAlphabet = None
AlphabetError = None
_ALPH = {}

LCG_A = 0xD1342543DE82EF95
M64 = (1 << 64) - 1
U32MAX = 2**32 - 1


def setup(ctx):
    global seq, align, KmerTable, BucketKmerTable, KmerAlphabet, AlphabetError
    import biotite.sequence as seq_
    import biotite.sequence.align as align_
    from biotite.sequence.alphabet import AlphabetError as AE
    seq, align = seq_, align_
    KmerTable, BucketKmerTable, KmerAlphabet = align.KmerTable, align.BucketKmerTable, align.KmerAlphabet
    AlphabetError = AE
    _make_table_permutation()


TablePermutation = None
I64MIN, I64MAX = -(1 << 63), (1 << 63) - 1


def _make_table_permutation():
    """A user-defined Permutation (the abstract contract allows any injective int64 sort key)."""
    global TablePermutation

    class _TablePermutation(align.Permutation):
        def __init__(self, keys):
            self._keys = np.array(keys, dtype=np.int64)

        @property
        def min(self):
            return I64MIN

        @property
        def max(self):
            return I64MAX

        def permute(self, kmers):
            return self._keys[kmers]

    TablePermutation = _TablePermutation


# ====================================================================== models
class TooShort(Exception):
    pass


class KA:
    """Reference k-mer alphabet: own radix code; contiguous or spaced model."""

    def __init__(self, n, k, spacing=None):
        self.n, self.k = n, k
        self.spaced = spacing is not None
        self.offsets = list(range(k)) if spacing is None else sorted(int(x) for x in spacing)
        assert len(self.offsets) == k
        self.span = self.offsets[-1] + 1
        self.size = n ** k
        self.mult = [n ** (k - 1 - j) for j in range(k)]

    def n_kmers(self, length):
        return length - self.span + 1

    def decompose(self, codes):
        if len(codes) < self.span:
            raise TooShort()
        out = []
        for i in range(len(codes) - self.span + 1):
            c = 0
            for j, o in enumerate(self.offsets):
                c += self.mult[j] * codes[i + o]
            out.append(c)
        return out

    def keep(self, ignore, length):
        """k-mer i is kept iff no informative position of it is ignored."""
        return [not any(ignore[i + o] for o in self.offsets) for i in range(length - self.span + 1)]

    def split(self, code):
        out = []
        for m in self.mult:
            out.append(code // m)
            code %= m
        return out

    def fuse(self, digits):
        return sum(m * d for m, d in zip(self.mult, digits))


def model_add_seq(model, ka, codes, ref, ignore=None):
    kmers = ka.decompose(codes)
    keep = ka.keep(ignore, len(codes)) if ignore is not None else [True] * len(kmers)
    for pos, km in enumerate(kmers):
        if keep[pos]:
            model.setdefault(km, []).append((ref, pos))


def model_merge(models):
    out = {}
    for m in models:
        for km, ents in m.items():
            if ents:
                out.setdefault(km, []).extend(ents)
    return out


def model_key(model):
    return tuple(sorted((km, tuple(sorted(v))) for km, v in model.items() if v))


class SimModel:
    """ScoreThresholdRule reference: S(a,b) = sum_i M[a_i][b_i] >= T."""

    def __init__(self, ka, matrix, threshold):
        self.ka, self.m, self.t = ka, matrix, threshold
        self._split = {}

    def split(self, code):
        s = self._split.get(code)
        if s is None:
            s = self._split[code] = self.ka.split(code)
        return s

    def score(self, a, b):
        sa, sb = self.split(a), self.split(b)
        return sum(self.m[x][y] for x, y in zip(sa, sb))

    def similar(self, a, b):
        return self.score(a, b) >= self.t

    def all_similar(self, a):
        """Brute force over every k-mer of the alphabet (vectorised in float-free int64 numpy)."""
        ka = self.ka
        codes = np.arange(ka.size, dtype=np.int64)
        mat = np.array(self.m, dtype=np.int64)
        sa = self.split(a)
        total = np.zeros(ka.size, dtype=np.int64)
        rest = codes.copy()
        for j, mult in enumerate(ka.mult):
            d = rest // mult
            rest = rest - d * mult
            total += mat[sa[j]][d]
        return set(int(c) for c in codes[total >= self.t])


def model_match(ka, model, qcodes, ignore=None, sim=None):
    qk = ka.decompose(qcodes)
    keep = ka.keep(ignore, len(qcodes)) if ignore is not None else [True] * len(qk)
    out, mult = set(), 0
    for i, q in enumerate(qk):
        if not keep[i]:
            continue
        if sim is None:
            ents = model.get(q, ())
            mult += len(ents)
            for r, p in ents:
                out.add((i, r, p))
        else:
            for rk, ents in model.items():
                if ents and sim.similar(q, rk):
                    mult += len(ents)
                    for r, p in ents:
                        out.add((i, r, p))
    return out, mult, len(qk)


def model_match_table(self_model, other_model, sim=None):
    out = set()
    for ok, oents in other_model.items():
        if not oents:
            continue
        if sim is None:
            pairs = [(ok, self_model.get(ok, ()))]
        else:
            pairs = [(sk, sents) for sk, sents in self_model.items() if sim.similar(ok, sk)]
        for _, sents in pairs:
            for r2, p2 in oents:
                for r1, p1 in sents:
                    out.add((r2, p2, r1, p1))
    return out


def model_match_selection(model, positions, kmers):
    out = set()
    for p, km in zip(positions, kmers):
        for r, q in model.get(km, ()):
            out.add((p, r, q))
    return out


def to_signed64(x):
    x &= M64
    return x - (1 << 64) if x >= (1 << 63) else x


def perm_random(code):
    return to_signed64(LCG_A * code + 1)


def perm_frequency_table(counts):
    """rank of every k-mer in the stable ascending sort by count."""
    order = sorted(range(len(counts)), key=lambda c: (counts[c], c))
    rank = [0] * len(counts)
    for r, c in enumerate(order):
        rank[c] = r
    return rank


def naive_minimizers(order, window):
    """Leftmost minimum of every window of `window` consecutive entries; each position once."""
    out = []
    for w in range(len(order) - window + 1):
        best = w
        for i in range(w + 1, w + window):
            if order[i] < order[best]:
                best = i
        if not out or out[-1] != best:
            if best not in out:
                out.append(best)
    return out


def naive_syncmers(codes, n, k, s, offsets, perm):
    """Positions p such that the leftmost minimum s-mer of codes[p:p+k] sits at an allowed offset."""
    window = k - s + 1
    allowed = set(o + window if o < 0 else o for o in offsets)
    sm = KA(n, s)
    out = []
    for p in range(len(codes) - k + 1):
        smers = sm.decompose(codes[p:p + k])
        order = [perm(x) for x in smers]
        best = 0
        for i in range(1, len(order)):
            if order[i] < order[best]:
                best = i
        if best in allowed:
            out.append(p)
    return out


# ====================================================================== world / generators
def pick(rng, xs):
    return xs[int(rng.integers(len(xs)))]


_LETTERS = "abcdefghijklmnopqrstuvwxyz"


def alphabet(kind, n):
    key = (kind, n)
    a = _ALPH.get(key)
    if a is None:
        if kind == "letter":
            a = seq.LetterAlphabet(_LETTERS[:n])
        else:
            a = seq.Alphabet(list(range(100, 100 + n)))
        _ALPH[key] = a
    return a


def gen_spacing(rng, k):
    """-> (sorted offsets, argument passed to biotite, form name)"""
    span = k + int(rng.integers(1, 4))
    inner = list(range(0, span - 1))
    first = 0 if rng.random() < 0.9 else 1
    cand = [i for i in inner if i > first]
    if len(cand) < k - 2:
        first, cand = 0, [i for i in inner if i > 0]
    mid = sorted(int(x) for x in rng.choice(cand, size=k - 2, replace=False)) if k > 2 else []
    offs = [first] + mid + [span - 1]
    form = pick(rng, ["str", "str", "list", "array", "unsorted"])
    if form == "str":
        arg = "".join("1" if i in offs else "0" for i in range(span))
    elif form == "list":
        arg = list(offs)
    elif form == "array":
        arg = np.array(offs, dtype=pick(rng, ["int64", "int32", "uint8"]))
    else:
        arg = [int(x) for x in rng.permutation(offs)]
    return offs, arg, form


class World:
    """One k-mer universe: base alphabet, k, spacing; model and real KmerAlphabet."""

    def __init__(self, ctx, rng, max_size=8000, spaced=None, nk=None, wide_ok=True, min_k=2):
        if nk is not None:
            n, k = nk
            akind = "letter" if n <= 26 else "general"
        elif wide_ok and rng.random() < 0.03:
            n, k, akind = int(rng.integers(257, 301)), 2, "general"
        else:
            while True:
                n = int(rng.integers(2, 7))
                k = int(pick(rng, [2, 2, 3, 3, 3, 4, 4, 5]))
                if k >= min_k and n ** k <= max_size:
                    break
            akind = "letter" if rng.random() < 0.7 else "general"
        self.n, self.k, self.akind = n, k, akind
        self.alph = alphabet(akind, n)
        if spaced is None:
            spaced = rng.random() < 0.45
        if spaced:
            self.offsets, self.spacing_arg, self.spacing_form = gen_spacing(rng, k)
        else:
            self.offsets, self.spacing_arg, self.spacing_form = None, None, "none"
        self.ka = KA(n, k, self.offsets)
        ctx.op("KmerAlphabet")
        arg = self.spacing_arg.copy() if isinstance(self.spacing_arg, np.ndarray) else self.spacing_arg
        self.kalph = KmerAlphabet(self.alph, k, arg)
        if isinstance(arg, np.ndarray):
            # the caller's work buffer is reused afterwards: the alphabet must have taken its own copy
            arg[:] = np.arange(len(arg), dtype=arg.dtype)
            ctx.op("spacing_array_overwritten_after_construction")
        elif isinstance(arg, list):
            arg.reverse()
        self.maxlen = 40 if (ctx.tier == "quick" or rng.random() < 0.8) else 150
        ctx.log("world", {"n": n, "k": k, "alphabet": akind, "spacing": self.offsets, "form": self.spacing_form})

    @property
    def spaced(self):
        return self.offsets is not None

    def spacing_copy(self):
        a = self.spacing_arg
        return a.copy() if isinstance(a, np.ndarray) else (list(a) if isinstance(a, list) else a)

    def seq(self, codes, sub_n=None):
        a = self.alph if sub_n is None else alphabet(self.akind, sub_n)
        s = seq.GeneralSequence(a)
        s.code = np.array(codes, dtype=np.int64)
        return s

    def rand_len(self, rng, lo=None):
        lo = self.ka.span if lo is None else lo
        r = rng.random()
        if r < 0.15:
            return lo
        if r < 0.3:
            return lo + int(rng.integers(1, 3))
        return int(rng.integers(lo, max(lo, self.maxlen) + 1))


def gen_codes(rng, n, length, pool=None):
    if length <= 0:
        return []
    r = rng.random()
    if pool and r < 0.4:
        src = pick(rng, pool)
        if len(src) > 0:
            out = []
            while len(out) < length:
                a = int(rng.integers(len(src)))
                b = a + int(rng.integers(1, len(src) + 1))
                out.extend(src[a:b])
                if rng.random() < 0.3:
                    out.append(int(rng.integers(n)))
            out = [min(int(x), n - 1) for x in out[:length]]
            for _ in range(int(rng.integers(0, 3))):
                out[int(rng.integers(length))] = int(rng.integers(n))
            return out
    if r < 0.6:
        unit = [int(x) for x in rng.integers(0, n, size=int(rng.integers(1, 4)))]
        out = (unit * (length // len(unit) + 1))[:length]
        for _ in range(int(rng.integers(0, 3))):
            out[int(rng.integers(length))] = int(rng.integers(n))
        return out
    return [int(x) for x in rng.integers(0, n, size=length)]


def gen_mask(rng, length):
    mode = pick(rng, ["random", "random", "sparse", "all", "none", "block"])
    if mode == "random":
        m = rng.random(length) < 0.3
    elif mode == "sparse":
        m = rng.random(length) < 0.08
    elif mode == "all":
        m = np.ones(length, dtype=bool)
    elif mode == "none":
        m = np.zeros(length, dtype=bool)
    else:
        m = np.zeros(length, dtype=bool)
        if length:
            a = int(rng.integers(length))
            m[a:a + int(rng.integers(1, 6))] = True
    return np.ascontiguousarray(m)


def gen_ref_ids(rng, m):
    """-> (argument, list of ints)"""
    mode = pick(rng, ["none", "small", "small", "large", "dup", "huge"])
    if mode == "none":
        return None, list(range(m))
    if mode == "small":
        ids = [int(x) for x in rng.permutation(50)[:m]]
    elif mode == "large":
        ids = [int(x) for x in rng.integers(0, 2**32, size=m)]
    elif mode == "dup":
        ids = [int(rng.integers(0, 3)) for _ in range(m)]
    else:
        ids = [U32MAX - int(x) for x in rng.permutation(8)[:m]]
    form = pick(rng, ["list", "uint32", "int64", "uint64", "tuple"])
    if form == "list":
        return list(ids), ids
    if form == "tuple":
        return tuple(ids), ids
    return np.array(ids, dtype=form), ids


def gen_nbuckets(rng, approx, explicit=False):
    opts = [1, 2, 3, 5, 7, 13, 101, max(1, approx) + 1 + int(rng.integers(5)), 10007]
    if not explicit:
        opts += [None, None, None]
    return pick(rng, opts)


def table_class(kind):
    return KmerTable if kind == "kmer" else BucketKmerTable


def mask_ok(ctx, w):
    """ignore masks may be combined with this world's k-mer model."""
    return (not w.spaced) or ctx.allowed("spaced_kmers_with_ignore_mask")


# ====================================================================== builders
class Built:
    def __init__(self, table, model, rebuild, how, pool=None):
        self.table, self.model, self.rebuild, self.how, self.pool = table, model, rebuild, how, pool or []


def build_from_sequences(ctx, rng, w, kind, nb, pool=None, m=None):
    cls = table_class(kind)
    m = m or int(pick(rng, [1, 1, 2, 2, 3, 4, 6]))
    pool = list(pool or [])
    sub_n = int(rng.integers(2, w.n + 1)) if (w.n > 2 and rng.random() < 0.15) else None
    codes_list, subs = [], []
    for i in range(m):
        sub = sub_n if (sub_n is not None and i > 0 and rng.random() < 0.6) else None
        codes = gen_codes(rng, sub or w.n, w.rand_len(rng), pool)
        codes_list.append(codes)
        subs.append(sub)
        pool.append(codes)
    ref_arg, refs = gen_ref_ids(rng, m)
    masks = None
    if mask_ok(ctx, w) and rng.random() < 0.5:
        masks = [None if rng.random() < 0.25 else gen_mask(rng, len(c)) for c in codes_list]
    alph_arg = w.alph if (rng.random() < 0.3) else None
    ctx.log("from_sequences", kind, {"n_buckets": nb, "seqs": codes_list, "sub_alph": subs, "ref_ids": refs,
                                     "ref_form": type(ref_arg).__name__,
                                     "masks": None if masks is None else [None if x is None else x.astype(int).tolist() for x in masks],
                                     "alphabet_given": alph_arg is not None})
    extra = {} if kind == "kmer" else {"n_buckets": nb}

    def make():
        seqs = [w.seq(c, s) for c, s in zip(codes_list, subs)]
        ctx.op("from_sequences:" + kind)
        return cls.from_sequences(w.k, seqs, ref_ids=ref_arg,
                                  ignore_masks=None if masks is None else [None if x is None else x.copy() for x in masks],
                                  alphabet=alph_arg, spacing=w.spacing_copy(), **extra)

    model = {}
    for i, codes in enumerate(codes_list):
        model_add_seq(model, w.ka, codes, refs[i], None if masks is None or masks[i] is None else masks[i].tolist())
    return Built(make(), model, make, "from_sequences", pool)


def gen_kmer_array(rng, w, pool):
    """A list of valid k-mer codes: decomposition of a sequence or a small random vocabulary."""
    if rng.random() < 0.5:
        codes = gen_codes(rng, w.n, w.rand_len(rng), pool)
        pool.append(codes)
        return w.ka.decompose(codes)
    length = int(pick(rng, [0, 1, 2, 5, 10, 20, 40]))
    vocab = [int(rng.integers(0, w.ka.size)) for _ in range(int(rng.integers(1, 8)))]
    if rng.random() < 0.5:
        vocab += [0, w.ka.size - 1]
    return [pick(rng, vocab) for _ in range(length)]


def build_from_kmers(ctx, rng, w, kind, nb, pool=None):
    cls = table_class(kind)
    pool = list(pool or [])
    m = int(pick(rng, [1, 1, 2, 3, 5]))
    arrs = [gen_kmer_array(rng, w, pool) for _ in range(m)]
    ref_arg, refs = gen_ref_ids(rng, m)
    masks = None
    if rng.random() < 0.5:
        masks = []
        for a in arrs:
            r = rng.random()
            if r < 0.25:
                masks.append(None)
            elif r < 0.85:
                masks.append(~gen_mask(rng, len(a)))
            else:
                masks.append(np.array(rng.integers(0, 3, size=len(a)), dtype=np.uint8))
    ctx.log("from_kmers", kind, {"n_buckets": nb, "kmers": arrs, "ref_ids": refs,
                                 "masks": None if masks is None else [None if x is None else x.astype(int).tolist() for x in masks]})
    extra = {} if kind == "kmer" else {"n_buckets": nb}

    def make():
        ctx.op("from_kmers:" + kind)
        return cls.from_kmers(w.kalph, [np.array(a, dtype=np.int64) for a in arrs], ref_ids=ref_arg,
                              masks=None if masks is None else [None if x is None else x.copy() for x in masks], **extra)

    model = {}
    for i, a in enumerate(arrs):
        for pos, km in enumerate(a):
            if masks is None or masks[i] is None or bool(masks[i][pos]):
                model.setdefault(km, []).append((refs[i], pos))
    return Built(make(), model, make, "from_kmers", pool)


def build_from_selection(ctx, rng, w, kind, nb, pool=None):
    cls = table_class(kind)
    pool = list(pool or [])
    m = int(pick(rng, [1, 1, 2, 3]))
    arrs = [gen_kmer_array(rng, w, pool) for _ in range(m)]
    poss = []
    for a in arrs:
        mode = pick(rng, ["sorted", "random", "huge", "dup"])
        if mode == "sorted":
            p = sorted(int(x) for x in rng.integers(0, 200, size=len(a)))
        elif mode == "random":
            p = [int(x) for x in rng.integers(0, 1000, size=len(a))]
        elif mode == "huge":
            p = [U32MAX - int(x) for x in rng.integers(0, 50, size=len(a))]
        else:
            p = [int(x) for x in rng.integers(0, 3, size=len(a))]
        poss.append(p)
    ref_arg, refs = gen_ref_ids(rng, m)
    pdt = pick(rng, ["uint32", "int64", "uint64"])
    ctx.log("from_kmer_selection", kind, {"n_buckets": nb, "positions": poss, "pos_dtype": pdt, "kmers": arrs, "ref_ids": refs})
    extra = {} if kind == "kmer" else {"n_buckets": nb}

    def make():
        ctx.op("from_kmer_selection:" + kind)
        return cls.from_kmer_selection(w.kalph, [np.array(p, dtype=pdt) for p in poss],
                                       [np.array(a, dtype=np.int64) for a in arrs], ref_ids=ref_arg, **extra)

    model = {}
    for i, a in enumerate(arrs):
        for p, km in zip(poss[i], a):
            model.setdefault(km, []).append((refs[i], p))
    return Built(make(), model, make, "from_kmer_selection", pool)


def build_from_positions(ctx, rng, w, kind, nb, pool=None):
    """KmerTable only."""
    nk = int(pick(rng, [0, 1, 2, 4, 8]))
    keys = sorted(set(int(rng.integers(0, w.ka.size)) for _ in range(nk)) | ({0, w.ka.size - 1} if rng.random() < 0.3 else set()))
    data = {}
    for km in keys:
        cnt = int(pick(rng, [0, 1, 1, 2, 3, 6]))
        rows = [(int(pick(rng, [0, 1, 7, U32MAX])), int(rng.integers(0, 60))) for _ in range(cnt)]
        data[km] = rows
    dt = pick(rng, ["uint32", "int64", "uint64"])
    npkeys = rng.random() < 0.3
    ctx.log("from_positions", {"data": {str(k): v for k, v in data.items()}, "dtype": dt, "numpy_keys": npkeys})

    layout = pick(rng, ["c", "c", "transposed", "fortran", "strided"])

    def arr(v):
        a = np.array(v, dtype=dt).reshape(-1, 2)
        if layout == "transposed":
            # built column-wise and transposed, e.g. np.array([ref_ids, positions]).T: not C-contiguous
            return np.array([a[:, 0], a[:, 1]], dtype=dt).T if len(a) else a
        if layout == "fortran":
            return np.asfortranarray(a)
        if layout == "strided":
            big = np.zeros((2 * len(a), 2), dtype=dt)
            big[::2] = a
            return big[::2]
        return a

    def make():
        d = {(np.int64(k) if npkeys else k): arr(v) for k, v in data.items()}
        ctx.op("from_positions")
        ctx.op("from_positions_layout_" + layout)
        return KmerTable.from_positions(w.kalph, d)

    model = {k: list(v) for k, v in data.items() if v}
    return Built(make(), model, make, "from_positions", pool)


def build_any(ctx, rng, w, kind, nb, pool=None, prefer=None):
    hows = ["sequences", "sequences", "kmers", "selection"] + (["positions"] if kind == "kmer" else [])
    how = prefer or pick(rng, hows)
    fn = {"sequences": build_from_sequences, "kmers": build_from_kmers,
          "selection": build_from_selection, "positions": build_from_positions}[how]
    return fn(ctx, rng, w, kind, nb, pool)


def table_from_model(ctx, w, kind, model, nbuckets):
    """Rebuild a table holding exactly `model` through from_kmer_selection (entry order is arbitrary)."""
    cls = table_class(kind)
    by_ref = {}
    for km, ents in model.items():
        for r, p in ents:
            by_ref.setdefault(r, ([], []))
            by_ref[r][0].append(p)
            by_ref[r][1].append(km)
    refs = sorted(by_ref)
    extra = {} if kind == "kmer" else {"n_buckets": nbuckets}
    ctx.op("from_kmer_selection:" + kind)
    return cls.from_kmer_selection(w.kalph, [np.array(by_ref[r][0], dtype=np.uint32) for r in refs],
                                   [np.array(by_ref[r][1], dtype=np.int64) for r in refs], ref_ids=refs, **extra)


# ====================================================================== oracles on one table
BIG = 2**32


def rows_as_tuples(arr):
    return [tuple(int(x) for x in r) for r in arr.tolist()]


def check_kmer_alphabet(ctx, rng, w, codes):
    """KmerAlphabet.create_kmers / split / fuse / kmer_array_length against the own radix code."""
    ctx.oracle("create_kmers_vs_naive")
    s = w.seq(codes)
    ctx.op("create_kmers")
    got = w.kalph.create_kmers(s.code)
    exp = w.ka.decompose(codes)
    if got.tolist() != exp:
        ctx.fail("create_kmers_vs_naive", "create_kmers differs from the radix-code decomposition",
                 got=got.tolist(), expected=exp, codes=codes)
    if int(w.kalph.kmer_array_length(len(codes))) != len(exp):
        ctx.fail("create_kmers_vs_naive", "kmer_array_length(%d) != %d" % (len(codes), len(exp)))
    if len(w.kalph) != w.ka.size:
        ctx.fail("create_kmers_vs_naive", "len(KmerAlphabet) %d != %d" % (len(w.kalph), w.ka.size))
    if exp:
        some = [exp[0], exp[-1], pick(rng, exp), 0, w.ka.size - 1]
        ctx.op("split")
        sp = w.kalph.split(np.array(some, dtype=np.int64))
        if sp.tolist() != [w.ka.split(c) for c in some]:
            ctx.fail("create_kmers_vs_naive", "split differs from the radix digits", codes=some, got=sp.tolist())
        ctx.op("fuse")
        fu = w.kalph.fuse(np.array([w.ka.split(c) for c in some], dtype=np.int64))
        if [int(x) for x in fu] != some:
            ctx.fail("create_kmers_vs_naive", "fuse(split(c)) != c", codes=some, got=[int(x) for x in fu])


_FORCED = set()      # trigger classes a probe exercises on purpose


def lookup_allowed(ctx, w, kind):
    """table[kmer] / str(table) may be judged: always for KmerTable; for BucketKmerTable only while the
    k-mer alphabet stays below 2^32 codes unless the known-finding class is open for testing."""
    return (kind == "kmer" or w.ka.size <= BIG or "bucket_lookup_code_ge_2_32" in _FORCED
            or ctx.allowed("bucket_lookup_code_ge_2_32"))


def check_table(ctx, rng, w, t, model, kind, deep=True):
    """Every read-only view of a table against the reference multimap."""
    exp_kmers = sorted(km for km, v in model.items() if v)
    ctx.oracle("len_vs_model")
    if len(t) != w.ka.size:
        ctx.fail("len_vs_model", "len(table) = %d, alphabet has %d k-mers" % (len(t), w.ka.size))
    ctx.oracle("get_kmers_vs_model")
    ctx.op("get_kmers:" + kind)
    got = t.get_kmers()
    if sorted(int(x) for x in got) != exp_kmers:
        ctx.fail("get_kmers_vs_model", "get_kmers differs from the keys of the reference multimap",
                 got=[int(x) for x in got][:60], expected=exp_kmers[:60])
    if kind == "kmer":
        ctx.oracle("iteration_vs_model")
        ctx.op("iter")
        it = list(t)
        if sorted(it) != exp_kmers or not all(type(x) is int for x in it):
            ctx.fail("iteration_vs_model", "iteration yields %r, expected %r" % (it[:40], exp_kmers[:40]))
        if deep:
            ctx.op("reversed")
            if sorted(int(x) for x in reversed(t)) != exp_kmers:
                ctx.fail("iteration_vs_model", "reversed() differs from the reference keys")
    # sample of codes: present, absent, duplicates
    present = exp_kmers if len(exp_kmers) <= 30 else [exp_kmers[int(i)] for i in sorted(rng.choice(len(exp_kmers), 30, replace=False))]
    absent = []
    for _ in range(6):
        c = int(rng.integers(0, w.ka.size))
        if c not in model or not model[c]:
            absent.append(c)
    sample = present + absent + ([present[0]] if present else []) + [0, w.ka.size - 1]
    ctx.oracle("count_vs_model")
    ctx.op("count:" + kind)
    cnt = t.count(np.array(sample, dtype=np.int64))
    expc = [len(model.get(c, ())) for c in sample]
    if cnt.tolist() != expc:
        ctx.fail("count_vs_model", "count(kmers) differs from the reference", kmers=sample, got=cnt.tolist(), expected=expc)
    if kind == "kmer" and deep and w.ka.size <= 100000:
        ctx.op("count_all")
        full = t.count()
        dense = np.zeros(w.ka.size, dtype=np.int64)
        for km, v in model.items():
            dense[km] = len(v)
        if full.shape != dense.shape or not np.array_equal(full, dense):
            bad = np.nonzero(full != dense)[0][:10].tolist() if full.shape == dense.shape else "shape"
            ctx.fail("count_vs_model", "count() differs from the reference at k-mers %r" % (bad,))
    if kind == "kmer":
        ctx.op("contains")
        for c in sample[:12]:
            if (c in t) != bool(model.get(c)):
                ctx.fail("iteration_vs_model", "(%d in table) is %s, reference says %s" % (c, c in t, bool(model.get(c))))
    can_lookup = lookup_allowed(ctx, w, kind)
    if can_lookup:
        ctx.oracle("lookup_vs_model")
    for c in (sample if deep else sample[:8]):
        if not can_lookup:
            break
        ctx.op("getitem:" + kind)
        rows = t[np.int64(c)] if rng.random() < 0.2 else t[c]
        if rows.ndim != 2 or rows.shape[1] != 2:
            ctx.fail("lookup_vs_model", "table[%d] has shape %s" % (c, rows.shape))
        if sorted(rows_as_tuples(rows)) != sorted(model.get(c, [])):
            ctx.fail("lookup_vs_model", "table[%d] differs from the reference entries" % c,
                     got=sorted(rows_as_tuples(rows))[:40], expected=sorted(model.get(c, []))[:40])
    if deep and len(exp_kmers) <= 40 and can_lookup:
        ctx.op("str")
        txt = str(t)
        nlines = len(txt.split("\n")) if txt else 0
        if nlines != len(exp_kmers):
            ctx.fail("lookup_vs_model", "str(table) has %d lines for %d k-mers" % (nlines, len(exp_kmers)))
        nent = txt.count("(") if w.akind == "letter" else None
        if nent is not None and nent != sum(len(model[km]) for km in exp_kmers):
            ctx.fail("lookup_vs_model", "str(table) lists %d entries, reference has %d" % (nent, sum(len(model[km]) for km in exp_kmers)))


def perturb(rng, w, model):
    """A multimap that differs from `model` in exactly one small way."""
    m2 = {km: list(v) for km, v in model.items() if v}
    keys = sorted(m2)
    how = pick(rng, ["pos", "ref", "move", "drop", "add"]) if keys else "add"
    if how == "add":
        km = pick(rng, keys) if keys and rng.random() < 0.5 else int(rng.integers(0, w.ka.size))
        m2.setdefault(km, []).append((int(rng.integers(0, 9)), int(rng.integers(0, 99))))
        return m2, how
    km = pick(rng, keys)
    i = int(rng.integers(len(m2[km])))
    r, p = m2[km][i]
    if how == "pos":
        m2[km][i] = (r, p + 1 if p < U32MAX else p - 1)
    elif how == "ref":
        m2[km][i] = (r + 1 if r < U32MAX else r - 1, p)
    elif how == "drop":
        del m2[km][i]
    else:
        if w.ka.size < 2:
            del m2[km][i]
        else:
            del m2[km][i]
            other = (km + 1 + int(rng.integers(0, w.ka.size - 1))) % w.ka.size
            m2.setdefault(other, []).append((r, p))
    return m2, how


def n_buckets_of(t, kind):
    return None if kind == "kmer" else int(t.n_buckets)


def check_eq_and_pickle(ctx, rng, w, built, kind):
    t, model = built.table, built.model
    ctx.oracle("eq_vs_model")
    ctx.op("eq:" + kind)
    t2 = built.rebuild()
    if not (t == t2) or not (t2 == t) or not (t == t):
        ctx.fail("eq_vs_model", "== is False against an identically constructed table")
    if t == "table" or t == None or t == model:  # noqa: E711
        ctx.fail("eq_vs_model", "== is True against a foreign object")
    ctx.oracle("pickle_roundtrip")
    ctx.op("pickle:" + kind)
    blob = pickle.dumps(t, protocol=int(pick(rng, [2, 4, 5])))
    p = pickle.loads(blob)
    if type(p) is not type(t) or not (p == t) or not (t == p):
        ctx.fail("pickle_roundtrip", "unpickled table is not equal to the original")
    if kind == "bucket" and int(p.n_buckets) != int(t.n_buckets):
        ctx.fail("pickle_roundtrip", "n_buckets %d became %d" % (t.n_buckets, p.n_buckets))
    check_table(ctx, rng, w, p, model, kind, deep=False)
    if p.kmer_alphabet != t.kmer_alphabet:
        ctx.fail("pickle_roundtrip", "kmer_alphabet differs after pickling")
    if t.k != w.k or not (t.kmer_alphabet == w.kalph) or t.alphabet != w.alph:
        ctx.fail("eq_vs_model", "k / kmer_alphabet / alphabet attributes differ from the construction arguments")
    if rng.random() < 0.3:
        import copy
        ctx.op("deepcopy:" + kind)
        c = copy.deepcopy(t) if rng.random() < 0.5 else copy.copy(t)
        if not (c == t) or c is t:
            ctx.fail("pickle_roundtrip", "copy of the table is not an equal, distinct table")
        check_table(ctx, rng, w, c, model, kind, deep=False)
    # a different multimap must compare unequal
    m2, how = perturb(rng, w, model)
    if model_key(m2) != model_key(model):
        t3 = table_from_model(ctx, w, kind, m2, n_buckets_of(t, kind))
        check_table(ctx, rng, w, t3, m2, kind, deep=False)
        ctx.oracle("eq_vs_model")
        if t == t3 or t3 == t:
            ctx.fail("eq_vs_model", "== is True although the multimaps differ (%s)" % how,
                     a=model_key(model)[:20], b=model_key(m2)[:20])
    # same multimap, possibly another entry order: not decided by the statement
    t4 = table_from_model(ctx, w, kind, model, n_buckets_of(t, kind))
    ctx.note("eq_same_multimap_rebuilt:%s" % bool(t == t4))
    return p


# ====================================================================== matching oracles
def check_match(ctx, rng, w, t, model, kind, qcodes, sub_n=None, ignore=None, rule=None, sim=None):
    s = w.seq(qcodes, sub_n)
    kwargs = {}
    if ignore is not None:
        kwargs["ignore_mask"] = ignore.copy()
    if rule is not None:
        kwargs["similarity_rule"] = rule
    ctx.log("match", {"query": qcodes, "sub_alph": sub_n, "ignore": None if ignore is None else ignore.astype(int).tolist(),
                      "rule": sim is not None})
    ctx.op("match:%s%s%s" % (kind, ":mask" if ignore is not None else "", ":rule" if rule is not None else ""))
    res = t.match(s, **kwargs)
    ctx.oracle("match_vs_naive")
    if res.ndim != 2 or res.shape[1] != 3:
        ctx.fail("match_vs_naive", "match returned shape %s" % (res.shape,))
    got = set(rows_as_tuples(res))
    exp, mult, nq = model_match(w.ka, model, qcodes, None if ignore is None else ignore.tolist(), sim)
    if got != exp:
        ctx.fail("match_vs_naive", "match triples differ from the naive enumeration",
                 missing=sorted(exp - got)[:30], unexpected=sorted(got - exp)[:30], n_got=len(got), n_expected=len(exp))
    if len(res) != mult:
        ctx.note("match_row_multiplicity_differs")
    if len(res) > 1 and not np.all(np.diff(res[:, 0]) >= 0):
        ctx.note("match_rows_not_ordered_by_query_position")
    ctx.mark_nontrivial(0 < len({g[0] for g in got}) < nq)
    return got


def check_match_table(ctx, rng, w, t, model, other, omodel, kind, rule=None, sim=None):
    ctx.log("match_table", {"rule": sim is not None})
    if kind == "bucket" and int(t.n_buckets) != int(other.n_buckets):
        expect_raise(ctx, "match_table with %d vs %d buckets" % (t.n_buckets, other.n_buckets),
                     lambda: t.match_table(other), (ValueError,))
        return None
    ctx.op("match_table:%s%s" % (kind, ":rule" if rule is not None else ""))
    res = t.match_table(other) if rule is None else t.match_table(other, similarity_rule=rule)
    ctx.oracle("match_table_vs_naive")
    if res.ndim != 2 or res.shape[1] != 4:
        ctx.fail("match_table_vs_naive", "match_table returned shape %s" % (res.shape,))
    got = set(rows_as_tuples(res))
    exp = model_match_table(model, omodel, sim)
    if got != exp:
        ctx.fail("match_table_vs_naive", "match_table rows differ from the naive cartesian products",
                 missing=sorted(exp - got)[:30], unexpected=sorted(got - exp)[:30], n_got=len(got), n_expected=len(exp))
    ctx.mark_nontrivial(len(got) > 0)
    return got


def check_match_selection(ctx, rng, w, t, model, kind, positions, kmers):
    pdt = pick(rng, ["uint32", "int64", "uint64"])
    ctx.log("match_kmer_selection", {"positions": positions, "kmers": kmers, "pos_dtype": pdt})
    ctx.op("match_kmer_selection:" + kind)
    res = t.match_kmer_selection(np.array(positions, dtype=pdt), np.array(kmers, dtype=np.int64))
    ctx.oracle("match_selection_vs_naive")
    if res.ndim != 2 or res.shape[1] != 3:
        ctx.fail("match_selection_vs_naive", "match_kmer_selection returned shape %s" % (res.shape,))
    got = set(rows_as_tuples(res))
    exp = model_match_selection(model, positions, kmers)
    if got != exp:
        ctx.fail("match_selection_vs_naive", "match_kmer_selection rows differ from the naive enumeration",
                 missing=sorted(exp - got)[:30], unexpected=sorted(got - exp)[:30])
    ctx.mark_nontrivial(0 < len(got))
    return got


def expect_raise(ctx, what, fn, classes, oracle="rejects_invalid"):
    ctx.oracle(oracle)
    try:
        res = fn()
    except classes as e:
        ctx.exc(e)
        return e
    r = repr(res)
    ctx.fail(oracle, "%s returned %s instead of raising %s" % (what, r if len(r) < 200 else r[:200] + "...",
                                                               "/".join(c.__name__ for c in classes)))


# ====================================================================== strata
def pick_kind(rng, w, approx=40, explicit=False):
    kind = "kmer" if rng.random() < 0.45 else "bucket"
    nb = gen_nbuckets(rng, approx, explicit) if kind == "bucket" else None
    return kind, nb


def mark_table_nontrivial(ctx, model):
    keys = [km for km, v in model.items() if v]
    ctx.mark_nontrivial(len(keys) >= 2 and any(len(model[km]) >= 2 for km in keys))


def case_table_build(rng, ctx, w=None):
    w = w or World(ctx, rng)
    nparts = int(pick(rng, [1, 1, 1, 2, 2, 3]))
    kind, nb = pick_kind(rng, w, explicit=nparts > 1)
    parts, pool = [], []
    for _ in range(nparts):
        b = build_any(ctx, rng, w, kind, nb, pool)
        pool = b.pool
        check_table(ctx, rng, w, b.table, b.model, kind, deep=(nparts == 1))
        parts.append(b)
    if pool:
        check_kmer_alphabet(ctx, rng, w, pick(rng, pool))
    if nparts == 1 and rng.random() < 0.6:
        final = parts[0]
    else:
        tabs = [b.table for b in parts]
        order = [int(x) for x in rng.permutation(len(tabs))]
        ctx.log("from_tables", order)

        def make(parts=parts, order=order):
            ctx.op("from_tables:" + kind)
            return table_class(kind).from_tables([parts[i].table for i in order])

        merged = model_merge([parts[i].model for i in order])
        final = Built(make(), merged, make, "from_tables", pool)
        check_table(ctx, rng, w, final.table, merged, kind)
        for b in parts:                      # operands untouched by merging
            check_table(ctx, rng, w, b.table, b.model, kind, deep=False)
    p = check_eq_and_pickle(ctx, rng, w, final, kind)
    if rng.random() < 0.3:                   # a restored table can be merged and matched like any other
        ctx.op("from_tables:" + kind)
        both = table_class(kind).from_tables([p, final.table])
        check_table(ctx, rng, w, both, model_merge([final.model, final.model]), kind, deep=False)
    ctx.state(repr(model_key(final.model))[:4000])
    mark_table_nontrivial(ctx, final.model)
    return w, kind, nb, final


def gen_query(rng, w, pool, ctx):
    sub_n = None
    codes = gen_codes(rng, w.n, w.rand_len(rng), pool)
    if w.n > 2 and rng.random() < 0.1:
        sub_n = max(codes) + 1 if codes else 2
        sub_n = max(2, sub_n)
    ignore = gen_mask(rng, len(codes)) if (mask_ok(ctx, w) and rng.random() < 0.45) else None
    return codes, sub_n, ignore


def case_match(rng, ctx):
    w = World(ctx, rng)
    kind, nb = pick_kind(rng, w)
    b = build_any(ctx, rng, w, kind, nb, None, prefer="sequences" if rng.random() < 0.6 else None)
    t, model, pool = b.table, b.model, b.pool
    if rng.random() < 0.25:
        ctx.op("pickle:" + kind)
        t = pickle.loads(pickle.dumps(t))
    if rng.random() < 0.2:
        b2 = build_any(ctx, rng, w, kind, n_buckets_of(t, kind), pool)
        ctx.op("from_tables:" + kind)
        t = table_class(kind).from_tables([t, b2.table])
        model = model_merge([model, b2.model])
        pool = b2.pool
    check_table(ctx, rng, w, t, model, kind, deep=False)
    for _ in range(int(rng.integers(1, 4))):
        op = pick(rng, ["match", "match", "match_table", "selection"])
        if op == "match":
            codes, sub_n, ignore = gen_query(rng, w, pool, ctx)
            check_match(ctx, rng, w, t, model, kind, codes, sub_n, ignore)
        elif op == "match_table":
            o = build_any(ctx, rng, w, kind, n_buckets_of(t, kind) if rng.random() < 0.9 else nb, pool)
            check_match_table(ctx, rng, w, t, model, o.table, o.model, kind)
            check_table(ctx, rng, w, o.table, o.model, kind, deep=False)
        else:
            keys = sorted(km for km, v in model.items() if v)
            nsel = int(pick(rng, [0, 1, 3, 8, 20]))
            kmers = [pick(rng, keys) if (keys and rng.random() < 0.6) else int(rng.integers(0, w.ka.size)) for _ in range(nsel)]
            positions = [int(pick(rng, [0, 1, 5, 77, U32MAX])) if rng.random() < 0.3 else int(rng.integers(0, 500)) for _ in range(nsel)]
            check_match_selection(ctx, rng, w, t, model, kind, positions, kmers)
    check_table(ctx, rng, w, t, model, kind, deep=False)     # matching never changes the table
    ctx.state(repr(model_key(model))[:4000])


def gen_rule(ctx, rng, w):
    """Random symmetric matrix (possibly over a larger alphabet) and threshold -> (rule, SimModel)."""
    extra = int(pick(rng, [0, 0, 1, 2])) if w.akind == "letter" else 0
    nm = w.n + extra
    a = rng.integers(-4, 6, size=(nm, nm))
    mat = np.triu(a) + np.triu(a, 1).T
    if rng.random() < 0.5:
        mat[np.arange(nm), np.arange(nm)] = rng.integers(2, 7, size=nm)
    malph = alphabet(w.akind, nm)
    sub = align.SubstitutionMatrix(malph, malph, mat.astype(pick(rng, ["int32", "int64"])))
    small = [[int(mat[i][j]) for j in range(w.n)] for i in range(w.n)]
    sm = SimModel(w.ka, small, 0)
    r = rng.random()
    if r < 0.6:
        x, y = int(rng.integers(0, w.ka.size)), int(rng.integers(0, w.ka.size))
        if rng.random() < 0.5:
            y = x
        thr = sm.score(x, y) + int(rng.integers(-1, 2))
    else:
        lo, hi = int(mat.min()) * w.k - 1, int(mat.max()) * w.k + 2
        thr = int(rng.integers(lo, hi))
    sm.t = thr
    ctx.log("rule", {"matrix": mat.tolist(), "threshold": thr})
    ctx.op("ScoreThresholdRule")
    return align.ScoreThresholdRule(sub, thr), sm


def check_similar_kmers(ctx, rng, w, rule, sm, code):
    ctx.op("similar_kmers")
    got = rule.similar_kmers(w.kalph, code)
    ctx.oracle("similar_kmers_vs_bruteforce")
    gl = [int(x) for x in got]
    exp = sm.all_similar(code)
    if set(gl) != exp or len(gl) != len(set(gl)):
        ctx.fail("similar_kmers_vs_bruteforce", "similar_kmers(%d) differs from the enumeration of all %d k-mers" % (code, w.ka.size),
                 missing=sorted(exp - set(gl))[:30], unexpected=sorted(set(gl) - exp)[:30], duplicates=len(gl) - len(set(gl)))
    return exp


def case_similarity(rng, ctx):
    w = World(ctx, rng, max_size=700 if ctx.tier == "quick" else 1300, wide_ok=False)
    kind, nb = pick_kind(rng, w)
    rule, sm = gen_rule(ctx, rng, w)
    if rng.random() < 0.5:
        # the rule object has been used before, with a k-mer alphabet of another k over the same base alphabet
        # (one rule, several indices): what it returns for this alphabet must not depend on that
        k2 = w.k + 1 if (w.n ** (w.k + 1) <= 5000 or w.k == 1) else w.k - 1
        if k2 >= 1 and k2 != w.k:
            other = align.KmerAlphabet(w.kalph.base_alphabet, k2)
            for code in sorted({0, len(other) - 1} | {int(c) for c in rng.integers(0, min(len(other), w.ka.size), size=6)}):
                try:
                    rule.similar_kmers(other, code)
                except Exception:
                    pass
            ctx.op("similarity_rule_used_before_with_other_k")
    b = build_any(ctx, rng, w, kind, nb, None, prefer="sequences" if rng.random() < 0.7 else None)
    t, model, pool = b.table, b.model, b.pool
    keys = sorted(km for km, v in model.items() if v)
    total = 0
    for code in ([pick(rng, keys)] if keys else []) + [int(rng.integers(0, w.ka.size)), 0, w.ka.size - 1]:
        total += len(check_similar_kmers(ctx, rng, w, rule, sm, code))
    for _ in range(int(rng.integers(1, 3))):
        if rng.random() < 0.7:
            codes, sub_n, ignore = gen_query(rng, w, pool, ctx)
            if len(codes) > 25:
                codes = codes[:25]
                ignore = None if ignore is None else np.ascontiguousarray(ignore[:25])
            if len(codes) >= w.ka.span:
                check_match(ctx, rng, w, t, model, kind, codes, sub_n, ignore, rule, sm)
        else:
            o = build_any(ctx, rng, w, kind, n_buckets_of(t, kind), pool, prefer=pick(rng, ["sequences", "kmers"]))
            check_match_table(ctx, rng, w, t, model, o.table, o.model, kind, rule, sm)
    check_table(ctx, rng, w, t, model, kind, deep=False)
    ctx.mark_nontrivial(0 < total < 4 * w.ka.size)


# ---------------------------------------------------------------------- invalid inputs
def case_invalid(rng, ctx):
    """Inputs that must be rejected with an exception; an existing table must stay unchanged."""
    w = World(ctx, rng, wide_ok=False)
    kind, nb = pick_kind(rng, w, explicit=True)
    cls = table_class(kind)
    extra = {} if kind == "kmer" else {"n_buckets": nb}
    b = build_any(ctx, rng, w, kind, nb, None, prefer="sequences")
    t, model, pool = b.table, b.model, b.pool
    span, k, n = w.ka.span, w.k, w.n
    good = gen_codes(rng, n, max(span + 3, 8), pool)
    kinds = ["short_ref", "short_query", "mask_len", "mask_dtype", "mask_type", "mask_count", "ref_count",
             "ref_range", "code_range", "alphabet", "kmers_range", "not_kmer_alphabet", "kmers_mask_long",
             "selection_len", "lookup_high", "count_range", "selection_range", "tables_alphabet",
             "table_type", "kmer_alphabet_args", "negative_buckets"]
    if kind == "kmer":
        kinds += ["positions_key", "positions_shape"]
    else:
        kinds += ["tables_buckets"]
    if ctx.allowed("negative_kmer_lookup"):
        kinds.append("lookup_negative")
    if ctx.allowed("from_kmers_short_mask"):
        kinds.append("kmers_mask_short")
    if ctx.allowed("zero_buckets") and kind == "bucket":
        kinds.append("zero_buckets")
    if ctx.allowed("noncontiguous_ignore_mask") and mask_ok(ctx, w):
        kinds.append("mask_strided")
    for what in [pick(rng, kinds) for _ in range(int(rng.integers(2, 6)))]:
        ctx.op("invalid:" + what)
        ctx.log("invalid", what)
        ctx.mark_nontrivial()
        if what == "short_ref":
            L = int(pick(rng, [0, max(0, k - 1), span - 1, max(0, span - 2)]))
            bad = gen_codes(rng, n, L)
            seqs = [w.seq(good), w.seq(bad)]
            if rng.random() < 0.5:
                seqs.reverse()
            ctx.log("lengths", [len(s) for s in seqs])
            expect_raise(ctx, "from_sequences with a sequence of length %d (span %d)" % (L, span),
                         lambda: cls.from_sequences(k, seqs, spacing=w.spacing_copy(), **extra), (ValueError,))
        elif what == "short_query":
            L = int(pick(rng, [0, max(0, k - 1), span - 1, max(0, span - 2)]))
            q = w.seq(gen_codes(rng, n, L))
            ctx.log("length", L)
            expect_raise(ctx, "match with a query of length %d (span %d)" % (L, span), lambda: t.match(q), (ValueError,))
        elif what == "mask_len":
            L = len(good) + int(pick(rng, [-3, -1, 1, 4]))
            mask = np.zeros(max(L, 0), dtype=bool)
            if rng.random() < 0.5:
                expect_raise(ctx, "from_sequences with mask length %d for %d symbols" % (len(mask), len(good)),
                             lambda: cls.from_sequences(k, [w.seq(good)], ignore_masks=[mask], spacing=w.spacing_copy(), **extra),
                             (IndexError,))
            else:
                expect_raise(ctx, "match with mask length %d for %d symbols" % (len(mask), len(good)),
                             lambda: t.match(w.seq(good), ignore_mask=mask), (IndexError,))
        elif what == "mask_dtype":
            mask = np.zeros(len(good), dtype=pick(rng, ["uint8", "int64", "float64"]))
            if rng.random() < 0.5:
                expect_raise(ctx, "from_sequences with %s mask" % mask.dtype,
                             lambda: cls.from_sequences(k, [w.seq(good)], ignore_masks=[mask], spacing=w.spacing_copy(), **extra),
                             (ValueError, TypeError))
            else:
                expect_raise(ctx, "match with %s mask" % mask.dtype, lambda: t.match(w.seq(good), ignore_mask=mask),
                             (ValueError, TypeError))
        elif what == "mask_type":
            mask = [False] * len(good)
            expect_raise(ctx, "match with a list as mask", lambda: t.match(w.seq(good), ignore_mask=mask), (TypeError, ValueError))
        elif what == "mask_count":
            expect_raise(ctx, "from_sequences with 2 masks for 1 sequence",
                         lambda: cls.from_sequences(k, [w.seq(good)], ignore_masks=[None, None], spacing=w.spacing_copy(), **extra),
                         (IndexError, ValueError))
        elif what == "ref_count":
            expect_raise(ctx, "from_sequences with 2 ref ids for 1 sequence",
                         lambda: cls.from_sequences(k, [w.seq(good)], ref_ids=[1, 2], spacing=w.spacing_copy(), **extra),
                         (IndexError, ValueError))
        elif what == "ref_range":
            rid = int(pick(rng, [-1, 2**32, 2**40, -2**31]))
            ctx.log("ref_id", rid)
            expect_raise(ctx, "from_sequences with ref id %d" % rid,
                         lambda: cls.from_sequences(k, [w.seq(good)], ref_ids=[rid], spacing=w.spacing_copy(), **extra),
                         (OverflowError, ValueError))
        elif what == "code_range":
            bad = list(good)
            # an informative position of some k-mer (spaced models skip the others)
            bad[int(rng.integers(w.ka.n_kmers(len(bad)))) + int(pick(rng, w.ka.offsets))] = int(pick(rng, [n, n + 1, 255]))
            ctx.log("codes", bad)
            if rng.random() < 0.5:
                expect_raise(ctx, "from_sequences with symbol code >= %d" % n,
                             lambda: cls.from_sequences(k, [w.seq(bad)], spacing=w.spacing_copy(), **extra), (AlphabetError,))
            else:
                expect_raise(ctx, "match with symbol code >= %d" % n, lambda: t.match(w.seq(bad)), (AlphabetError,))
        elif what == "alphabet":
            other = alphabet("general" if w.akind == "letter" else "letter", n) if rng.random() < 0.5 else alphabet(w.akind, n + 1)
            q = seq.GeneralSequence(other)
            q.code = np.array(good, dtype=np.int64)
            if rng.random() < 0.5:
                expect_raise(ctx, "match with a sequence over a foreign alphabet", lambda: t.match(q), (ValueError,))
            else:
                expect_raise(ctx, "from_sequences without a common alphabet",
                             lambda: cls.from_sequences(k, [w.seq(good), q], alphabet=w.alph, spacing=w.spacing_copy(), **extra),
                             (ValueError,))
        elif what == "kmers_range":
            arr = np.array(w.ka.decompose(good), dtype=np.int64)
            arr[int(rng.integers(len(arr)))] = int(pick(rng, [w.ka.size, w.ka.size + 7, -1, -w.ka.size]))
            ctx.log("kmers", arr.tolist())
            expect_raise(ctx, "from_kmers with an invalid k-mer code", lambda: cls.from_kmers(w.kalph, [arr], **extra), (AlphabetError,))
        elif what == "not_kmer_alphabet":
            arr = np.array(w.ka.decompose(good), dtype=np.int64)
            expect_raise(ctx, "from_kmers with a base alphabet", lambda: cls.from_kmers(w.alph, [arr], **extra), (TypeError,))
        elif what == "kmers_mask_long":
            arr = np.array(w.ka.decompose(good), dtype=np.int64)
            mask = np.ones(len(arr) + int(rng.integers(1, 5)), dtype=bool)
            expect_raise(ctx, "from_kmers with a mask longer than the k-mers", lambda: cls.from_kmers(w.kalph, [arr], masks=[mask], **extra),
                         (IndexError,))
        elif what == "kmers_mask_short":
            arr = np.array(w.ka.decompose(good), dtype=np.int64)
            mask = np.ones(max(0, len(arr) - int(rng.integers(1, 4))), dtype=bool)
            expect_raise(ctx, "from_kmers with a mask shorter than the k-mers", lambda: cls.from_kmers(w.kalph, [arr], masks=[mask], **extra),
                         (IndexError,))
        elif what == "selection_len":
            arr = np.array(w.ka.decompose(good), dtype=np.int64)
            pos = np.arange(len(arr) + int(pick(rng, [-1, 1, 3])), dtype=np.uint32)
            if rng.random() < 0.5:
                expect_raise(ctx, "from_kmer_selection with %d positions for %d k-mers" % (len(pos), len(arr)),
                             lambda: cls.from_kmer_selection(w.kalph, [pos], [arr], **extra), (IndexError,))
            else:
                expect_raise(ctx, "match_kmer_selection with %d positions for %d k-mers" % (len(pos), len(arr)),
                             lambda: t.match_kmer_selection(pos, arr), (IndexError,))
        elif what == "lookup_high":
            c = w.ka.size + int(pick(rng, [0, 1, 1000]))
            expect_raise(ctx, "table[%d] with %d k-mers" % (c, w.ka.size), lambda: t[c], (AlphabetError, IndexError))
        elif what == "lookup_negative":
            c = -int(pick(rng, [1, 2, w.ka.size, w.ka.size + 1]))
            expect_raise(ctx, "table[%d]" % c, lambda: t[c], (AlphabetError, IndexError))
        elif what == "count_range":
            arr = np.array([0, int(pick(rng, [w.ka.size, -1, w.ka.size + 3]))], dtype=np.int64)
            expect_raise(ctx, "count(%s)" % arr.tolist(), lambda: t.count(arr), (AlphabetError,))
        elif what == "selection_range":
            arr = np.array([0, int(pick(rng, [w.ka.size, -1, w.ka.size + 3]))], dtype=np.int64)
            expect_raise(ctx, "match_kmer_selection(kmers=%s)" % arr.tolist(),
                         lambda: t.match_kmer_selection(np.array([0, 1], dtype=np.uint32), arr), (AlphabetError,))
        elif what == "positions_key":
            key = int(pick(rng, [w.ka.size, -1, w.ka.size + 9]))
            expect_raise(ctx, "from_positions with key %d" % key,
                         lambda: KmerTable.from_positions(w.kalph, {0: np.array([[1, 2]], dtype=np.uint32), key: np.array([[1, 2]], dtype=np.uint32)}),
                         (AlphabetError,))
        elif what == "positions_shape":
            shp = pick(rng, [(2, 3), (2, 1), (4,)])
            expect_raise(ctx, "from_positions with array of shape %s" % (shp,),
                         lambda: KmerTable.from_positions(w.kalph, {0: np.ones(shp, dtype=np.uint32)}), (IndexError, ValueError))
        elif what in ("tables_alphabet", "table_type", "tables_buckets"):
            if what == "tables_alphabet":
                k2 = k + 1 if n ** (k + 1) <= 8000 else k - 1
                if k2 < 2:
                    continue
                o = cls.from_sequences(k2, [w.seq(gen_codes(rng, n, 12))], **extra)
                klass = (ValueError,)
            elif what == "table_type":
                ocls = BucketKmerTable if kind == "kmer" else KmerTable
                o = ocls.from_sequences(k, [w.seq(good)], spacing=w.spacing_copy())
                klass = (TypeError,)
            else:
                nb2 = int(t.n_buckets) + 1 if int(t.n_buckets) < w.ka.size else int(t.n_buckets) - 1
                if nb2 < 1:
                    continue
                o = cls.from_sequences(k, [w.seq(good)], spacing=w.spacing_copy(), n_buckets=nb2)
                klass = (ValueError,)
            expect_raise(ctx, "match_table (%s)" % what, lambda: t.match_table(o), klass)
            if what != "table_type":
                expect_raise(ctx, "from_tables (%s)" % what, lambda: cls.from_tables([t, o]), klass)
        elif what == "kmer_alphabet_args":
            sub = pick(rng, ["k1", "count", "dup", "neg"])
            if sub == "k1":
                expect_raise(ctx, "KmerAlphabet(k=1)", lambda: KmerAlphabet(w.alph, int(pick(rng, [1, 0, -2]))), (ValueError,))
            elif sub == "count":
                expect_raise(ctx, "KmerAlphabet with k+1 informative positions", lambda: KmerAlphabet(w.alph, k, "1" * (k + 1)), (ValueError,))
            elif sub == "dup":
                expect_raise(ctx, "KmerAlphabet with duplicate spacing", lambda: KmerAlphabet(w.alph, k, [0] * k), (ValueError,))
            else:
                expect_raise(ctx, "KmerAlphabet with negative spacing", lambda: KmerAlphabet(w.alph, k, [-1] + list(range(1, k))), (ValueError,))
        elif what == "negative_buckets":
            if kind == "kmer":
                continue
            expect_raise(ctx, "n_buckets=-3", lambda: cls.from_sequences(k, [w.seq(good)], spacing=w.spacing_copy(), n_buckets=-3),
                         (ValueError, OverflowError))
        elif what == "zero_buckets":
            expect_raise(ctx, "n_buckets=0", lambda: cls.from_sequences(k, [w.seq(good)], spacing=w.spacing_copy(), n_buckets=0),
                         (ValueError, ZeroDivisionError, IndexError))
        elif what == "mask_strided":
            base = np.zeros(2 * len(good), dtype=bool)
            base[::2] = gen_mask(rng, len(good))
            mask = base[::2]
            ctx.oracle("mask_object_accepted")
            try:
                res = t.match(w.seq(good), ignore_mask=mask)
            except Exception as e:
                ctx.fail("mask_object_accepted", "non-contiguous boolean ignore mask refused: %s: %s" % (type(e).__name__, e))
            exp, _, _ = model_match(w.ka, model, good, mask.tolist())
            ctx.check(set(rows_as_tuples(res)) == exp, "match_vs_naive", "match with strided mask differs from the naive enumeration")
        ctx.oracle("state_unchanged_after_reject")
        check_table(ctx, rng, w, t, model, kind, deep=False)


# ---------------------------------------------------------------------- selectors
def gen_perm(ctx, rng, n, k_eff, kalph, ka):
    """-> (biotite Permutation | None, code -> sort key, name, (min, max) | None)"""
    how = pick(rng, ["none", "random", "random", "freq", "freq_table", "custom"])
    if how == "none" or (how != "random" and ka.size > 20000):
        return None, (lambda c: c), "none", None
    if how == "custom":
        special = [I64MIN, I64MIN + 1, -1, 0, 1, I64MAX - 1] + ([I64MAX] if ctx.allowed("sort_key_int64_max") else [])
        keys = set(special[:ka.size] if rng.random() < 0.7 else [])
        mode = pick(rng, ["wide", "narrow"])
        while len(keys) < ka.size:
            keys.add(int(rng.integers(I64MIN, I64MAX)) if mode == "wide" else int(rng.integers(-ka.size, ka.size + 1)))
        keys = [int(x) for x in rng.permutation(np.array(sorted(keys), dtype=object))]
        ctx.log("perm_keys", keys if len(keys) <= 130 else {"head": keys[:130], "n": len(keys)})
        ctx.op("TablePermutation")
        return TablePermutation(keys), (lambda c: keys[c]), "custom", (I64MIN, I64MAX)
    if how == "random":
        ctx.op("RandomPermutation")
        return align.RandomPermutation(), perm_random, "random", (-(1 << 63), (1 << 63) - 1)
    if how == "freq":
        counts = [int(x) for x in rng.integers(0, int(pick(rng, [2, 4, 50])), size=ka.size)]
        ctx.op("FrequencyPermutation")
        p = align.FrequencyPermutation(kalph, np.array(counts, dtype=np.int64))
    else:
        codes = gen_codes(rng, n, int(rng.integers(ka.span, ka.span + 60)))
        s = seq.GeneralSequence(kalph.base_alphabet)
        s.code = np.array(codes, dtype=np.int64)
        ctx.op("from_sequences:kmer")
        tab = KmerTable.from_sequences(ka.k, [s], spacing=None if not ka.spaced else list(ka.offsets))
        counts = [0] * ka.size
        for c in ka.decompose(codes):
            counts[c] += 1
        ctx.op("FrequencyPermutation.from_table")
        p = align.FrequencyPermutation.from_table(tab)
    rank = perm_frequency_table(counts)
    ctx.log("perm_counts", counts if len(counts) <= 130 else {"head": counts[:130], "n": len(counts)})
    return p, (lambda c: rank[c]), how, (0, ka.size - 1)


def check_permutation(ctx, rng, perm, fn, ka, bounds):
    if perm is None:
        return
    ctx.oracle("permutation_vs_model")
    codes = list(range(ka.size)) if ka.size <= 1500 else sorted(set(int(x) for x in rng.integers(0, ka.size, size=300)) | {0, ka.size - 1})
    ctx.op("permute")
    got = perm.permute(np.array(codes, dtype=np.int64))
    exp = [fn(c) for c in codes]
    if [int(x) for x in got] != exp:
        bad = [c for c, g, e in zip(codes, got, exp) if int(g) != e][:10]
        ctx.fail("permutation_vs_model", "permute() differs from the reference order at k-mers %r" % (bad,))
    if (int(perm.min), int(perm.max)) != bounds:
        ctx.fail("permutation_vs_model", "permutation min/max %r != %r" % ((perm.min, perm.max), bounds))


def positions_list(ctx, pos, oracle):
    """Selector positions as a list of ints; a boolean mask is not an index array."""
    pos = np.asarray(pos)
    if pos.dtype == np.bool_:
        if ctx.allowed("mincode_positions_are_mask"):
            ctx.check(False, "selector_returns_indices", "select returned a boolean mask instead of sequence indices")
        ctx.note("selector_returned_boolean_mask")
        return [int(i) for i in np.nonzero(pos)[0]]
    ctx.oracle("selector_returns_indices")
    if not np.issubdtype(pos.dtype, np.integer):
        ctx.fail("selector_returns_indices", "positions have dtype %s" % pos.dtype)
    return [int(i) for i in pos]


def compare_selection(ctx, oracle, pos, kmers_out, exp_pos, all_kmers, what):
    got = positions_list(ctx, pos, oracle)
    ctx.oracle(oracle)
    if sorted(got) != list(exp_pos):
        ctx.fail(oracle, "%s: selected positions differ from the definition" % what,
                 got=sorted(got)[:80], expected=list(exp_pos)[:80])
    if [int(x) for x in kmers_out] != [all_kmers[p] for p in got]:
        ctx.fail(oracle, "%s: returned k-mers are not the k-mers at the returned positions" % what,
                 got=[int(x) for x in kmers_out][:60], expected=[all_kmers[p] for p in got][:60])
    ctx.mark_nontrivial(0 < len(exp_pos) < len(all_kmers))


def case_minimizer(rng, ctx):
    w = World(ctx, rng, wide_ok=False)
    window = int(pick(rng, [2, 2, 3, 4, 5, 7, 8, 12]))
    perm, fn, pname, bounds = gen_perm(ctx, rng, w.n, w.k, w.kalph, w.ka)
    check_permutation(ctx, rng, perm, fn, w.ka, bounds)
    if rng.random() < 0.03:
        expect_raise(ctx, "MinimizerSelector(window=1)", lambda: align.MinimizerSelector(w.kalph, int(pick(rng, [1, 0])), perm), (ValueError,))
    ctx.op("MinimizerSelector")
    sel = align.MinimizerSelector(w.kalph, window, perm)
    need = w.ka.span + window - 1
    for _ in range(int(rng.integers(1, 4))):
        L = need + int(rng.integers(-2, 4)) if rng.random() < 0.5 else int(rng.integers(max(0, need - 2), max(need, w.maxlen) + 1))
        codes = gen_codes(rng, w.n, max(L, 0))
        use_seq = rng.random() < 0.6
        ctx.log("minimizer", {"window": window, "perm": pname, "codes": codes, "select": use_seq})
        if len(codes) < w.ka.span or w.ka.n_kmers(len(codes)) < window:
            if use_seq or len(codes) >= w.ka.span:
                arg = w.seq(codes) if use_seq else np.array(w.ka.decompose(codes), dtype=np.int64)
                expect_raise(ctx, "minimizers of %d symbols (window %d, span %d)" % (len(codes), window, w.ka.span),
                             (lambda: sel.select(arg)) if use_seq else (lambda: sel.select_from_kmers(arg)), (ValueError,))
            continue
        kmers = w.ka.decompose(codes)
        exp = naive_minimizers([fn(c) for c in kmers], window)
        if use_seq:
            ctx.op("MinimizerSelector.select")
            pos, km = sel.select(w.seq(codes), alphabet_check=bool(rng.random() < 0.8))
        else:
            ctx.op("MinimizerSelector.select_from_kmers")
            pos, km = sel.select_from_kmers(np.array(kmers, dtype=np.int64))
        compare_selection(ctx, "minimizer_vs_definition", pos, km, exp, kmers, "minimizers (window %d, %s)" % (window, pname))
        if rng.random() < 0.3:        # documented pipeline: selection -> table -> match_kmer_selection
            kind, nb = pick_kind(rng, w)
            extra = {} if kind == "kmer" else {"n_buckets": nb}
            ctx.op("from_kmer_selection:" + kind)
            t = table_class(kind).from_kmer_selection(w.kalph, [pos], [km], **extra)
            model = {}
            for p in exp:
                model.setdefault(kmers[p], []).append((0, p))
            check_table(ctx, rng, w, t, model, kind, deep=False)
            q = gen_codes(rng, w.n, len(codes), [codes])
            qk = w.ka.decompose(q)
            if len(qk) >= window:
                ctx.op("MinimizerSelector.select")
                qpos, qkm = sel.select(w.seq(q))
                qexp = naive_minimizers([fn(c) for c in qk], window)
                compare_selection(ctx, "minimizer_vs_definition", qpos, qkm, qexp, qk, "query minimizers")
                check_match_selection(ctx, rng, w, t, model, kind, qexp, [qk[p] for p in qexp])


def case_syncmer(rng, ctx):
    limit = 700 if ctx.tier == "quick" else 1300
    while True:
        n, k = int(rng.integers(2, 7)), int(pick(rng, [3, 3, 4, 4, 5, 6]))
        if n ** k <= 8000:
            break
    s = int(rng.integers(2, k))
    alph = alphabet("letter" if rng.random() < 0.7 else "general", n)
    ka, sa = KA(n, k), KA(n, s)
    window = k - s + 1
    salph = KmerAlphabet(alph, s)
    perm, fn, pname, bounds = gen_perm(ctx, rng, n, s, salph, sa)
    check_permutation(ctx, rng, perm, fn, sa, bounds)
    noff = int(pick(rng, [1, 1, 2, 3]))
    offs = [int(x) for x in rng.choice(np.arange(-window, window), size=min(noff, 2 * window), replace=False)]
    bad = rng.random() < 0.06
    if bad:
        offs.append(int(pick(rng, [window, -window - 1, window + 3])))
    wrapped = [o + window if o < 0 else o for o in offs]
    cached = n ** k <= limit and rng.random() < 0.5
    cls = align.CachedSyncmerSelector if cached else align.SyncmerSelector
    ctx.log("syncmer", {"n": n, "k": k, "s": s, "offset": offs, "perm": pname, "cached": cached})
    off_arg = pick(rng, [tuple(offs), list(offs), np.array(offs)])
    if bad or len(set(wrapped)) != len(wrapped):
        expect_raise(ctx, "syncmer offsets %r with window %d" % (offs, window), lambda: cls(alph, k, s, perm, off_arg), (IndexError, ValueError))
        return
    if rng.random() < 0.03:
        expect_raise(ctx, "SyncmerSelector(s >= k)", lambda: cls(alph, k, k, perm), (ValueError,))
    ctx.op(cls.__name__)
    sel = cls(alph, k, s, perm, off_arg)
    for _ in range(int(rng.integers(1, 4))):
        if rng.random() < 0.65:
            L = int(pick(rng, [k - 1, k, k + 1, k + window])) if rng.random() < 0.4 else int(rng.integers(k, 41))
            codes = gen_codes(rng, n, L)
            sq = seq.GeneralSequence(alph)
            sq.code = np.array(codes, dtype=np.int64)
            ctx.log("select", codes)
            if L < k:
                expect_raise(ctx, "syncmers of %d symbols (k=%d)" % (L, k), lambda: sel.select(sq), (ValueError,))
                continue
            ctx.op(cls.__name__ + ".select")
            pos, km = sel.select(sq, alphabet_check=bool(rng.random() < 0.8))
            compare_selection(ctx, "syncmer_vs_definition", pos, km, naive_syncmers(codes, n, k, s, offs, fn), ka.decompose(codes),
                              "syncmers k=%d s=%d offset=%r %s" % (k, s, offs, pname))
        else:
            kmers = [int(x) for x in rng.integers(0, ka.size, size=int(pick(rng, [0, 1, 5, 20])))]
            ctx.log("select_from_kmers", kmers)
            exp = [i for i, c in enumerate(kmers) if naive_syncmers(ka.split(c), n, k, s, offs, fn) == [0]]
            ctx.op(cls.__name__ + ".select_from_kmers")
            pos, km = sel.select_from_kmers(np.array(kmers, dtype=np.int64))
            compare_selection(ctx, "syncmer_vs_definition", pos, km, exp, kmers, "syncmers from k-mers")


def case_mincode(rng, ctx):
    w = World(ctx, rng, wide_ok=False)
    perm, fn, pname, bounds = gen_perm(ctx, rng, w.n, w.k, w.kalph, w.ka)
    check_permutation(ctx, rng, perm, fn, w.ka, bounds)
    comp = pick(rng, [1, 1.5, 2, 3, 4, 4.0, 10, w.ka.size, 2 * w.ka.size, 0.5, 0])
    ctx.log("mincode", {"compression": comp, "perm": pname})
    if comp < 1:
        expect_raise(ctx, "MincodeSelector(compression=%r)" % comp, lambda: align.MincodeSelector(w.kalph, comp, perm), (ValueError,))
        return
    ctx.op("MincodeSelector")
    sel = align.MincodeSelector(w.kalph, comp, perm)
    lo, rng_ = (0, w.ka.size) if bounds is None else (bounds[0], bounds[1] - bounds[0] + 1)
    thr = lo + rng_ / comp
    ctx.oracle("mincode_vs_definition")
    if sel.threshold != thr:
        ctx.fail("mincode_vs_definition", "threshold %r != offset + range/compression = %r" % (sel.threshold, thr))
    for _ in range(int(rng.integers(1, 4))):
        use_seq = rng.random() < 0.6
        if use_seq:
            L = int(pick(rng, [max(0, w.ka.span - 1), w.ka.span, w.ka.span + 1])) if rng.random() < 0.3 else w.rand_len(rng)
            codes = gen_codes(rng, w.n, L)
            ctx.log("select", codes)
            if L < w.ka.span:
                expect_raise(ctx, "mincode of %d symbols (span %d)" % (L, w.ka.span), lambda: sel.select(w.seq(codes)), (ValueError,))
                continue
            kmers = w.ka.decompose(codes)
            ctx.op("MincodeSelector.select")
            pos, km = sel.select(w.seq(codes))
        else:
            kmers = [int(x) for x in rng.integers(0, w.ka.size, size=int(pick(rng, [0, 1, 10, 40])))]
            ctx.log("select_from_kmers", kmers)
            ctx.op("MincodeSelector.select_from_kmers")
            pos, km = sel.select_from_kmers(np.array(kmers, dtype=np.int64))
        exact = [fn(c) < thr for c in kmers]
        rounded = [float(fn(c)) < thr for c in kmers]
        got = positions_list(ctx, pos, "mincode_vs_definition")
        undecided = {i for i, (a, b) in enumerate(zip(exact, rounded)) if a != b}
        if undecided:
            ctx.note("undecided_mincode_threshold", len(undecided))
        exp = [i for i, a in enumerate(exact) if a and i not in undecided]
        ctx.oracle("mincode_vs_definition")
        if sorted(set(got) - undecided) != exp or len(got) != len(set(got)):
            ctx.fail("mincode_vs_definition", "selected positions differ from {i: order(kmer_i) < threshold}",
                     got=sorted(got)[:80], expected=exp[:80], threshold=thr)
        if [int(x) for x in km] != [kmers[p] for p in got]:
            ctx.fail("mincode_vs_definition", "returned k-mers are not the k-mers at the returned positions")
        ctx.mark_nontrivial(0 < len(exp) < len(kmers))


# ---------------------------------------------------------------------- k-mer codes beyond 2^32
BIG_WORLDS = [(6, 13), (6, 16), (24, 7), (24, 9), (4, 17), (4, 20), (2, 33), (2, 40), (2, 62), (3, 39), (5, 14)]


def case_big_codes(rng, ctx):
    w = World(ctx, rng, nk=pick(rng, BIG_WORLDS))
    kind = "bucket"
    nparts = int(pick(rng, [1, 1, 2]))
    nb = gen_nbuckets(rng, 40, explicit=nparts > 1)
    parts, pool = [], []
    for _ in range(nparts):
        b = build_any(ctx, rng, w, kind, nb, pool)
        pool = b.pool
        check_table(ctx, rng, w, b.table, b.model, kind)
        parts.append(b)
    if nparts > 1:
        def make(parts=parts):
            ctx.op("from_tables:bucket")
            return BucketKmerTable.from_tables([p.table for p in parts])
        final = Built(make(), model_merge([p.model for p in parts]), make, "from_tables", pool)
        check_table(ctx, rng, w, final.table, final.model, kind)
    else:
        final = parts[0]
    if pool:
        check_kmer_alphabet(ctx, rng, w, pick(rng, pool))
    check_eq_and_pickle(ctx, rng, w, final, kind)
    t, model = final.table, final.model
    codes, sub_n, ignore = gen_query(rng, w, pool, ctx)
    check_match(ctx, rng, w, t, model, kind, codes, sub_n, ignore)
    o = build_any(ctx, rng, w, kind, n_buckets_of(t, kind), pool)
    check_match_table(ctx, rng, w, t, model, o.table, o.model, kind)
    keys = sorted(km for km, v in model.items() if v)
    kmers = [pick(rng, keys) if (keys and rng.random() < 0.7) else int(rng.integers(0, w.ka.size)) for _ in range(6)]
    check_match_selection(ctx, rng, w, t, model, kind, [int(x) for x in rng.integers(0, 99, size=6)], kmers)
    ctx.mark_nontrivial(any(km >= BIG for km in keys))
    ctx.state(repr(model_key(model))[:4000])


def case_long_input(rng, ctx):
    """Inputs whose length passes 16 bits: minimizers over more than 65536 k-mers, one k-mer with more than 32767 (65535)
    positions in a table.  References are NumPy recomputations."""
    alph = seq.NucleotideSequence.alphabet_unamb
    k = int(rng.choice([3, 5]))
    kalph = align.KmerAlphabet(alph, k)
    n = int(rng.choice([65540, 70003, 131075]))
    code = rng.integers(0, 4, size=n).astype(np.uint8)
    ctx.log("long_input", {"n": n, "k": k})
    ctx.mark_nontrivial()
    kmers = kalph.create_kmers(code)
    window = int(rng.choice([2, 7, 64]))
    ctx.op("MinimizerSelector.long_input")
    sel = align.MinimizerSelector(kalph, window)
    pos, km = sel.select_from_kmers(kmers)
    view = np.lib.stride_tricks.sliding_window_view(np.asarray(kmers, dtype=np.int64), window)
    exp = np.unique(np.arange(len(view)) + view.argmin(axis=1))          # leftmost minimum of every window, once each
    ctx.oracle("minimizer_vs_definition")
    if not (np.array_equal(np.asarray(pos, dtype=np.int64), exp) and np.array_equal(np.asarray(km, dtype=np.int64), np.asarray(kmers)[exp])):
        gp = np.asarray(pos, dtype=np.int64)
        first = int(np.nonzero(gp[: min(len(gp), len(exp))] != exp[: min(len(gp), len(exp))])[0][:1].sum()) if len(gp) else 0
        ctx.fail("minimizer_vs_definition", "minimizers of %d k-mers (window %d): %d positions, the definition gives %d (first difference near entry %d)"
                 % (len(kmers), window, len(gp), len(exp), first))
    # one k-mer with very many positions
    m = int(rng.choice([32767, 32768, 40000, 65536, 70000]))
    code2 = np.concatenate([np.zeros(m + k - 1, dtype=np.uint8), rng.integers(0, 4, size=200).astype(np.uint8)])
    s2 = seq.NucleotideSequence()
    s2.code = code2
    ctx.op("KmerTable.count.long_input")
    t = align.KmerTable.from_sequences(k, [s2])
    km2 = np.asarray(kalph.create_kmers(code2), dtype=np.int64)
    ctx.oracle("count_vs_model")
    probe_codes = np.array([0, int(km2[-1]), int(km2[len(km2) // 2 + m // 2 if len(km2) // 2 + m // 2 < len(km2) else -2])], dtype=np.int64)
    cnt = np.asarray(t.count(probe_codes), dtype=np.int64)
    expc = np.array([(km2 == c).sum() for c in probe_codes], dtype=np.int64)
    lens = np.array([len(t[int(c)]) for c in probe_codes], dtype=np.int64)
    if not (np.array_equal(cnt, expc) and np.array_equal(lens, expc)):
        ctx.fail("count_vs_model", "table over a sequence in which one %d-mer occurs %d times: count() = %s, len(table[kmer]) = %s, occurrences %s"
                 % (k, int(expc[0]), cnt.tolist(), lens.tolist(), expc.tolist()))
    ctx.state(("long_input", k, window, m > 65535, n > 131072))


def run_case(stratum, rng, ctx):
    if stratum == "selectors" and ctx.index % 150 == 149:
        return case_long_input(rng, ctx)
    if stratum == "table_build":
        case_table_build(rng, ctx)
    elif stratum == "match":
        case_match(rng, ctx)
    elif stratum == "similarity":
        case_similarity(rng, ctx)
    elif stratum == "invalid":
        case_invalid(rng, ctx)
    elif stratum == "selectors":
        r = rng.random()
        if r < 0.4:
            case_minimizer(rng, ctx)
        elif r < 0.75:
            case_syncmer(rng, ctx)
        else:
            case_mincode(rng, ctx)
    elif stratum == "big_codes":
        case_big_codes(rng, ctx)
    else:
        raise KeyError(stratum)


# ====================================================================== oracle audit
def selftest(ctx):
    import itertools
    # radix code, docstring literal: ATTGCT over ACGT, k=2
    acgt = {"A": 0, "C": 1, "G": 2, "T": 3}
    ka = KA(4, 2)
    assert ka.decompose([acgt[c] for c in "ATTGCT"]) == [3, 15, 14, 9, 7]
    # every sequence of length <= 6 over 2/3 symbols, contiguous and spaced, against int(base-n string)
    for n, k, sp in ((2, 2, None), (2, 2, [0, 2]), (3, 2, [1, 3]), (2, 3, [0, 1, 3]), (3, 3, None)):
        m = KA(n, k, sp)
        offs = sp or list(range(k))
        for L in range(0, 7):
            for codes in itertools.product(range(n), repeat=L):
                if L < offs[-1] + 1:
                    try:
                        m.decompose(list(codes))
                        raise AssertionError("short sequence accepted")
                    except TooShort:
                        continue
                exp = [int("".join(str(codes[i + o]) for o in offs), n) for i in range(L - offs[-1])]
                assert m.decompose(list(codes)) == exp
        for c in range(m.size):
            assert m.fuse(m.split(c)) == c and len(m.split(c)) == k and all(0 <= d < n for d in m.split(c))
    # mask semantics, docstring literal: ACCNTANNG, k=2, N ignored -> AC(0) CC(1) TA(4)
    amb = {"A": 0, "C": 1, "G": 2, "T": 3, "N": 4}
    model = {}
    s = "ACCNTANNG"
    model_add_seq(model, KA(5, 2), [amb[c] for c in s], 0, [c == "N" for c in s])
    assert model == {0 * 5 + 1: [(0, 0)], 1 * 5 + 1: [(0, 1)], 3 * 5 + 0: [(0, 4)]}
    assert KA(2, 2, [0, 2]).keep([False, True, False, False, False], 5) == [True, False, True]
    assert KA(2, 2, [0, 2]).keep([False, False, True, False, False], 5) == [False, True, False]
    # multimap + match, docstring literal: TTATA / CTAG, query TAG
    model = {}
    model_add_seq(model, ka, [acgt[c] for c in "TTATA"], 0)
    model_add_seq(model, ka, [acgt[c] for c in "CTAG"], 1)
    assert model_key(model) == ((2, ((1, 2),)), (3, ((0, 2),)), (7, ((1, 0),)), (12, ((0, 1), (0, 3), (1, 1))), (15, ((0, 0),)))
    got, mult, nq = model_match(ka, model, [acgt[c] for c in "TAG"])
    assert got == {(0, 0, 1), (0, 0, 3), (0, 1, 1), (1, 1, 2)} and mult == 4 and nq == 2
    assert model_match_table(model, {12: [(9, 5)], 0: [(9, 0)]}) == {(9, 5, 0, 1), (9, 5, 0, 3), (9, 5, 1, 1)}
    assert model_match_selection(model, [70, 71], [15, 1]) == {(70, 0, 0)}
    # similarity: vectorised brute force against plain loops, all 3-symbol 2-mers
    mat = [[2, -1, 0], [-1, 3, 1], [0, 1, 1]]
    for thr in range(-3, 8):
        sm = SimModel(KA(3, 2), mat, thr)
        for a in range(9):
            loops = {b for b in range(9) if mat[a // 3][b // 3] + mat[a % 3][b % 3] >= thr}
            assert sm.all_similar(a) == loops == {b for b in range(9) if sm.similar(a, b)}
    sm = SimModel(ka, [[1 if i == j else 0 for j in range(4)] for i in range(4)], 2)
    assert model_match(ka, model, [acgt[c] for c in "TAG"], None, sm)[0] == got
    # RandomPermutation / FrequencyPermutation docstring literals
    assert [perm_random(c) for c in range(4)] == [1, -3372029247567499370, -6744058495134998741, 8330656331007053504]
    abr = {"a": 0, "b": 1, "c": 2, "d": 3, "r": 4}
    counts = [0] * 25
    for c in KA(5, 2).decompose([abr[x] for x in "abracadabra"]):
        counts[c] += 1
    assert perm_frequency_table(counts) == [0, 22, 18, 19, 1, 2, 3, 4, 5, 23, 20, 6, 7, 8, 9, 21, 10, 11, 12, 13, 24, 14, 15, 16, 17]
    # minimizers: hand example and an independent characterisation on all short inputs
    assert naive_minimizers([3, 1, 2, 1, 5], 3) == [1, 3]
    for L in range(2, 7):
        for order in itertools.product(range(3), repeat=L):
            for window in range(2, L + 1):
                alt = set()
                for i in range(L):
                    for wstart in range(max(0, i - window + 1), min(i, L - window) + 1):
                        win = range(wstart, wstart + window)
                        if all(order[j] > order[i] for j in win if j < i) and all(order[j] >= order[i] for j in win if j > i):
                            alt.add(i)
                assert naive_minimizers(list(order), window) == sorted(alt), (order, window)
    # syncmers, docstring literal (Edgar 2021): GGCAAGTGACA, k=5, s=2, closed syncmers
    assert naive_syncmers([acgt[c] for c in "GGCAAGTGACA"], 4, 5, 2, (0, -1), lambda c: c) == [0, 3, 4, 5]
    assert naive_syncmers([acgt[c] for c in "GGCAAGTGACA"], 4, 5, 2, (0,), lambda c: c) == [3, 4]
    assert to_signed64((1 << 63)) == -(1 << 63) and to_signed64(-1) == -1


# ====================================================================== probes
def _probe_world(ctx, n, k, spacing_arg, offsets):
    w = World.__new__(World)
    w.n, w.k, w.akind = n, k, "letter"
    w.alph = alphabet("letter", n)
    w.offsets, w.spacing_arg, w.spacing_form = offsets, spacing_arg, "probe"
    w.ka = KA(n, k, offsets)
    w.kalph = KmerAlphabet(w.alph, k, spacing_arg)
    w.maxlen = 40
    ctx.log("world", {"n": n, "k": k, "spacing": offsets})
    return w


def _probe_spaced_mask(ctx):
    """S15 trigger class: spaced k-mers combined with an ignore mask (from_sequences and match)."""
    rng = np.random.default_rng(15)
    for n, k, sp in ((4, 3, "1011"), (4, 2, "101"), (3, 3, "11001"), (4, 4, "110101")):
        offs = [i for i, c in enumerate(sp) if c == "1"]
        w = _probe_world(ctx, n, k, sp, offs)
        for kind in ("kmer", "bucket"):
            cls = table_class(kind)
            for trial in range(4):
                L = w.ka.span + k + 6 + trial          # long enough: every mask read of the real code stays in bounds
                codes = [int(x) for x in rng.integers(0, n, size=L)]
                mask = np.zeros(L, dtype=bool)
                mask[int(rng.integers(k + w.ka.span, L))] = True
                if trial % 2:
                    mask[int(rng.integers(0, L))] = True
                ctx.log("from_sequences", kind, codes, mask.astype(int).tolist())
                ctx.op("from_sequences:" + kind)
                t = cls.from_sequences(k, [w.seq(codes)], ignore_masks=[mask], spacing=sp)
                model = {}
                model_add_seq(model, w.ka, codes, 0, mask.tolist())
                check_table(ctx, rng, w, t, model, kind, deep=False)
                ctx.op("from_sequences:" + kind)
                t = cls.from_sequences(k, [w.seq(codes)], spacing=sp)
                model = {}
                model_add_seq(model, w.ka, codes, 0)
                check_match(ctx, rng, w, t, model, kind, codes, None, mask)
    # short sequences: the real code reads mask[j + spacing[j]] beyond the mask (sanitizer)
    w = _probe_world(ctx, 4, 3, "1011", [0, 2, 3])
    codes = [0, 1, 2, 3]
    ctx.op("from_sequences:kmer")
    t = KmerTable.from_sequences(3, [w.seq(codes)], ignore_masks=[np.zeros(4, dtype=bool)], spacing="1011")
    model = {}
    model_add_seq(model, w.ka, codes, 0, [False] * 4)
    check_table(ctx, rng, w, t, model, "kmer", deep=False)


def _probe_bucket_lookup(ctx):
    """BucketKmerTable[kmer] for k-mer codes >= 2^32."""
    _FORCED.add("bucket_lookup_code_ge_2_32")
    rng = np.random.default_rng(32)
    for n, k in ((6, 13), (24, 7), (2, 40)):
        w = _probe_world(ctx, n, k, None, None)
        for nb in (None, 1, 7):
            codes = [n - 1] * (k + 2) + [int(x) for x in rng.integers(0, n, size=12)]
            ctx.log("from_sequences", "bucket", nb, codes)
            ctx.op("from_sequences:bucket")
            t = BucketKmerTable.from_sequences(k, [w.seq(codes)], n_buckets=nb)
            model = {}
            model_add_seq(model, w.ka, codes, 0)
            assert any(km >= BIG for km in model)
            check_table(ctx, rng, w, t, model, "bucket")


def _small_tables(ctx):
    w = _probe_world(ctx, 4, 2, None, None)
    codes = [0, 1, 2, 3, 0, 1, 2, 3]
    model = {}
    model_add_seq(model, w.ka, codes, 0)
    kt = KmerTable.from_sequences(2, [w.seq(codes)])
    bt = BucketKmerTable.from_sequences(2, [w.seq(codes)], n_buckets=3)
    return w, codes, model, kt, bt


def _probe_negative_lookup(ctx):
    """table[kmer] with a negative k-mer code must raise."""
    rng = np.random.default_rng(1)
    w, codes, model, kt, bt = _small_tables(ctx)
    for kind, t in (("kmer", kt), ("bucket", bt)):
        for c in (-1, -4, -16, -17, -1000):
            ctx.log("getitem", kind, c)
            ctx.op("getitem:" + kind)
            expect_raise(ctx, "%s[%d]" % (type(t).__name__, c), lambda: t[c], (AlphabetError, IndexError))
            check_table(ctx, rng, w, t, model, kind, deep=False)


def _probe_zero_buckets(ctx):
    w, codes, model, kt, bt = _small_tables(ctx)
    ctx.log("from_sequences", "bucket", {"n_buckets": 0, "codes": codes})
    ctx.op("from_sequences:bucket")
    expect_raise(ctx, "BucketKmerTable.from_sequences(n_buckets=0)",
                 lambda: BucketKmerTable.from_sequences(2, [w.seq(codes)], n_buckets=0).get_kmers(),
                 (ValueError, ZeroDivisionError, IndexError))


def _probe_short_kmer_mask(ctx):
    """from_kmers with a mask shorter than the k-mer array: must raise without reading beyond the mask."""
    w, codes, model, kt, bt = _small_tables(ctx)
    for cls in (KmerTable, BucketKmerTable):
        for nk, nm in ((40, 16), (17, 16), (64, 32), (9, 8)):
            arr = np.arange(nk, dtype=np.int64) % 16
            mask = np.ones(nm, dtype=bool)
            ctx.log("from_kmers", cls.__name__, nk, nm)
            ctx.op("from_kmers:" + ("kmer" if cls is KmerTable else "bucket"))
            expect_raise(ctx, "%s.from_kmers with %d k-mers and a mask of %d" % (cls.__name__, nk, nm),
                         lambda: cls.from_kmers(w.kalph, [arr], masks=[mask]), (IndexError,))


def _probe_strided_mask(ctx):
    """A boolean ignore mask that is a non-contiguous view (valid ndarray of dtype bool)."""
    w, codes, model, kt, bt = _small_tables(ctx)
    base = np.zeros(16, dtype=bool)
    base[6] = True
    mask = base[::2]
    exp, _, _ = model_match(w.ka, model, codes, mask.tolist())
    for kind, t in (("kmer", kt), ("bucket", bt)):
        ctx.log("match", kind, codes, mask.astype(int).tolist())
        ctx.op("match:%s:mask" % kind)
        ctx.oracle("mask_object_accepted")
        try:
            res = t.match(w.seq(codes), ignore_mask=mask)
        except Exception as e:
            ctx.fail("mask_object_accepted", "non-contiguous boolean ignore mask refused: %s: %s" % (type(e).__name__, e))
        ctx.check(set(rows_as_tuples(res)) == exp, "match_vs_naive", "match with strided mask differs")


def _probe_mincode_mask(ctx):
    """MincodeSelector documents index arrays (dtype uint32) as first return value."""
    w, codes, model, kt, bt = _small_tables(ctx)
    sel = align.MincodeSelector(w.kalph, 4)
    ctx.log("MincodeSelector.select", codes)
    ctx.op("MincodeSelector.select")
    pos, km = sel.select(w.seq(codes))
    pos = np.asarray(pos)
    ctx.check(pos.dtype != np.bool_ and np.issubdtype(pos.dtype, np.integer), "selector_returns_indices",
              "MincodeSelector.select returned positions %r (dtype %s), documented: sequence indices" % (pos.tolist(), pos.dtype))
    kmers = w.ka.decompose(codes)
    ctx.check(sorted(int(p) for p in pos) == [i for i, c in enumerate(kmers) if c < 4], "mincode_vs_definition", "positions differ")
    # documented pipeline: selection -> from_kmer_selection
    KmerTable.from_kmer_selection(w.kalph, [pos], [km])


def _probe_sort_key_max(ctx):
    """A sort key equal to INT64_MAX at the first position of a chunk (user-defined Permutation)."""
    w = _probe_world(ctx, 2, 3, None, None)
    keys = [5, 1, 9, I64MAX, 7, 8, 3, 2]
    perm = TablePermutation(keys)
    kmers = [1, 0, 2, 3, 4, 5]
    for window in (3, 2):
        ctx.log("minimizer", {"window": window, "keys": keys, "kmers": kmers})
        ctx.op("MinimizerSelector.select_from_kmers")
        pos, km = align.MinimizerSelector(w.kalph, window, perm).select_from_kmers(np.array(kmers, dtype=np.int64))
        compare_selection(ctx, "minimizer_vs_definition", pos, km, naive_minimizers([keys[c] for c in kmers], window), kmers,
                          "minimizers with sort key INT64_MAX")


PROBES = {
    "spaced_kmers_with_ignore_mask": _probe_spaced_mask,
    "bucket_lookup_code_ge_2_32": _probe_bucket_lookup,
    "negative_kmer_lookup": _probe_negative_lookup,
    "zero_buckets": _probe_zero_buckets,
    "from_kmers_short_mask": _probe_short_kmer_mask,
    "noncontiguous_ignore_mask": _probe_strided_mask,
    "mincode_positions_are_mask": _probe_mincode_mask,
    "sort_key_int64_max": _probe_sort_key_max,
}
