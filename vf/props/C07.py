"""C07  PDB files round-trip structures and never emit shifted columns.

Monitors: (1) an independent column checker (vf/models/c07_pdbspec.py, written from
the wwPDB format tables) on every ATOM/HETATM/CRYST1/CONECT record that
PDBFile.set_structure produces; (2) write -> text -> read round trip compared field
by field with format-derived tolerances; (3) "exceeds a column => refused" decided by
an independent fits-after-rounding model; (4) hybrid-36 encode/decode against an
independent reference, exhaustively at width 4 (and width 5 in thorough), under
ASan/UBSan.
"""

import importlib.util
import io
import math
import os
import warnings

import numpy as np

from vf.models import c07_gen as G
from vf.models import c07_pdbspec as S

ID = "C07"
FLAVOUR = "san"
LEVEL = "exploration"
THOROUGH_MULT = 2.5       # deepens the sampled strata of the thorough tier (measured: about ten minutes on 16 cores)
RULE = (
    "seeded generator of structure descriptions: 1-50 atoms in residues with unique (chain,res_id,ins_code) and unique "
    "atom names per residue (residues from a synthetic component dictionary or invented), 1-3 models, AtomArray or stack, "
    "optional atom_id/b_factor/occupancy/charge (float32/float64), box (cubic..triclinic, rotated, near-90, extreme aspect), "
    "bonds (template, hetero, inter-residue, hubs with >4 partners), hybrid36 on/off with ids up to the hybrid-36 maxima; "
    "stratum `limits` additionally puts 1-3 fields exactly on / next to a column limit (both sides: -999.9996/-999.9994, "
    "999.996/999.994, charge +-9/10, res_id -999/-1000/9999/10000, atom_id -9999/-10000/99999/100000, hybrid-36 maxima +-1, "
    "name lengths 0..limit+2, NaN/inf).  hybrid36_w4: every integer 0..2436111 (chunks of 4096); hybrid36_w5: every integer "
    "0..87440031 in thorough (chunks of 65536), boundary chunks + random chunks in quick; hybrid36_edge: negative, overflow, "
    "bad widths, malformed strings, widths 1-3 exhaustively.  A structure case is non-trivial when it carries at least one "
    "of: a value in the last representable unit of a column, an id beyond the decimal range, >1 model, a box, bonds, a "
    "4-character name or 2-letter element; distinct = distinct digest of the full description."
)
STRATA = {
    "roundtrip": (3600, 180000),
    "limits": (3000, 130000),
    "hybrid36_w4": (595, 595),
    "hybrid36_w5": (40, 1335),
    "hybrid36_edge": (300, 6000),
}
W4_CHUNK, W5_CHUNK = 4096, 65536
# functions that must leave their arguments untouched (vf.core.PurityMonitor; '!' = the object itself is watched too)
PURE = [
    "biotite.structure.io.pdb.file:PDBFile.set_structure",
    "biotite.structure.io.pdb.convert:set_structure",
]
REQUIRED_ORACLES = [
    "columns", "record_structure", "roundtrip_fields", "roundtrip_coord", "oversize_refused", "within_limits_accepted",
    "box_written", "box_roundtrip", "conect_records", "bonds_roundtrip",
    "hy36_encode_matches_reference", "hy36_decode_inverts_encode", "hy36_out_of_range_refused",
]
ANCHORS = [
    "biotite.structure.io.pdb.file:PDBFile.set_structure",
    "biotite.structure.io.pdb.file:PDBFile.get_structure",
    "biotite.structure.io.pdb.file:PDBFile.get_coord",
    "biotite.structure.io.pdb.file:PDBFile.get_model_count",
    "biotite.structure.io.pdb.file:PDBFile._index_models_and_atoms",
    "biotite.structure.io.pdb.file:PDBFile._get_atom_record_indices_for_model",
    "biotite.structure.io.pdb.file:PDBFile._get_model_length",
    "biotite.structure.io.pdb.file:PDBFile._get_bonds",
    "biotite.structure.io.pdb.file:PDBFile._set_bonds",
    "biotite.structure.io.pdb.file:_check_pdb_compatibility",
    "biotite.structure.io.util:number_of_integer_digits",
    "biotite.structure.io.pdb.convert:set_structure",
    "biotite.structure.io.pdb.convert:get_structure",
    "biotite.structure.box:unitcell_from_vectors",
    "biotite.structure.box:vectors_from_unitcell",
]
ASSUMPTIONS = [
    "ids beyond the decimal columns in plain mode (atom_id > 99999, res_id > 9999): biotite documents 'will be wrapped' with a warning; "
    "accepted as a declared decline when an error OR that warning is given; the wrapped field is then only format-checked, not compared",
    "hybrid36=True with a negative id: encode_hybrid36 documents 'positive integer' and raises ValueError; counted as a documented decline "
    "(the reference algorithm would write the decimal number)",
    "'bonds CONECT records can carry' = what set_structure documents: bonds touching a non-water hetero atom and bonds between different "
    "residues; bond types are not compared (CONECT has none); read-back pairs must equal carried pairs plus the pairs the (synthetic) "
    "component dictionary implies for the read residues (template bonds, C-N / O3'-P links of adjacent linking residues)",
    "hybrid-36 strings are compared without padding (the reference right-justifies; biotite leaves padding to the caller)",
    "decode_hybrid36 of strings that are not valid hybrid-36 words (mixed case, embedded blanks, '+12', '1_000', width > 5) is outside the "
    "statement; only 'no crash, ValueError/TypeError or an int' is required and acceptances are counted as observations",
    "empty element symbols are written but not compared after reading (biotite documents guessing them from the atom name)",
    "atom names/residue names/chain ids are printable ASCII without blanks; non-increasing atom ids together with include_bonds are "
    "declined by biotite with InvalidFileError (documented message) and counted as inconclusive",
    "box lengths < 10^5 A, angles 5..175 degrees; boxes are identical in all models (CRYST1 is a one-time record)",
    "atom ids above 4 000 000 are not combined with include_bonds (PDBFile._get_bonds allocates max_id+1 integers)",
]
MIN_CASES_PER_WORKER = 60
MANIFEST = {
    "technique": "independent fixed-column checker on every written record + write/read round trip with format-derived tolerances + "
                 "fits-after-rounding refusal model + exhaustive hybrid-36 differential against a reference implementation; ASan/UBSan "
                 "build of hybrid36.c/bonds.c; process-exit monitor",
    "level_text": "Runtime monitoring: thousands of generated structures whose values sit on the PDB column limits are written with the real "
                  "PDBFile.set_structure; every ATOM/HETATM/CRYST1/CONECT record is cut with column constants taken from the format "
                  "specification and compared with the input, the text is read back and compared field by field, inputs that cannot fit "
                  "must raise; encode_hybrid36/decode_hybrid36 (ASan+UBSan build) are compared with a reference for every integer at "
                  "width 4 (width 5 in the thorough tier).  Held-on-what-was-observed, not a proof.",
    "level_note": "Trusts the column table and hybrid-36 reference in vf/models/c07_pdbspec.py (audited in selftest against literal "
                  "records from the format documentation, the published hybrid-36 landmarks, a scalar implementation and the decimal "
                  "module), the synthetic component dictionary fixtures/ccd.py (validated against biotite's accessors at start-up), numpy. "
                  "Nothing is said about non-ASCII names, >50 atoms, altloc handling, TER/ANISOU/REMARK records.  Findings are "
                  "quarantined into probes (see known_findings.json).",
    "design_ref": "DESIGN.md section 6, C07",
}

struc = pdb = PDBFile = None
BadStructureError = InvalidFileError = None
enc = dec = maxhy = None
CCD = None
REFUSALS = ()

TRIGGERS = [
    "round_up_extra_column", "ins_code_width", "element_width", "negative_id_width", "empty_chain_id",
    "box_small_component", "bond_same_res_id_other_ins_code", "negative_atom_id_with_bonds", "hy36_beyond_int32",
]


def _load_ccd():
    path = os.path.join(os.path.dirname(os.path.dirname(os.path.dirname(os.path.abspath(__file__)))), "fixtures", "ccd.py")
    spec = importlib.util.spec_from_file_location("verif_fixture_ccd", path)
    mod = importlib.util.module_from_spec(spec)
    spec.loader.exec_module(mod)
    return mod


def setup(ctx):
    global struc, pdb, PDBFile, BadStructureError, InvalidFileError, enc, dec, maxhy, CCD, REFUSALS
    warnings.filterwarnings("ignore", message=".*chararray.*")
    warnings.filterwarnings("ignore", category=RuntimeWarning, message=".*invalid value encountered in cast.*")
    warnings.filterwarnings("ignore", message=".*elements were guessed from atom name.*")
    warnings.filterwarnings("ignore", message=".*Could not infer element.*")
    import biotite.structure as struc_
    import biotite.structure.io.pdb as pdb_
    from biotite.file import InvalidFileError as IFE
    from biotite.structure.io.pdb.hybrid36 import decode_hybrid36, encode_hybrid36, max_hybrid36_number
    struc, pdb, PDBFile = struc_, pdb_, pdb_.PDBFile
    BadStructureError, InvalidFileError = struc.BadStructureError, IFE
    enc, dec, maxhy = encode_hybrid36, decode_hybrid36, max_hybrid36_number
    REFUSALS = (BadStructureError, ValueError, OverflowError)
    CCD = _load_ccd()
    CCD.activate()
    CCD.validate()           # fixture audit before any case runs


# ====================================================================== model of the expectations
def is_water(res_name):
    return res_name in G.WATER


def predict(spec):
    """What the format allows for this spec.  Returns dict(refuse=[...], wrap=[...],
    decline=[...], classes=set(trigger classes present))."""
    refuse, wrap, decline, classes = [], [], [], set()
    hy = spec["hybrid36"]
    for a in spec["atoms"]:
        chain, res_id, ins, res_name, hetero, name, elem = a
        if len(chain) > 1:
            refuse.append("chain_id %r" % chain)
        if len(chain) == 0:
            classes.add("empty_chain_id")
        if len(res_name) > 3:
            refuse.append("res_name %r" % res_name)
        if len(name) > 4:
            refuse.append("atom_name %r" % name)
        if len(ins) > 1:
            refuse.append("ins_code %r" % ins)
            classes.add("ins_code_width")
        if len(elem) > 2:
            refuse.append("element %r" % elem)
            classes.add("element_width")
        c = S.id_class(res_id, 4, hy)
        if c == "too_wide":
            refuse.append("res_id %d" % res_id)
            classes.add("negative_id_width")
        elif c == "too_large":
            refuse.append("res_id %d" % res_id)
        elif c == "wrap":
            wrap.append("res_id")
        elif c == "neg_hybrid":
            decline.append("res_id %d in hybrid-36 mode" % res_id)
    if spec["atom_id"] is not None:
        for v in spec["atom_id"]:
            c = S.id_class(v, 5, hy)
            if c == "too_wide":
                refuse.append("atom_id %d" % v)
                classes.add("negative_id_width")
            elif c == "too_large":
                refuse.append("atom_id %d" % v)
            elif c == "wrap":
                wrap.append("atom_id")
            elif c == "neg_hybrid":
                decline.append("atom_id %d in hybrid-36 mode" % v)
    for model in spec["coord"]:
        for xyz in model:
            for v in xyz:
                if not S.fmt_fits(v, 3, 8):
                    refuse.append("coord %r" % v)
                    if S.round_edge(v, 3, 8):
                        classes.add("round_up_extra_column")
    for key in ("b_factor", "occupancy"):
        if spec[key] is not None:
            for v in spec[key]:
                if not S.fmt_fits(v, 2, 6):
                    refuse.append("%s %r" % (key, v))
                    if S.round_edge(v, 2, 6):
                        classes.add("round_up_extra_column")
    if spec["charge"] is not None:
        for v in spec["charge"]:
            if not -9 <= v <= 9:
                refuse.append("charge %d" % v)
    if spec["box"] is not None and G.small_component_box(spec["box"]):
        classes.add("box_small_component")
    if spec["bonds"]:
        at = spec["atoms"]
        seg = S.segment([a[0] for a in at], [a[1] for a in at], [a[2] for a in at], [a[3] for a in at])
        for i, j, _ in spec["bonds"]:
            if seg[i] != seg[j] and at[i][0] == at[j][0] and at[i][1] == at[j][1] \
                    and not ((at[i][4] and not is_water(at[i][3])) or (at[j][4] and not is_water(at[j][3]))):
                # different residues, same chain and number: told apart by the insertion code (finding
                # class) or not at all (ill-formed input produced by a limit mutation: never generated)
                classes.add("bond_same_res_id_other_ins_code" if at[i][2] != at[j][2] else "_illformed_residue_bond")
    if spec.get("read_bonds") and spec["atom_id"] is not None and min(spec["atom_id"]) < 0:
        classes.add("negative_atom_id_with_bonds")
    return {"refuse": refuse, "wrap": sorted(set(wrap)), "decline": decline, "classes": classes}


def quarantine(ctx, spec):
    """Remove the input classes of open known findings from a generated spec
    (repeated, because a replacement value can create another excluded class)."""
    for _ in range(4):
        if not _quarantine_once(ctx, spec):
            return
    raise RuntimeError("quarantine did not converge")


def _quarantine_once(ctx, spec):
    pr = predict(spec)
    todo = [c for c in pr["classes"] if c.startswith("_") or not ctx.allowed(c)]
    if not todo:
        return False
    for c in todo:
        ctx.note(("quarantined:" if not c.startswith("_") else "excluded:") + c)
    if "round_up_extra_column" in todo:
        for model in spec["coord"]:
            for xyz in model:
                for k in range(3):
                    if S.round_edge(xyz[k], 3, 8):
                        xyz[k] = G.f32(math.trunc(xyz[k] * 1000) / 1000)
                        if not S.fmt_fits(xyz[k], 3, 8):
                            xyz[k] = G.f32(math.trunc(xyz[k] * 100) / 100)
        for key in ("b_factor", "occupancy"):
            if spec[key] is not None:
                spec[key] = [(math.trunc(v * 10) / 10 if S.round_edge(v, 2, 6) else v) for v in spec[key]]
    used = {a[0] for a in spec["atoms"]}
    free = [c for c in G.CHAINCH if c not in used][0]      # keeps (chain,res_id,ins_code) unique per residue
    for a in spec["atoms"]:
        if "ins_code_width" in todo:
            a[2] = a[2][:1]
        if "element_width" in todo:
            a[6] = a[6][:2]
        if "negative_id_width" in todo and a[1] < -999:
            a[1] = -999
        if "empty_chain_id" in todo and a[0] == "":
            a[0] = free
    if "negative_id_width" in todo and spec["atom_id"] is not None:
        spec["atom_id"] = [max(v, -9999) for v in spec["atom_id"]]
    if "box_small_component" in todo:
        spec["box"] = None
    if spec["bonds"] and ("bond_same_res_id_other_ins_code" in todo or "_illformed_residue_bond" in todo):
        at = spec["atoms"]
        seg = S.segment([a[0] for a in at], [a[1] for a in at], [a[2] for a in at], [a[3] for a in at])

        def drop(b):
            i, j = b[0], b[1]
            if not (seg[i] != seg[j] and at[i][0] == at[j][0] and at[i][1] == at[j][1]):
                return False
            return ("bond_same_res_id_other_ins_code" in todo) if at[i][2] != at[j][2] else True
        spec["bonds"] = [b for b in spec["bonds"] if not drop(b)]
    if "negative_atom_id_with_bonds" in todo:
        spec["read_bonds"] = False
    return True


def carried_pairs(spec):
    at = spec["atoms"]
    seg = S.segment([a[0] for a in at], [a[1] for a in at], [a[2] for a in at], [a[3] for a in at])
    out = set()
    for i, j, _ in spec["bonds"] or []:
        het = (at[i][4] and not is_water(at[i][3])) or (at[j][4] and not is_water(at[j][3]))
        if het or seg[i] != seg[j]:
            out.add((min(i, j), max(i, j)))
    return out


def implied_pairs(chain, res_id, ins, res_name, atom_name):
    """Pairs the component dictionary implies for a read structure: template bonds
    inside each residue and the canonical link between adjacent linking residues."""
    seg = S.segment(chain, res_id, ins, res_name)
    res = {}
    for i, s in enumerate(seg):
        res.setdefault(s, []).append(i)
    out = set()
    for s, idx in res.items():
        for (a1, a2) in CCD.template_bonds(res_name[idx[0]]):
            for i in idx:
                if atom_name[i] == a1:
                    for j in idx:
                        if atom_name[j] == a2 and i != j:
                            out.add((min(i, j), max(i, j)))
    order = sorted(res)
    for s, t in zip(order[:-1], order[1:]):
        i0, j0 = res[s][0], res[t][0]
        if chain[i0] != chain[j0] or res_id[j0] - res_id[i0] > 1:
            continue
        ls, lt = CCD.link_class(res_name[i0]), CCD.link_class(res_name[j0])
        if ls is None or ls != lt:
            continue
        n1, n2 = ("C", "N") if ls == "peptide" else ("O3'", "P")
        c1 = [i for i in res[s] if atom_name[i] == n1]
        c2 = [j for j in res[t] if atom_name[j] == n2]
        if c1 and c2:
            out.add((min(c1[0], c2[0]), max(c1[0], c2[0])))
    return out


# ====================================================================== building and executing
def build_array(spec):
    at = spec["atoms"]
    n, m = len(at), len(spec["coord"])
    if spec["stack"]:
        arr = struc.AtomArrayStack(m, n)
        arr.coord = np.array(spec["coord"], dtype=np.float32)
    else:
        arr = struc.AtomArray(n)
        arr.coord = np.array(spec["coord"][0], dtype=np.float32)
    col = lambda k: [a[k] for a in at]
    arr.set_annotation("chain_id", np.array(col(0), dtype=str))
    arr.set_annotation("res_id", np.array(col(1), dtype=np.int64))
    arr.set_annotation("ins_code", np.array(col(2), dtype=str))
    arr.set_annotation("res_name", np.array(col(3), dtype=str))
    arr.set_annotation("hetero", np.array(col(4), dtype=bool))
    arr.set_annotation("atom_name", np.array(col(5), dtype=str))
    arr.set_annotation("element", np.array(col(6), dtype=str))
    if spec["atom_id"] is not None:
        arr.set_annotation("atom_id", np.array(spec["atom_id"], dtype=np.int64))
    for key in ("b_factor", "occupancy"):
        if spec[key] is not None:
            arr.set_annotation(key, np.array(spec[key], dtype=spec["fdtype"]))
    if spec["charge"] is not None:
        arr.set_annotation("charge", np.array(spec["charge"], dtype=np.int64))
    if spec["box"] is not None:
        b = np.array(spec["box"], dtype=np.float32)
        arr.box = np.repeat(b[None], m, axis=0) if spec["stack"] else b
    if spec["bonds"] is not None:
        arr.bonds = struc.BondList(n, np.array(spec["bonds"], dtype=np.int64).reshape(-1, 3))
    return arr


def expected_serials(spec, wraps):
    n = len(spec["atoms"])
    ids = spec["atom_id"] if spec["atom_id"] is not None else list(range(1, n + 1))
    if "atom_id" in wraps:
        return [None if v >= 100000 else v for v in ids]
    return list(ids)


def check_lines(ctx, spec, lines, wraps):
    """Column checker + record structure + CRYST1 + CONECT on the written lines."""
    at = spec["atoms"]
    n, m, hy = len(at), len(spec["coord"]), spec["hybrid36"]
    serials = expected_serials(spec, wraps)
    pos = 0
    if spec["box"] is not None:
        ctx.oracle("box_written")
        if not lines or not lines[0].startswith("CRYST1"):
            ctx.fail("box_written", "no CRYST1 record at the top", first=lines[:1])
        try:
            got = S.parse_cryst1(lines[0])
        except ValueError as e:
            ctx.fail("box_written", str(e))
        exp = S.vectors_to_cell(spec["box"])
        for k in range(3):
            tol = 0.0005 + 3 * float(np.spacing(np.float32(exp[k])))
            if abs(got[k] - exp[k]) > tol:
                ctx.fail("box_written", "CRYST1 length %d written %r, cell of the input box %.6f" % (k, got[k], exp[k]), line=lines[0])
        for k in range(3, 6):
            if abs(got[k] - exp[k]) > 0.005 + 0.0005:
                ctx.fail("box_written", "CRYST1 angle %d written %r, cell of the input box %.6f" % (k - 3, got[k], exp[k]), line=lines[0])
        pos = 1
    ctx.oracle("record_structure")
    for model in range(m):
        if m > 1:
            if pos >= len(lines) or not lines[pos].startswith("MODEL ") or lines[pos][10:14].strip() != str(model + 1) \
                    or lines[pos][14:].strip():
                ctx.fail("record_structure", "MODEL record %d missing or malformed" % (model + 1), line=lines[pos:pos + 1])
            pos += 1
        for i in range(n):
            if pos >= len(lines):
                ctx.fail("record_structure", "file ends after %d of %d atom records of model %d" % (i, n, model + 1))
            line = lines[pos]
            a = at[i]
            exp = {
                "hetero": a[4], "serial": serials[i], "atom_name": a[5], "element": a[6], "res_name": a[3],
                "chain": a[0], "res_id": (None if ("res_id" in wraps and a[1] > 9999) else a[1]), "ins": a[2],
                "xyz": spec["coord"][model][i],
                "occ": 1.0 if spec["occupancy"] is None else spec["occupancy"][i],
                "temp": 0.0 if spec["b_factor"] is None else spec["b_factor"][i],
                "charge": 0 if spec["charge"] is None else spec["charge"][i],
            }
            ctx.oracle("columns")
            problem = S.check_atom_line(line, exp, hy)
            if problem:
                ctx.fail("columns", "model %d atom %d: %s" % (model + 1, i, problem), line=line, expected=exp)
            pos += 1
        if m > 1:
            if pos >= len(lines) or lines[pos].strip() != "ENDMDL":
                ctx.fail("record_structure", "ENDMDL missing after model %d" % (model + 1), line=lines[pos:pos + 1])
            pos += 1
    rest = lines[pos:]
    for line in rest:
        if not line.startswith("CONECT"):
            ctx.fail("record_structure", "unexpected record after the coordinate section", line=line)
    if rest and spec["bonds"] is None:
        ctx.fail("record_structure", "CONECT records written for a structure without bonds", line=rest[0])
    if spec["bonds"] is not None and None not in serials and len(set(serials)) == n:
        ctx.oracle("conect_records")
        index = {s: i for i, s in enumerate(serials)}
        try:
            raw = S.parse_conect(rest, hy)
            pairs = set()
            for c, b in raw:
                i, j = index[c], index[b]
                pairs.add((min(i, j), max(i, j)))
        except (ValueError, KeyError) as e:
            ctx.fail("conect_records", "CONECT records do not parse by columns: %r" % (e,), lines=rest[:6])
        exp = carried_pairs(spec)
        if pairs != exp:
            ctx.fail("conect_records", "CONECT records carry %s, documented rule gives %s (missing %s, extra %s)"
                     % (sorted(pairs), sorted(exp), sorted(exp - pairs), sorted(pairs - exp)), lines=rest[:8])
        for (i, j) in exp:               # both directions present
            if (serials[i], serials[j]) not in raw or (serials[j], serials[i]) not in raw:
                ctx.fail("conect_records", "bond %d-%d is not listed from both atoms" % (i, j), lines=rest[:8])


def compare_read(ctx, spec, got, wraps, model=None, with_bonds=False, fields=()):
    """Field-wise comparison of a read-back structure (stack, or AtomArray of `model`)."""
    at = spec["atoms"]
    n, m = len(at), len(spec["coord"])
    ctx.oracle("roundtrip_fields")
    if not with_bonds and got.bonds is not None:
        ctx.fail("roundtrip_fields", "a BondList was attached although bonds were not requested (include_bonds defaults to False)")
    if model is None:
        if not isinstance(got, struc.AtomArrayStack) or got.stack_depth() != m or got.array_length() != n:
            ctx.fail("roundtrip_fields", "read %s depth/length %s, written %d models x %d atoms"
                     % (type(got).__name__, getattr(got, "shape", None), m, n))
    else:
        if not isinstance(got, struc.AtomArray) or got.array_length() != n:
            ctx.fail("roundtrip_fields", "read model %d: %s of length %s, expected AtomArray of %d"
                     % (model, type(got).__name__, getattr(got, "shape", None), n))
    names = (("chain_id", 0), ("res_id", 1), ("ins_code", 2), ("res_name", 3), ("hetero", 4), ("atom_name", 5), ("element", 6))
    for key, k in names:
        arr = getattr(got, key).tolist()
        for i in range(n):
            want = at[i][k]
            if key == "res_id" and "res_id" in wraps and want > 9999:
                continue
            if key == "element" and want == "":
                continue
            if arr[i] != want:
                ctx.fail("roundtrip_fields", "%s of atom %d read back as %r, written %r" % (key, i, arr[i], want))
    if "atom_id" in fields:
        serials = expected_serials(spec, wraps)
        arr = got.atom_id.tolist()
        for i in range(n):
            if serials[i] is not None and arr[i] != serials[i]:
                ctx.fail("roundtrip_fields", "atom_id of atom %d read back as %r, written %r" % (i, arr[i], serials[i]))
    for key, default in (("b_factor", 0.0), ("occupancy", 1.0)):
        if key in fields:
            arr = getattr(got, key).tolist()
            for i in range(n):
                want = default if spec[key] is None else float(spec[key][i])
                if not abs(arr[i] - want) <= 0.005 * (1 + 1e-9) + 1e-9:
                    ctx.fail("roundtrip_fields", "%s of atom %d read back as %r, written %r (tolerance 0.005)" % (key, i, arr[i], want))
    if "charge" in fields:
        arr = got.charge.tolist()
        for i in range(n):
            want = 0 if spec["charge"] is None else spec["charge"][i]
            if arr[i] != want:
                ctx.fail("roundtrip_fields", "charge of atom %d read back as %r, written %r" % (i, arr[i], want))
    ctx.oracle("roundtrip_coord")
    c = np.asarray(got.coord, dtype=np.float64)
    want = np.array(spec["coord"] if model is None else spec["coord"][model], dtype=np.float64)
    if c.shape != want.shape or c.dtype != np.float64 or got.coord.dtype != np.float32:
        ctx.fail("roundtrip_coord", "coord shape/dtype %s %s, expected %s float32" % (c.shape, got.coord.dtype, want.shape))
    d = np.abs(c - want)
    if not (d <= 0.001).all():
        w = tuple(int(x) for x in np.unravel_index(int(np.nanargmax(np.where(np.isnan(d), np.inf, d))), d.shape))
        ctx.fail("roundtrip_coord", "coordinate %s read back as %r, written %r (tolerance 0.001)" % (w, float(c[w]), float(want[w])))
    # box
    if spec["box"] is None:
        if got.box is not None:
            ctx.fail("box_roundtrip", "a box was read although none was written")
    else:
        ctx.oracle("box_roundtrip")
        if got.box is None:
            ctx.fail("box_roundtrip", "box lost")
        boxes = got.box if model is None else got.box[None]
        if boxes.shape != ((m if model is None else 1), 3, 3):
            ctx.fail("box_roundtrip", "box shape %s" % (boxes.shape,))
        exp = S.vectors_to_cell(spec["box"])
        for b in boxes:
            if not np.isfinite(b).all() or abs(np.linalg.det(b.astype(np.float64))) == 0:
                ctx.fail("box_roundtrip", "degenerate box read back: %s, written cell %s" % (b.tolist(), exp))
            cell = S.vectors_to_cell(b)
            for k in range(3):
                tol = 0.0005 + 6 * float(np.spacing(np.float32(exp[k])))
                if abs(cell[k] - exp[k]) > tol:
                    ctx.fail("box_roundtrip", "cell length %d read back %.6f, written %.6f (tolerance %.5f)" % (k, cell[k], exp[k], tol),
                             box=b.tolist())
            for k in range(3, 6):
                if abs(cell[k] - exp[k]) > 0.005 + 0.001:
                    ctx.fail("box_roundtrip", "cell angle %d read back %.5f, written %.5f (CRYST1 precision 0.005)" % (k - 3, cell[k], exp[k]),
                             box=b.tolist(), written_cell=list(exp))
    if with_bonds:
        ctx.oracle("bonds_roundtrip")
        if got.bonds is None:
            ctx.fail("bonds_roundtrip", "include_bonds=True returned no BondList")
        pairs = {(min(int(i), int(j)), max(int(i), int(j))) for i, j, _ in got.bonds.as_array()}
        carried = carried_pairs(spec)
        implied = implied_pairs(got.chain_id.tolist(), got.res_id.tolist(), got.ins_code.tolist(),
                                got.res_name.tolist(), got.atom_name.tolist())
        if pairs != carried | implied:
            ctx.fail("bonds_roundtrip", "bonds read back %s; carried by CONECT %s + implied by components %s: missing %s, extra %s"
                     % (sorted(pairs), sorted(carried), sorted(implied - carried),
                        sorted((carried | implied) - pairs), sorted(pairs - (carried | implied))))


def execute(ctx, spec):
    """Write, check every record, read back, compare.  The whole C07 oracle for one spec."""
    ctx.log(spec)
    pr = predict(spec)
    arr = build_array(spec)
    f = PDBFile()
    if ctx.index % 3 == 0:
        # the file object has been used before: a 2-model, 3-atom structure with a box (CRYST1, MODEL, ATOM, CONECT-free);
        # set_structure() replaces the content, nothing of the earlier structure may survive
        old = struc.AtomArrayStack(2, 3)
        old.coord = np.arange(18, dtype=np.float32).reshape(2, 3, 3)
        old.chain_id[:], old.res_id[:], old.res_name[:] = "Q", 901, "OLD"
        old.atom_name[:], old.element[:] = "XX", "X"
        old.box = np.array([np.eye(3) * 77.0] * 2, dtype=np.float32)
        f.set_structure(old)
        # ... and read: every reader call on the earlier content (models, coordinates, a structure)
        f.get_model_count()
        f.get_coord(model=2)
        f.get_structure(model=1)
        f.get_b_factor()
        ctx.op("file_object_reused")
    hy = spec["hybrid36"]
    ctx.op("set_structure:%s%s" % ("stack" if spec["stack"] else "array", "+hybrid36" if hy else ""))
    raised = None
    before = arr.copy()
    with warnings.catch_warnings(record=True) as wlist:
        warnings.simplefilter("always")
        try:
            kw_w = {} if (not hy and ctx.index % 2 == 0) else {"hybrid36": hy}      # the documented default is hybrid36=False
            if spec.get("via") == "convert":
                pdb.set_structure(f, arr, **kw_w)
            else:
                f.set_structure(arr, **kw_w)
        except REFUSALS as e:
            raised = e
    # writing must not change the caller's structure (it may be written again, e.g. with hybrid36=True)
    ctx.oracle("input_untouched")
    for cat in before.get_annotation_categories():
        a, b = before.get_annotation(cat), arr.get_annotation(cat)
        same = np.array_equal(a, b, equal_nan=True) if a.dtype.kind == "f" else np.array_equal(a, b)
        if not same:
            k = int(np.argmax(a != b))
            ctx.fail("input_untouched", "set_structure changed annotation %r of the caller's structure: element %d was %r, is %r"
                     % (cat, k, a[k].item() if hasattr(a[k], "item") else a[k], b[k].item() if hasattr(b[k], "item") else b[k]))
    if not np.array_equal(before.coord, arr.coord, equal_nan=True) or (before.box is None) != (arr.box is None) \
            or (before.box is not None and not np.array_equal(before.box, arr.box, equal_nan=True)) or before.bonds != arr.bonds:
        ctx.fail("input_untouched", "set_structure changed coord/box/bonds of the caller's structure")
    warned = any("wrapped" in str(w.message) for w in wlist)
    if raised is not None:
        ctx.exc(raised)
        for line in f.lines:
            if line.startswith(("ATOM", "HETATM")) and S.generic_atom_line_problem(line, hy):
                ctx.fail("oversize_refused", "an error was raised but a malformed record stays in the file", line=line)
        if pr["refuse"]:
            ctx.oracle("oversize_refused")
            ctx.mark_nontrivial()
            return "refused"
        if pr["wrap"]:
            ctx.oracle("oversize_refused")
            ctx.note("beyond_decimal_columns_refused")
            return "refused"
        if pr["decline"]:
            ctx.note("hybrid36_negative_id_declined")
            ctx.inconclusive("documented decline: negative id with hybrid36=True")
        ctx.oracle("within_limits_accepted")
        ctx.fail("within_limits_accepted", "structure within the format limits refused: %s: %s" % (type(raised).__name__, raised))
    lines = list(f.lines)
    if pr["refuse"]:
        ctx.oracle("oversize_refused")
        bad = [l for l in lines if l.startswith(("ATOM", "HETATM")) and S.generic_atom_line_problem(l, hy)]
        ctx.fail("oversize_refused", "input exceeding a column was written without an error (%s)" % "; ".join(pr["refuse"][:4]),
                 malformed_records=bad[:3], first_records=lines[:2])
    if pr["wrap"]:
        ctx.oracle("oversize_refused")
        if not warned:
            ctx.fail("oversize_refused", "%s beyond the decimal columns written without error or warning" % pr["wrap"])
        ctx.note("beyond_decimal_columns_wrapped_with_warning")
    ctx.oracle("within_limits_accepted")
    wraps = set(pr["wrap"])
    check_lines(ctx, spec, lines, wraps)
    # ---- text round trip
    g = None
    if ctx.index % 4 == 1:
        from vf.core import through_disk
        g, text = through_disk(ctx, f, PDBFile, False, ".pdb", as_pathlib=ctx.index % 8 == 1)
    else:
        buf = io.StringIO()
        f.write(buf)
        text = buf.getvalue()
    ctx.op("write")
    if text != "\n".join(lines) + "\n":
        ctx.fail("record_structure", "written text is not the line list joined by newlines")
    if g is None:
        g = PDBFile.read(io.StringIO(text))
    ctx.op("read")
    fields = [k for k in ("atom_id", "b_factor", "occupancy", "charge")
              if spec[k] is not None or k == "atom_id" or (len(spec["atoms"]) + len(text)) % 3 == 0]
    n, m = len(spec["atoms"]), len(spec["coord"])
    serials = expected_serials(spec, wraps)
    want_bonds = bool(spec.get("read_bonds")) and None not in serials and len(set(serials)) == n
    increasing = all(a < b for a, b in zip(serials[:-1], serials[1:])) if None not in serials else False
    ctx.oracle("record_structure")
    if g.get_model_count() != m:
        ctx.fail("record_structure", "get_model_count() = %d, written %d" % (g.get_model_count(), m))

    def read(src, **kw):
        ctx.op("get_structure:" + ",".join("%s" % k for k in sorted(kw) if kw[k] not in (None, False, [])))
        if ctx.index % 2 == 0:
            # keyword arguments that equal the documented defaults are left out (model=None, extra_fields=[], include_bonds=False)
            kw = {a: v for a, v in kw.items() if not ((a == "include_bonds" and v is False) or (a == "extra_fields" and v == []) or (a == "model" and v is None))}
        try:
            if spec.get("via") == "convert":
                return pdb.get_structure(src, **kw)
            return src.get_structure(**kw)
        except InvalidFileError as e:
            ctx.exc(e)
            if kw.get("include_bonds") and not increasing and "increasing" in str(e):
                ctx.inconclusive("documented decline: atom ids not increasing with include_bonds")
            raise
    st = read(g, extra_fields=fields, include_bonds=want_bonds)
    compare_read(ctx, spec, st, wraps, None, want_bonds, fields)
    k = int((len(text) + n) % m) + 1
    if (len(text) + n) % 2:
        k = k - m - 1                      # negative model index
    one = read(g, model=k, extra_fields=fields, include_bonds=want_bonds)
    compare_read(ctx, spec, one, wraps, (k - 1) if k > 0 else (m + k), want_bonds, fields)
    # direct read from the object that was written (no text in between)
    direct = read(f, extra_fields=fields)
    compare_read(ctx, spec, direct, wraps, None, False, fields)
    ctx.op("get_coord")
    gc = g.get_coord()
    if gc.shape != (m, n, 3) or not np.array_equal(gc, st.coord):
        ctx.fail("roundtrip_coord", "get_coord() differs from get_structure().coord")
    ctx.op("get_coord(model)")
    gck = g.get_coord(model=k)
    if gck.shape != (n, 3) or not np.array_equal(gck, one.coord):
        ctx.fail("roundtrip_coord", "get_coord(model=%d) differs from get_structure(model=%d).coord" % (k, k))
    if "b_factor" in fields:
        gb = g.get_b_factor(model=1)
        if gb.shape != (n,) or not np.allclose(gb, st.b_factor, atol=1e-4):
            ctx.fail("roundtrip_fields", "get_b_factor(model=1) differs from the b_factor annotation")
        gba = g.get_b_factor()
        if gba.shape != (m, n) or not np.allclose(gba[0], st.b_factor, atol=1e-4):
            ctx.fail("roundtrip_fields", "get_b_factor() is not the (models, atoms) table of the written B-factors")
    return "written"


# ====================================================================== strata
def nontrivial_features(spec, pr):
    ft = set()
    if len(spec["coord"]) > 1:
        ft.add("models")
    if spec["box"] is not None:
        ft.add("box")
    if spec["bonds"]:
        ft.add("bonds")
    if spec["hybrid36"] and (max(a[1] for a in spec["atoms"]) > 9999 or (spec["atom_id"] and max(spec["atom_id"]) > 99999)):
        ft.add("hybrid_ids")
    if any(len(a[5]) == 4 for a in spec["atoms"]):
        ft.add("name4")
    if any(len(a[6]) == 2 for a in spec["atoms"]):
        ft.add("elem2")
    if any(a[0] == "" for a in spec["atoms"]):
        ft.add("empty_chain")
    if pr["refuse"]:
        ft.add("refuse")
    if pr["wrap"]:
        ft.add("wrap")
    for model in spec["coord"]:
        for xyz in model:
            for v in xyz:
                if S.finite(v) and (v <= -999.99 or v >= 9999.99):
                    ft.add("coord_edge")
    for key in ("b_factor", "occupancy"):
        for v in spec[key] or []:
            if S.finite(v) and (v <= -99.9 or v >= 999.9):
                ft.add("real2_edge")
    return ft


def case_many_models(rng, ctx):
    """A stack with more models than 8 bits count (NMR ensemble / trajectory): every model returns with its own coordinates."""
    import biotite.structure as struc
    import biotite.structure.io.pdb as pdbmod
    m = int(rng.choice([255, 256, 257, 300]))
    n = int(rng.integers(1, 4))
    st = struc.AtomArrayStack(m, n)
    st.coord = (rng.integers(-7000, 7000, size=(m, n, 3)) / 8.0).astype(np.float32)        # exact in %8.3f
    st.chain_id[:] = "A"
    st.res_id = np.arange(1, n + 1)
    st.res_name[:] = "GLY"
    st.atom_name[:] = "CA"
    st.element[:] = "C"
    ctx.log({"many_models": m, "atoms": n})
    ctx.op("many_models")
    ctx.mark_nontrivial()
    ctx.state(("many_models", m, n))
    f = pdbmod.PDBFile()
    f.set_structure(st)
    buf = io.StringIO()
    f.write(buf)
    g = pdbmod.PDBFile.read(io.StringIO(buf.getvalue()))
    ctx.oracle("roundtrip_fields")
    if g.get_model_count() != m:
        ctx.fail("roundtrip_fields", "get_model_count() = %r for a stack of %d models" % (g.get_model_count(), m))
    got = g.get_structure()
    if not isinstance(got, struc.AtomArrayStack) or got.coord.shape != st.coord.shape or not np.array_equal(got.coord, st.coord):
        bad = None
        if getattr(got, "coord", None) is not None and got.coord.shape == st.coord.shape:
            bad = int(np.nonzero((got.coord != st.coord).any(axis=(1, 2)))[0][0]) + 1
        ctx.fail("roundtrip_fields", "a stack of %d models x %d atoms is read back with another shape or other coordinates (first differing model: %s)"
                 % (m, n, bad))
    gc = g.get_coord()
    if gc.shape != st.coord.shape or not np.array_equal(gc, st.coord):
        ctx.fail("roundtrip_fields", "get_coord() of %d models differs from the coordinates written" % m)
    for k_ in sorted({1, min(m, 256), m, int(rng.integers(1, m + 1))}):
        one = g.get_structure(model=k_)
        if not np.array_equal(one.coord, st.coord[k_ - 1]):
            ctx.fail("roundtrip_fields", "get_structure(model=%d) of %d models returns other coordinates than model %d" % (k_, m, k_))


def run_case(stratum, rng, ctx):
    if stratum == "hybrid36_w4":
        return case_hy_exhaustive(ctx, 4, W4_CHUNK, ctx.index)
    if stratum == "hybrid36_w5":
        nchunks = -(-(S.hy_max(5) + 1) // W5_CHUNK)
        if ctx.tier == "thorough":
            chunk = ctx.index
        else:
            fixed = [0, 1, (100000 + 26 * 36 ** 4) // W5_CHUNK, nchunks - 1, 43770015 // W5_CHUNK]
            chunk = fixed[ctx.index] if ctx.index < len(fixed) else int(rng.integers(nchunks))
        return case_hy_exhaustive(ctx, 5, W5_CHUNK, chunk)
    if stratum == "hybrid36_edge":
        return case_hy_edge(ctx, rng)
    if stratum == "roundtrip" and ctx.index % 300 == 299:
        return case_many_models(rng, ctx)
    spec = G.gen_spec(rng, CCD, ctx.tier)
    if stratum == "limits":
        spec["mutations"] = G.mutate_limits(rng, spec)
    quarantine(ctx, spec)
    pr = predict(spec)
    ft = nontrivial_features(spec, pr)
    ctx.mark_nontrivial(bool(ft))
    ctx.state((stratum, len(spec["coord"]), spec["stack"], spec["hybrid36"], sorted(ft), bool(pr["refuse"]),
               [k for k in ("atom_id", "b_factor", "occupancy", "charge") if spec[k] is not None]))
    outcome = execute(ctx, spec)
    ctx.op("outcome:" + outcome)


# ---------------------------------------------------------------------- hybrid-36
def case_hy_exhaustive(ctx, width, chunk, index):
    a = index * chunk
    b = min(a + chunk, S.hy_max(width) + 1)
    ctx.log({"width": width, "range": [a, b]})
    if a >= b:
        return
    ctx.mark_nontrivial()
    ctx.op("encode_hybrid36", b - a)
    ref = S.ref_encode_range(width, a, b)
    got = [enc(i, width) for i in range(a, b)]
    ctx.oracle("hy36_encode_matches_reference", b - a)
    ga = np.array(got)
    if ga.shape != ref.shape or ga.dtype.kind != "U" or not np.array_equal(ga, ref):
        for k, (x, y) in enumerate(zip(got, ref.tolist())):
            if x != y:
                ctx.fail("hy36_encode_matches_reference", "encode_hybrid36(%d, %d) = %r, reference %r" % (a + k, width, x, y))
        ctx.fail("hy36_encode_matches_reference", "result array differs in shape/type")
    ctx.op("decode_hybrid36", b - a)
    ctx.oracle("hy36_decode_inverts_encode", b - a)
    back = [dec(s) for s in got]
    if back != list(range(a, b)):
        for k, v in enumerate(back):
            if v != a + k or type(v) is not int:
                ctx.fail("hy36_decode_inverts_encode", "decode_hybrid36(%r) = %r, expected %d" % (got[k], v, a + k))
    if a < 10 ** width:                       # right-justified form as it stands in a file
        hi = min(b, 10 ** width)
        pad = [dec(s.rjust(width)) for s in got[: hi - a]]
        ctx.oracle("hy36_decode_inverts_encode", hi - a)
        if pad != list(range(a, hi)):
            ctx.fail("hy36_decode_inverts_encode", "decode_hybrid36 of a right-justified decimal field differs in %d..%d" % (a, hi))
    ctx.state((width, "chunk", a // chunk))


def expect_hy_refused(ctx, what, fn, value_ok=None):
    ctx.oracle("hy36_out_of_range_refused")
    try:
        res = fn()
    except (ValueError, OverflowError) as e:
        ctx.exc(e)
        return
    if value_ok is not None and value_ok(res):
        ctx.note("hy36_negative_encoded_as_decimal")
        return
    ctx.fail("hy36_out_of_range_refused", "%s returned %r instead of raising" % (what, res))


def case_hy_edge(ctx, rng):
    kind = G.pick(rng, ["negative", "overflow", "bad_width", "malformed", "malformed", "small_widths", "numpy_int", "max", "width6"])
    if kind == "width6" and not ctx.allowed("hy36_beyond_int32"):
        kind = "numpy_int"
    ctx.op("hy_edge:" + kind)
    ctx.mark_nontrivial()
    w = int(G.pick(rng, [4, 5]))
    if kind == "negative":
        v = -int(G.pick(rng, [1, 2, 9, 99, 999, 1000, 9999, 10000, 2 ** 31 - 1, 2 ** 31, 2 ** 31 + 1, 2 ** 40]))
        ctx.log({"encode": [v, w]})
        expect_hy_refused(ctx, "encode_hybrid36(%d, %d)" % (v, w), lambda: enc(v, w),
                          lambda s: isinstance(s, str) and len(s) <= w and S.ref_decode(w, s) == v)
    elif kind == "overflow":
        v = S.hy_max(w) + int(G.pick(rng, [1, 2, 36, 1000, 10 ** 6, 2 ** 31 - 1 - S.hy_max(w), 2 ** 31 - S.hy_max(w), 2 ** 33]))
        ctx.log({"encode": [v, w]})
        expect_hy_refused(ctx, "encode_hybrid36(%d, %d)" % (v, w), lambda: enc(v, w))
    elif kind == "width6":
        v = int(G.pick(rng, [0, 999999, 10 ** 6, 10 ** 6 + 36 ** 5, 1542821887 + 10 ** 6, 1542821888 + 10 ** 6, 2 ** 31 - 1, 2 ** 31,
                             S.hy_max(6), S.hy_max(6) + 1])) - int(rng.integers(0, 3))
        ctx.log({"encode": [v, 6]})
        hy_wide_encode(ctx, v, 6)
    elif kind == "bad_width":
        v, bw = int(rng.integers(0, 5000)), int(G.pick(rng, [0, -1, -5]))
        ctx.log({"encode": [v, bw]})
        expect_hy_refused(ctx, "encode_hybrid36(%d, %d)" % (v, bw), lambda: enc(v, bw))
    elif kind == "max":
        ctx.log({"max_hybrid36_number": w})
        ctx.check(maxhy(w) == S.hy_max(w), "hy36_encode_matches_reference", "max_hybrid36_number(%d) = %r, reference %d" % (w, maxhy(w), S.hy_max(w)))
        ctx.check(enc(maxhy(w), w) == "z" * w and dec("z" * w) == S.hy_max(w), "hy36_decode_inverts_encode", "maximum does not map to 'z'*w")
    elif kind == "numpy_int":
        v = int(rng.integers(0, S.hy_max(w) + 1))
        dt = G.pick(rng, ["int32", "int64", "uint32", "uint64"])
        ctx.log({"encode": [v, w], "dtype": dt})
        s = enc(np.dtype(dt).type(v), w)
        ctx.check(s == S.ref_encode(w, v), "hy36_encode_matches_reference", "encode_hybrid36(%s(%d), %d) = %r, reference %r" % (dt, v, w, s, S.ref_encode(w, v)))
        ctx.check(dec(s) == v and dec(s.rjust(w + 2)) == v and dec(s + "  ") == v, "hy36_decode_inverts_encode", "decode of %r (padded) != %d" % (s, v))
    elif kind == "small_widths":
        sw = int(G.pick(rng, [1, 2, 3]))
        ctx.log({"width": sw, "range": [0, S.hy_max(sw) + 1]})
        ref = S.ref_encode_range(sw, 0, S.hy_max(sw) + 1).tolist()
        got = [enc(i, sw) for i in range(S.hy_max(sw) + 1)]
        ctx.oracle("hy36_encode_matches_reference", len(ref))
        ctx.oracle("hy36_decode_inverts_encode", len(ref))
        for i, (x, y) in enumerate(zip(got, ref)):
            if x != y:
                ctx.fail("hy36_encode_matches_reference", "encode_hybrid36(%d, %d) = %r, reference %r" % (i, sw, x, y))
            if dec(x) != i:
                ctx.fail("hy36_decode_inverts_encode", "decode_hybrid36(%r) = %r, expected %d" % (x, dec(x), i))
        expect_hy_refused(ctx, "encode_hybrid36(max+1, %d)" % sw, lambda: enc(S.hy_max(sw) + 1, sw))
    else:
        base = S.ref_encode(w, int(rng.integers(10 ** w, S.hy_max(w) + 1)))
        pos = int(rng.integers(w))
        mut = G.pick(rng, ["case", "dash", "blank", "dot", "plus", "nonascii", "empty", "blanks", "digit_first", "underscore",
                           "fullwidth", "nul", "nonstr", "long"])
        if mut == "long":
            if not ctx.allowed("hy36_beyond_int32"):
                mut = "case"
            else:
                s = base + base[: int(rng.integers(1, w + 1))]
                ctx.log({"decode": s})
                return hy_wide_decode(ctx, s)
        if mut == "case":
            c = base[pos].swapcase() if base[pos].isalpha() else ("a" if base[0].isupper() else "A")
            s = base[:pos] + c + base[pos + 1:] if pos else base[:1] + c + base[2:]
        elif mut in ("dash", "blank", "dot", "nul"):
            ch = {"dash": "-", "blank": " ", "dot": ".", "nul": "\x00"}[mut]
            p = max(pos, 1)
            s = base[:p] + ch + base[p + 1:]
        elif mut == "plus":
            s = "+" + base[1:]
        elif mut == "nonascii":
            s = base[:pos] + "Ä" + base[pos + 1:]
        elif mut == "empty":
            s = ""
        elif mut == "blanks":
            s = " " * w
        elif mut == "digit_first":
            s = "7" + base[1:-1] + "Q"
        elif mut == "underscore":
            s = "1_0" + "0" * (w - 3)
        elif mut == "fullwidth":
            s = "１２３４"[:w]
        else:
            s = G.pick(rng, [None, b"A000", 12, 1.5])
        ctx.log({"decode": s})
        ctx.oracle("hy36_malformed_no_crash")
        try:
            res = dec(s)
        except (ValueError, TypeError) as e:
            ctx.exc(e)
        else:
            if not isinstance(res, int):
                ctx.fail("hy36_malformed_no_crash", "decode_hybrid36(%r) returned %r" % (s, res))
            try:
                S.ref_decode(w, s)
                ctx.note("hy36_mutated_string_still_valid")
            except (ValueError, TypeError, AttributeError):
                ctx.note("hy36_malformed_accepted:" + mut)


def hy_wide_encode(ctx, v, width):
    """Width beyond 5 (outside the statement's quantifier, same code path): the result must be
    the reference word or an error - never a different word."""
    ctx.oracle("hy36_wide_matches_reference_or_raises")
    try:
        s = enc(v, width)
    except (ValueError, OverflowError) as e:
        ctx.exc(e)
        return
    try:
        want = S.ref_encode(width, v)
    except ValueError:
        want = None
    if s != want:
        ctx.fail("hy36_wide_matches_reference_or_raises", "encode_hybrid36(%d, %d) = %r, reference %r" % (v, width, s, want))


def hy_wide_decode(ctx, s):
    """A pure base-36 word longer than 5 characters: the value of the reference for that
    width, or an error - never a silently wrapped number."""
    ctx.oracle("hy36_wide_matches_reference_or_raises")
    try:
        v = dec(s)
    except (ValueError, OverflowError) as e:
        ctx.exc(e)
        return
    try:
        want = S.ref_decode(len(s), s)
    except ValueError:
        want = None
    if v != want:
        ctx.fail("hy36_wide_matches_reference_or_raises", "decode_hybrid36(%r) = %r, reference %r" % (s, v, want))


# ====================================================================== selftest
def selftest(ctx):
    from decimal import ROUND_HALF_EVEN, Decimal
    # ---- hybrid-36 reference: published landmarks, scalar vs vectorised, decode inverse
    for w, pairs in ((4, [(0, "0"), (9999, "9999"), (10000, "A000"), (10001, "A001"), (10035, "A00Z"), (10036, "A010"),
                          (1223055, "ZZZZ"), (1223056, "a000"), (2436111, "zzzz"), (-999, "-999")]),
                     (5, [(99999, "99999"), (100000, "A0000"), (43770015, "ZZZZZ"), (43770016, "a0000"),
                          (87440031, "zzzzz"), (-9999, "-9999")])):
        for v, s in pairs:
            assert S.ref_encode(w, v) == s, (w, v, S.ref_encode(w, v))
            assert S.ref_decode(w, s) == v and S.ref_decode(w, s.rjust(w)) == v
        assert S.hy_max(w) == pairs[-2][0]
        for bad in (S.hy_max(w) + 1, -10 ** (w - 1)):
            try:
                S.ref_encode(w, bad)
                raise AssertionError("reference accepted %d" % bad)
            except ValueError:
                pass
    for w in (1, 2, 3):
        vec = S.ref_encode_range(w, 0, S.hy_max(w) + 1).tolist()
        assert vec == [S.ref_encode(w, i) for i in range(S.hy_max(w) + 1)]
        assert len(set(vec)) == len(vec)
        assert [S.ref_decode(w, s) for s in vec] == list(range(S.hy_max(w) + 1))
    for w, starts in ((4, [0, 9990, 1223040, 2436000]), (5, [0, 99990, 43770000, 87440000])):
        for a in starts:
            b = min(a + 120, S.hy_max(w) + 1)
            assert S.ref_encode_range(w, a, b).tolist() == [S.ref_encode(w, i) for i in range(a, b)]
    for bad in ("Aa00", "A-00", "A 00", "+123", "1_00", "", "    ", "0A00", "-A00", "A0.0", "AAAAA", "A00"):
        try:
            S.ref_decode(4, bad)
            raise AssertionError("reference decoded %r" % bad)
        except ValueError:
            pass
    # ---- fits model vs the decimal module
    for nd, width, grid in ((3, 8, [-1000.0, -999.9996, -999.9995, -999.9994, -999.999, 9999.999, 9999.9994, 9999.9996, 10000.0, 0.0, -0.0004]),
                            (2, 6, [-100.0, -99.996, -99.995, -99.994, -99.99, 999.99, 999.994, 999.995, 999.996, 1000.0, 0.004])):
        for x in grid:
            for v in (x, float(np.float32(x)), float(np.nextafter(np.float32(x), np.float32(np.inf))), float(np.nextafter(np.float32(x), np.float32(-np.inf)))):
                q = Decimal(v).quantize(Decimal(1).scaleb(-nd), rounding=ROUND_HALF_EVEN)
                digits = len(str(abs(q))) + (1 if q.is_signed() else 0)
                assert S.fmt_fits(v, nd, width) == (digits <= width), (v, q)
    assert S.round_edge(-999.9996, 3, 8) and not S.round_edge(-999.9994, 3, 8) and not S.round_edge(-1000.0, 3, 8)
    assert S.round_edge(999.996, 2, 6) and S.round_edge(-99.996, 2, 6) and not S.round_edge(float("nan"), 2, 6)
    assert [S.id_class(v, 4, False) for v in (-1000, -999, 9999, 10000)] == ["too_wide", "fit", "fit", "wrap"]
    assert [S.id_class(v, 4, True) for v in (-1000, -1, 0, 2436111, 2436112)] == ["too_wide", "neg_hybrid", "fit", "fit", "too_large"]
    # ---- column checker on records from the format documentation
    doc = "ATOM     32  N  AARG A  -3      11.281  86.699  94.383  0.50 35.88           N  "
    assert len(doc) == 80
    base = {"hetero": False, "serial": 32, "atom_name": "N", "element": "N", "res_name": "ARG", "chain": "A", "res_id": -3,
            "ins": "", "xyz": (11.281, 86.699, 94.383), "occ": 0.5, "temp": 35.88, "charge": 0}
    assert "altLoc" in S.check_atom_line(doc, base)
    doc = doc[:16] + " " + doc[17:]
    assert S.check_atom_line(doc, base) is None, S.check_atom_line(doc, base)
    het = "HETATM 1415  O2  BLE P   1      13.775  30.147  14.862  1.09 20.95           O1-"
    hexp = {"hetero": True, "serial": 1415, "atom_name": "O2", "element": "O", "res_name": "BLE", "chain": "P", "res_id": 1,
            "ins": "", "xyz": (13.775, 30.147, 14.862), "occ": 1.09, "temp": 20.95, "charge": -1}
    assert len(het) == 80 and S.check_atom_line(het, hexp) is None, S.check_atom_line(het, hexp)
    fe = "HETATM 3835 FE   HEM A   1      17.140   3.115  15.066  1.00 14.14          FE3+"
    fexp = dict(hexp, serial=3835, atom_name="FE", element="FE", res_name="HEM", chain="A", xyz=(17.14, 3.115, 15.066), occ=1.0, temp=14.14, charge=3)
    assert len(fe) == 80 and S.check_atom_line(fe, fexp) is None, S.check_atom_line(fe, fexp)
    assert "column 13" in S.check_atom_line(fe[:12] + " FE " + fe[16:], fexp)
    assert "column 14" in S.check_atom_line(het[:12] + "O2  " + het[16:], hexp)
    # every single-column shift of any field is noticed
    for cut in range(6, 79):
        for shifted in (het[:cut] + " " + het[cut:-1], het[:cut] + het[cut + 1:] + " "):
            if shifted != het:
                assert S.check_atom_line(shifted, hexp) is not None, (cut, shifted)
    assert S.check_atom_line(het + " ", hexp) and S.check_atom_line(het[:-1], hexp)
    for key, val in (("serial", 1416), ("res_id", 2), ("chain", "Q"), ("ins", "A"), ("charge", 1), ("occ", 1.1), ("xyz", (13.776, 30.147, 14.862)),
                     ("element", "N"), ("atom_name", "O3"), ("res_name", "BLF"), ("hetero", False)):
        assert S.check_atom_line(het, dict(hexp, **{key: val})) is not None, key
    hyline = "ATOM  A0000  CA  ALA AA000      1.000   2.000   3.000   1.00  0.00           C  "
    hyline = hyline[:30] + "   1.000   2.000   3.000  1.00  0.00           C  "
    assert len(hyline) == 80
    hyexp = dict(base, serial=100000, atom_name="CA", element="C", res_name="ALA", res_id=10000, xyz=(1, 2, 3), occ=1, temp=0)
    assert S.check_atom_line(hyline, hyexp, hybrid=True) is None, S.check_atom_line(hyline, hyexp, hybrid=True)
    assert S.check_atom_line(hyline, hyexp, hybrid=False) is not None
    assert S.generic_atom_line_problem(het) is None and S.generic_atom_line_problem(het[:30] + "1" + het[31:]) is not None
    # ---- CONECT / CRYST1
    assert S.parse_conect(["CONECT 1179  746 1184 1195 1203", "CONECT 1179 1211 1222", "ATOM"]) == [
        (1179, 746), (1179, 1184), (1179, 1195), (1179, 1203), (1179, 1211), (1179, 1222)]
    for bad in ("CONECT1179   746", "CONECT 1179  746  12x", "CONECT 1179", "CONECT 1179  746 1184 1195 1203 1211"):
        try:
            S.parse_conect([bad])
            raise AssertionError(bad)
        except ValueError:
            pass
    cr = "CRYST1   52.000   58.600   61.900  90.00  90.00  90.00 P 21 21 21    8          "
    assert len(cr) == 80 and S.parse_cryst1(cr) == [52.0, 58.6, 61.9, 90.0, 90.0, 90.0]
    # ---- cell geometry
    v = S.cell_to_vectors(10, 20, 30, 90, 90, 120)
    assert abs(v[1][0] + 10) < 1e-9 and abs(v[1][1] - 20 * math.sqrt(3) / 2) < 1e-9 and abs(v[2][2] - 30) < 1e-9
    for cell in ((10, 20, 30, 90, 90, 90), (5, 7, 11, 70, 80, 100), (100, 1, 1000, 89, 91, 60)):
        back = S.vectors_to_cell(S.cell_to_vectors(*cell))
        assert all(abs(x - y) < 1e-7 for x, y in zip(back, cell)), (cell, back)
    assert G.small_component_box(S.cell_to_vectors(1000, 10, 1000, 90, 90, 89)) and not G.small_component_box(S.cell_to_vectors(10, 20, 30, 90, 90, 90))
    assert not G.small_component_box(S.cell_to_vectors(50, 60, 70, 80, 95, 110))
    # ---- residues, carried and implied bonds on a hand-made peptide + ligand
    at = [["A", 1, "", "ALA", False, "N", "N"], ["A", 1, "", "ALA", False, "CA", "C"], ["A", 1, "", "ALA", False, "C", "C"],
          ["A", 2, "", "GLY", False, "N", "N"], ["A", 2, "", "GLY", False, "CA", "C"],
          ["A", 2, "A", "XIO", True, "ZN", "ZN"], ["B", 3, "", "HOH", True, "O", "O"], ["B", 3, "", "HOH", True, "H1", "H"]]
    assert S.segment(*[[a[k] for a in at] for k in range(4)]) == [0, 0, 0, 1, 1, 2, 3, 3]
    sp = {"atoms": at, "bonds": [[0, 1, 1], [2, 3, 1], [5, 4, 8], [6, 7, 1], [7, 0, 0]]}
    assert carried_pairs(sp) == {(2, 3), (4, 5), (0, 7)}
    assert implied_pairs(*[[a[k] for a in at] for k in (0, 1, 2, 3, 5)]) == {(0, 1), (1, 2), (2, 3), (3, 4), (6, 7)}
    # ---- generator sanity: specs are well formed and the prediction machinery runs
    rng = np.random.default_rng(7)
    for _ in range(60):
        spec = G.gen_spec(rng, CCD)
        res = {}
        for a in spec["atoms"]:
            res.setdefault((a[0], a[1], a[2]), set())
            assert a[5] not in res[(a[0], a[1], a[2])], spec["atoms"]
            res[(a[0], a[1], a[2])].add(a[5])
        assert 1 <= len(spec["atoms"]) <= 50 and not predict(spec)["refuse"], predict(spec)["refuse"]


# ====================================================================== probes
def base_spec(n=3, **kw):
    atoms = [["A", 10, "", "XYZ", False, ["N", "CA", "C", "O", "CB"][i % 5] + ("" if i < 5 else str(i)), ["N", "C", "C", "O", "C"][i % 5]]
             for i in range(n)]
    spec = {"atoms": atoms, "coord": [[[1.5 + i, -2.25, 3.125] for i in range(n)]], "stack": False, "fdtype": "float64",
            "hybrid36": False, "via": "method", "atom_id": None, "b_factor": None, "occupancy": None, "charge": None,
            "box": None, "bonds": None, "read_bonds": False}
    spec.update(kw)
    return spec


def _probe_round_up(ctx):
    """S13: values that need an extra column only after rounding to the written precision."""
    for fdtype in ("float64", "float32"):
        for key, v in (("coord", -999.9996), ("coord", -999.99951), ("b_factor", 999.996), ("occupancy", 999.9951),
                       ("b_factor", -99.996), ("occupancy", -99.9951)):
            spec = base_spec(fdtype=fdtype)
            if key == "coord":
                spec["coord"][0][1][2] = G.f32(v)
            else:
                spec[key] = [1.0, G.f32(v) if fdtype == "float32" else v, 2.0]
            assert "round_up_extra_column" in predict(spec)["classes"]
            execute(ctx, spec)


def _probe_ins_code(ctx):
    spec = base_spec()
    for a in spec["atoms"]:
        a[2] = "AB"
    execute(ctx, spec)


def _probe_element(ctx):
    spec = base_spec()
    spec["atoms"][1][6] = "CAX"
    execute(ctx, spec)


def _probe_negative_id(ctx):
    spec = base_spec()
    for a in spec["atoms"]:
        a[1] = -1000
    execute(ctx, spec)
    spec = base_spec(atom_id=[-10000, -9999, -9998])
    execute(ctx, spec)


def _probe_empty_chain(ctx):
    for res_id, ins in ((1234, ""), (7, "A"), (7, "")):
        spec = base_spec()
        for a in spec["atoms"]:
            a[0], a[1], a[2] = "", res_id, ins
        execute(ctx, spec)


def _probe_box(ctx):
    for cell in ((1000.0, 10.0, 1000.0, 90.0, 90.0, 89.0), (100.0, 100.0, 100.0, 90.0, 90.01, 90.0), (9000.0, 1.0, 9000.0, 90.0, 90.0, 90.0)):
        v = np.array(S.cell_to_vectors(*cell))
        v[np.abs(v) < 1e-9] = 0
        spec = base_spec(box=[[G.f32(x) for x in row] for row in v])
        assert "box_small_component" in predict(spec)["classes"], cell
        execute(ctx, spec)


def _probe_bond_ins(ctx):
    atoms = [["A", 10, "", "XYZ", False, "SG", "S"], ["A", 10, "", "XYZ", False, "CB", "C"],
             ["A", 10, "A", "XYZ", False, "SG", "S"], ["A", 10, "A", "XYZ", False, "CB", "C"]]
    spec = base_spec(4, atoms=atoms, bonds=[[0, 1, 1], [2, 3, 1], [0, 2, 1]], read_bonds=True)
    assert "bond_same_res_id_other_ins_code" in predict(spec)["classes"]
    execute(ctx, spec)


def _probe_negative_atom_id_bonds(ctx):
    for ids in ([-2, -1, 0, 1, 2, 3], [-3, -2, -1]):
        n = len(ids)
        atoms = [["A", 5, "", "LIG", True, "C%d" % i, "C"] for i in range(n)]
        spec = base_spec(n, atoms=atoms, atom_id=ids, bonds=[[0, 1, 1], [1, 2, 1]] + ([[4, 5, 2]] if n > 5 else []), read_bonds=True)
        assert "negative_atom_id_with_bonds" in predict(spec)["classes"]
        execute(ctx, spec)


def _probe_hy_wide(ctx):
    """C int arithmetic in hybrid36.pyx: words longer than 5 characters / width >= 6."""
    for s in ("A00000", "zzzzzz", "AAAAAAA", "zzzzzzz", "Zzzzzzzzzz"[:1].upper() + "Z" * 9):
        ctx.log({"decode": s})
        hy_wide_decode(ctx, s)
    for v in (10 ** 6, 1542821887 + 10 ** 6, 1542821888 + 10 ** 6, 2 ** 31 - 1):
        ctx.log({"encode": [v, 6]})
        hy_wide_encode(ctx, v, 6)


PROBES = {
    "hy36_beyond_int32": _probe_hy_wide,
    "round_up_extra_column": _probe_round_up,
    "ins_code_width": _probe_ins_code,
    "element_width": _probe_element,
    "negative_id_width": _probe_negative_id,
    "empty_chain_id": _probe_empty_chain,
    "box_small_component": _probe_box,
    "bond_same_res_id_other_ins_code": _probe_bond_ins,
    "negative_atom_id_with_bonds": _probe_negative_atom_id_bonds,
}
