"""C08  Optimal pairwise alignment returns the true optimum.

Monitor: every generated call of ``align_optimal`` is judged by an independent
three-state DP in Python ints (vf/models/align_ref.py, audited against exhaustive
enumeration at the start of every run); every returned alignment is checked for
validity, re-scored independently and through ``align.score``; ASan/UBSan and the
process-exit monitor watch the unchecked table indexing in pairwise.c/tracetable.c.
"""

import numpy as np

from vf.models import align_ref as R

ID = "C08"
FLAVOUR = "san"
LEVEL = "exploration"
THOROUGH_MULT = 3.0       # deepens the sampled strata of the thorough tier (measured: about ten minutes on 16 cores)
RULE = (
    "seeded generator: two code sequences (length 0-14; stratum `large` 15-60 quick / 15-200 thorough) over "
    "alphabets of size 1-6 (stratum `wide_codes`: 300 and 70 000 symbols -> uint16/uint32 codes), separate alphabet "
    "objects per sequence, matrix alphabet possibly a strict extension of the sequence alphabet, int matrices "
    "(uniform [-20,20], all-negative, all-zero, symmetric, identity-like, tie-forcing value sets {0},{0,1},{-1,0,1},"
    "{-2,2}, magnitude 1000), linear penalty 0..-12 or affine (open, ext) in {0..-12}^2 (incl. 0, open<ext, open>ext), "
    "terminal_penalty x local, max_number in {1,2,5,1000}.  A case is non-trivial when both sequences are non-empty "
    "and at least one returned alignment has a column; distinct = distinct digest of the logged inputs."
)
STRATA = {
    "linear": (5200, 250000),
    "affine": (5200, 250000),
    "ties": (3000, 130000),
    "wide_codes": (1200, 50000),
    "large": (300, 6000),
    "declines": (300, 4000),
}
# functions that must leave their arguments untouched (vf.core.PurityMonitor; '!' = the object itself is watched too)
PURE = [
    "biotite.sequence.align.pairwise:align_optimal",
    "biotite.sequence.align.alignment:score",
]
REQUIRED_ORACLES = [
    "score_is_optimum", "trace_valid", "rescored_equals_reported", "score_fn_equals_reported",
    "results_distinct", "max_number_respected", "returns_alignment", "invalid_argument_rejected",
]
ANCHORS = [
    "biotite.sequence.align.alignment:score",
    "biotite.sequence.align.alignment:get_codes",
    "biotite.sequence.align.matrix:SubstitutionMatrix.__init__",
    "biotite.sequence.align.matrix:SubstitutionMatrix.score_matrix",
]
ASSUMPTIONS = [
    "scoring model = the documented one: linear penalty per gap column; affine (open, ext) per run of gaps in one sequence, "
    "a gap in one sequence may not directly abut a gap in the other; terminal_penalty=False frees gap columns before all "
    "sequences have started and after any sequence has ended (find_terminal_gaps); local = best substring pair or the empty alignment",
    "which of several optimal alignments are returned, and their order, is not judged",
    "empty (zero-column) alignments of local mode are exempt from the distinctness clause, as in the statement",
    "64-bit sequence codes cannot be produced through an alphabet (2^32 symbols); the uint64 instantiation of the fused kernels is "
    "reached by replacing the code array of a small-alphabet sequence with its uint64 copy (private attribute _seq_code)",
    "matrix magnitudes are bounded by 1000 and lengths by 200, so the int32 tables cannot overflow by construction",
    "the Cython entry points (_fill_align_table*, follow_trace) cannot be counted with sys.monitoring; they are counted at the "
    "call site (operation histogram align_optimal[...])",
]
MIN_CASES_PER_WORKER = 40
MANIFEST = {
    "technique": "differential oracle on every call: independent three-state DP (Python ints) audited by exhaustive enumeration, "
                 "trace validity checker, independent re-scorer, align.score cross-check; ASan/UBSan build of pairwise.c and "
                 "tracetable.c; process-exit monitor",
    "level_text": "Runtime monitoring: tens of thousands of generated (sequence pair, matrix, penalty, mode, max_number) inputs are run "
                  "through the real align_optimal (ASan+UBSan build of the generated C).  For every call the reported score is compared "
                  "with an independent dynamic program in unbounded Python ints for the documented global / semi-global / local model "
                  "(affine gaps may not abut), and every returned alignment is checked for validity, end-to-end coverage, re-scored "
                  "independently and through align.score, and checked for distinctness and the max_number bound.  The DP itself is "
                  "audited at the start of each run against enumeration of all alignments of sequences up to length 4.  "
                  "Held-on-what-was-observed, not a proof.",
    "level_note": "Trusts the reference DP (audited on ~900 exhaustive configurations per run), numpy, and that the generated C in the tree "
                  "corresponds to the .pyx (no Cython here).  Lengths <= 200, |scores| <= 1000, penalties in 0..-12: int32 overflow of the "
                  "tables is outside the generated classes.  Which optimal alignments are returned is not judged.",
    "design_ref": "DESIGN.md section 6, C08",
}

seq = None
align = None
_ALPH = {}


def setup(ctx):
    global seq, align
    import biotite.sequence as seq_
    import biotite.sequence.align as align_
    seq, align = seq_, align_


# ------------------------------------------------------------------ generators
def alphabet(size, kind="int", tag=0):
    """Cached alphabet objects; `tag` gives distinct objects of equal content."""
    key = (size, kind, tag)
    a = _ALPH.get(key)
    if a is None:
        if kind == "letter":
            a = seq.LetterAlphabet("ABCDEFGHIJKLMNOPQRSTUVWXYZ"[:size])
        else:
            a = seq.Alphabet(range(size))
        _ALPH[key] = a
    return a


def make_sequence(alph, codes):
    s = seq.GeneralSequence(alph)
    s.code = np.asarray(codes, dtype=np.int64)
    return s


MATRIX_KINDS = ["uniform", "uniform", "negative", "zero", "symmetric", "identity", "ties01", "ties101", "ties22", "big", "positive", "huge"]


def gen_matrix(rng, k1, k2, kind):
    if kind == "uniform":
        m = rng.integers(-20, 21, size=(k1, k2))
    elif kind == "negative":
        m = rng.integers(-20, 0, size=(k1, k2))
    elif kind == "positive":
        m = rng.integers(0, 21, size=(k1, k2))
    elif kind == "zero":
        m = np.zeros((k1, k2), dtype=np.int64)
    elif kind == "symmetric":
        k = max(k1, k2)
        a = rng.integers(-20, 21, size=(k, k))
        m = np.triu(a) + np.triu(a, 1).T
        m = m[:k1, :k2]
    elif kind == "identity":
        hit, miss = int(rng.integers(0, 21)), -int(rng.integers(0, 21))
        m = np.full((k1, k2), miss, dtype=np.int64)
        for d in range(min(k1, k2)):
            m[d, d] = hit
    elif kind == "ties01":
        m = rng.integers(0, 2, size=(k1, k2))
    elif kind == "ties101":
        m = rng.integers(-1, 2, size=(k1, k2))
    elif kind == "ties22":
        m = rng.choice([-2, 2], size=(k1, k2))
    elif kind == "big":
        m = rng.integers(-1000, 1001, size=(k1, k2))
    elif kind == "huge":
        # legal int32 scores whose single entries, and sums over a few positions, lie beyond 16 bits
        m = rng.integers(-60000, 60001, size=(k1, k2))
        for d in range(min(k1, k2)):
            m[d, d] = int(rng.integers(30000, 60001))
    else:
        raise ValueError(kind)
    return np.ascontiguousarray(m).astype(np.int64)


def gen_codes(rng, n, k):
    """n codes below k; sometimes low-complexity (repeats force ties)."""
    if n == 0:
        return []
    r = rng.random()
    if r < 0.15:
        return [int(rng.integers(k))] * n
    if r < 0.30:
        unit = [int(x) for x in rng.integers(0, k, size=int(rng.integers(1, 4)))]
        return (unit * (n // len(unit) + 1))[:n]
    return [int(x) for x in rng.integers(0, k, size=n)]


def gen_penalty(rng, affine, tie_friendly=False):
    vals = [0, 0, -1, -1, -2, -3, -5, -8, -10, -12] if tie_friendly else list(range(0, -13, -1))
    if not affine:
        return int(vals[int(rng.integers(len(vals)))])
    o = int(vals[int(rng.integers(len(vals)))])
    e = int(vals[int(rng.integers(len(vals)))])
    r = rng.random()
    if r < 0.15:
        e = o
    elif r < 0.25:
        o = 0
    elif r < 0.35:
        e = 0
    return (o, e)


def gen_length(rng, hi=14):
    r = rng.random()
    if r < 0.04:
        return 0
    if r < 0.12:
        return 1
    if r < 0.55:
        return int(rng.integers(2, 7))
    return int(rng.integers(2, hi + 1))


def gen_inputs(rng, ctx, stratum):
    """-> dict with alphabets, matrix, codes, penalty, mode, max_number."""
    wide = stratum == "wide_codes"
    large = stratum == "large"
    force64 = (False, False)
    if wide:
        choice = int(rng.integers(5))
        k1, k2 = [(300, 300), (300, 4), (70000, 3), (5, 70000), (6, 300)][choice]
        K1, K2 = k1, k2
        kind1 = kind2 = "int"
        if choice == 4:
            # no alphabet is large enough to give 64-bit codes: force the dtype of the code array
            force64 = [(True, True), (True, False), (False, True)][int(rng.integers(3))]
    else:
        k1 = int(rng.integers(1, 7))
        k2 = int(rng.integers(1, 7)) if rng.random() < 0.7 else k1
        # matrix alphabets may strictly extend the sequence alphabets
        K1 = k1 + (int(rng.integers(0, 3)) if rng.random() < 0.3 else 0)
        K2 = k2 + (int(rng.integers(0, 3)) if rng.random() < 0.3 else 0)
        kind1 = "letter" if rng.random() < 0.25 else "int"
        kind2 = "letter" if rng.random() < 0.25 else "int"
    if wide:
        mkind = str(rng.choice(["uniform", "negative", "zero", "identity", "ties01", "ties101", "big", "positive"]))
    elif stratum == "ties":
        mkind = str(rng.choice(["zero", "ties01", "ties101", "ties22", "identity", "symmetric"]))
    elif stratum == "large":
        mkind = str(rng.choice(["uniform", "identity", "symmetric", "ties101", "big"]))
    else:
        mkind = str(rng.choice(MATRIX_KINDS))
    matrix = gen_matrix(rng, K1, K2, mkind)
    if large:
        hi = 60 if ctx.tier == "quick" else 200
        n = int(rng.integers(15, hi + 1))
        m = int(rng.integers(15, hi + 1))
        if rng.random() < 0.5:
            m = max(1, min(hi, n + int(rng.integers(-5, 6))))
    else:
        n, m = gen_length(rng), gen_length(rng)
    c1 = gen_codes(rng, n, k1)
    if large and rng.random() < 0.6 and k1 == k2:
        # a mutated copy: realistic homologous pair
        c2 = list(c1)
        for _ in range(int(rng.integers(0, max(2, n // 5)))):
            r = rng.random()
            p = int(rng.integers(len(c2) + 1))
            if r < 0.4 and c2:
                c2[min(p, len(c2) - 1)] = int(rng.integers(k2))
            elif r < 0.7:
                c2.insert(p, int(rng.integers(k2)))
            elif c2:
                del c2[min(p, len(c2) - 1)]
        c2 = c2[:hi]
    else:
        c2 = gen_codes(rng, m, k2)
    if wide:
        # make sure codes beyond 255 / 65535 really occur
        if c1 and k1 > 256:
            c1[int(rng.integers(len(c1)))] = k1 - 1
        if c2 and k2 > 256:
            c2[int(rng.integers(len(c2)))] = k2 - 1
    affine = stratum == "affine" or (stratum not in ("linear",) and rng.random() < 0.5)
    gp = gen_penalty(rng, affine, tie_friendly=(stratum == "ties"))
    terminal = bool(rng.random() < 0.5)
    local = bool(rng.random() < 0.4)
    if large:
        max_number = int(rng.choice([1, 2, 5]))
    else:
        max_number = int(rng.choice([1, 2, 5, 1000]))
    # quarantine: empty sequence x affine x not local (open finding)
    if (not c1 or not c2) and affine and not local and not ctx.allowed("empty_sequence_affine_global"):
        local = True
    same_alph = (k1, kind1) == (k2, kind2) and K1 == k1 and K2 == k2 and rng.random() < 0.5
    a1 = alphabet(k1, kind1, 0)
    a2 = a1 if same_alph else alphabet(k2, kind2, 1)
    A1 = a1 if K1 == k1 else alphabet(K1, kind1, 2)
    A2 = a2 if K2 == k2 else alphabet(K2, kind2, 3)
    mdtype = str(rng.choice(["int64", "int32", "int16"]))
    if mkind == "huge" and mdtype == "int16":
        mdtype = "int32"          # the scores do not fit 16 bits
    return dict(k=(k1, k2), K=(K1, K2), akind=(kind1, kind2), same_alph=same_alph, a=(a1, a2), A=(A1, A2), force64=force64,
                matrix=matrix, mkind=mkind, mdtype=mdtype, c1=c1, c2=c2, gp=gp, terminal=terminal,
                local=local, max_number=max_number)


def log_inputs(ctx, d):
    mat = d["matrix"]
    if mat.size <= 64:
        mdesc = mat.tolist()
    else:
        # only the entries that can be read are logged for the wide alphabets
        used1 = sorted(set(d["c1"]))
        used2 = sorted(set(d["c2"]))
        if len(used1) * len(used2) <= 400:
            mdesc = {"rows": used1, "cols": used2,
                     "entries": mat[np.ix_(used1, used2)].tolist() if used1 and used2 else []}
        else:
            mdesc = {"shape": list(mat.shape), "kind": d["mkind"]}
    ctx.log({
        "seq_alphabet_sizes": d["k"], "matrix_alphabet_sizes": d["K"], "alphabet_kinds": d["akind"],
        "shared_alphabet_object": d["same_alph"], "matrix_kind": d["mkind"], "matrix_dtype": d["mdtype"],
        "matrix": mdesc, "code1": d["c1"], "code2": d["c2"], "gap_penalty": d["gp"],
        "terminal_penalty": d["terminal"], "local": d["local"], "max_number": d["max_number"],
        "forced_uint64_codes": list(d.get("force64", (False, False))),
    })


def mode_of(terminal, local):
    return "local" if local else ("global" if terminal else "semiglobal")


# ------------------------------------------------------------------ the oracle
def judge_call(ctx, s1, s2, sm, c1, c2, matrix, gp, terminal, local, max_number, result, probe=False):
    """All clauses of the statement for one align_optimal result."""
    n, m = len(c1), len(c2)
    mode = mode_of(terminal, local)
    S = R.pair_scores(c1, c2, matrix)
    opt = R.optimum(S, n, m, gp, mode)
    ctx.check(isinstance(result, list) and len(result) >= 1, "max_number_respected",
              "align_optimal returned %r (a non-empty list is documented)" % (type(result).__name__,))
    ctx.check(len(result) <= max_number, "max_number_respected",
              "%d alignments returned for max_number=%d" % (len(result), max_number))
    scores = {int(a.score) for a in result}
    ctx.check(scores == {opt}, "score_is_optimum",
              "reported score(s) %s, true %s optimum %s" % (sorted(scores), mode, opt),
              reported=sorted(scores), optimum=opt, mode=mode)
    codes = [c1, c2]
    seen = set()
    nonempty = 0
    # align.score is slow pure Python: evaluate it on the first few and a sample
    fn_idx = set(range(min(len(result), 4)))
    if len(result) > 4:
        fn_idx.update(range(len(result) - 2, len(result)))
        fn_idx.add(len(result) // 2)
    for idx, ali in enumerate(result):
        tr = np.asarray(ali.trace)
        rows = R.trace_rows(tr) if tr.size else []
        why = R.check_trace(rows, [n, m], end_to_end=not local, contiguous=True)
        ctx.check(why is None, "trace_valid", "alignment %d: %s" % (idx, why), trace=rows, mode=mode)
        ctx.check(len(ali.sequences) == 2 and ali.sequences[0] is s1 and ali.sequences[1] is s2, "trace_valid",
                  "alignment %d does not refer to the two input sequences" % idx)
        rs = R.rescore(rows, codes, matrix, gp, terminal_penalty=(terminal or local))
        ctx.check(rs == int(ali.score), "rescored_equals_reported",
                  "alignment %d: trace re-scores to %d, reported %d" % (idx, rs, int(ali.score)),
                  trace=rows, mode=mode)
        if rows:
            nonempty += 1
            key = tuple(rows)
            ctx.check(key not in seen, "results_distinct",
                      "alignment %d equals an earlier returned alignment" % idx, trace=rows)
            seen.add(key)
        if idx in fn_idx:
            tp = bool(terminal or local)
            if (n == 0 or m == 0) and (rows or not tp) and not probe and not ctx.allowed("score_fn_empty_sequence"):
                ctx.note("score_fn_skipped_empty_sequence(quarantined)")
                continue
            ctx.op("align.score")
            try:
                fs = align.score(ali, sm, gap_penalty=gp, terminal_penalty=tp)
            except (IndexError, ValueError) as e:
                ctx.exc(e)
                ctx.oracle("score_fn_equals_reported")
                ctx.fail("score_fn_equals_reported",
                         "alignment %d: align.score raised %s: %s instead of returning the reported score %d"
                         % (idx, type(e).__name__, e, int(ali.score)), trace=rows, mode=mode)
            ctx.check(int(fs) == int(ali.score), "score_fn_equals_reported",
                      "alignment %d: align.score gives %s, reported %d" % (idx, fs, int(ali.score)),
                      trace=rows, mode=mode)
            if n > 0 and m > 0:
                # the documented defaults of score(): gap_penalty=-10, terminal_penalty=True
                fd = align.score(ali, sm)
                rd = R.rescore(rows, codes, matrix, -10, terminal_penalty=True)
                ctx.check(int(fd) == rd, "score_fn_equals_reported",
                          "alignment %d: align.score with default arguments gives %s, the trace scores %d under gap_penalty=-10, terminal_penalty=True"
                          % (idx, fd, rd), trace=rows, mode=mode)
                # the same Alignment object after its second sequence was replaced in place (a legal edit of a mutable
                # object): the score is the one of the alignment as it is now
                c2 = [int(v) for v in codes[1]]
                alt = c2[1:] + c2[:1]
                if alt != c2:
                    s2_now = ali.sequences[1]
                    s2_alt = make_sequence(s2_now.get_alphabet(), alt)
                    ali.sequences[1] = s2_alt
                    try:
                        fa = align.score(ali, sm, gap_penalty=gp, terminal_penalty=tp)
                    finally:
                        ali.sequences[1] = s2_now
                    ra = R.rescore(rows, [codes[0], alt], matrix, gp, terminal_penalty=tp)
                    ctx.check(int(fa) == ra, "score_fn_equals_reported",
                              "alignment %d: after replacing the second sequence in place align.score gives %s, the alignment scores %d"
                              % (idx, fa, ra), trace=rows, mode=mode)
                    fb = align.score(ali, sm, gap_penalty=gp, terminal_penalty=tp)
                    ctx.check(int(fb) == int(ali.score), "score_fn_equals_reported",
                              "alignment %d: after restoring the second sequence align.score gives %s, reported %d" % (idx, fb, int(ali.score)),
                              trace=rows, mode=mode)
    if nonempty == 0:
        ctx.oracle("results_distinct")     # vacuous but evaluated
    return opt, nonempty


def call_optimal(ctx, s1, s2, sm, gp, terminal, local, max_number):
    ctx.op("align_optimal[%s,%s]" % (mode_of(terminal, local), "affine" if isinstance(gp, tuple) else "linear"))
    ctx.oracle("returns_alignment")
    try:
        from vf.core import drop_defaults
        kw = drop_defaults(ctx, dict(gap_penalty=gp, terminal_penalty=terminal, local=local, max_number=max_number),
                           dict(gap_penalty=-10, terminal_penalty=True, local=False, max_number=1000))
        return align.align_optimal(s1, s2, sm, **kw)
    except (IndexError, ValueError, TypeError, OverflowError, MemoryError) as e:
        ctx.exc(e)
        ctx.fail("returns_alignment",
                 "align_optimal raised %s: %s for valid input (lengths %d, %d, gap_penalty=%r, terminal_penalty=%r, local=%r)"
                 % (type(e).__name__, e, len(s1), len(s2), gp, terminal, local))


def build_objects(d):
    s1 = make_sequence(d["a"][0], d["c1"])
    s2 = make_sequence(d["a"][1], d["c2"])
    for s, f in zip((s1, s2), d.get("force64", (False, False))):
        if f:
            s._seq_code = s.code.astype(np.uint64)
    # the scores are handed over in the caller's own array, which the caller goes on using: a scratch buffer that is
    # sliced / transposed for the call and overwritten afterwards.  The matrix object keeps the scores it was given.
    mat = np.array(d["matrix"]).astype(d["mdtype"])
    k1, k2 = mat.shape
    how = (int(np.abs(d["matrix"]).sum()) + len(d["c1"]) + 3 * len(d["c2"])) % 5
    if how == 4 and d["A"][1] is d["a"][1] and k2 <= 300:
        # the scores as a dictionary {(symbol1, symbol2): score}; the second alphabet lists the same symbols as the first
        # one in another order, so that a symbol's position differs between the two alphabets
        syms2 = list(d["A"][1].get_symbols())
        order = [(7 * i + 3) % len(syms2) for i in range(len(syms2))] if len(syms2) % 7 else list(range(len(syms2)))[::-1]
        P2 = seq.Alphabet([syms2[i] for i in order])
        s2 = make_sequence(P2, d["c2"])
        if d.get("force64", (False, False))[1]:
            s2._seq_code = s2.code.astype(np.uint64)
        syms1 = list(d["A"][0].get_symbols())
        table = {(syms1[i], P2.get_symbols()[j]): int(mat[i, j]) for i in range(k1) for j in range(k2)}
        sm = align.SubstitutionMatrix(d["A"][0], P2, table)
        return s1, s2, sm
    how = how % 4
    if how == 1:
        buf = np.zeros((k1 + 1, k2 + 2), dtype=mat.dtype)
        buf[:k1, :k2] = mat
        sm = align.SubstitutionMatrix(d["A"][0], d["A"][1], buf[:k1, :k2])
        buf[...] = 77
    elif how == 2:
        buf = np.ascontiguousarray(mat.T)
        sm = align.SubstitutionMatrix(d["A"][0], d["A"][1], buf.T)
        buf[...] = -55
    elif how == 3:
        buf = mat.copy()
        sm = align.SubstitutionMatrix(d["A"][0], d["A"][1], buf)
        buf[...] = 0
    else:
        sm = align.SubstitutionMatrix(d["A"][0], d["A"][1], mat)
    return s1, s2, sm


def run_case(stratum, rng, ctx):
    if stratum == "declines":
        return case_declines(rng, ctx)
    d = gen_inputs(rng, ctx, stratum)
    log_inputs(ctx, d)
    s1, s2, sm = build_objects(d)
    ctx.op("codes_%sx%s" % (s1.code.dtype, s2.code.dtype))
    res = call_optimal(ctx, s1, s2, sm, d["gp"], d["terminal"], d["local"], d["max_number"])
    opt, nonempty = judge_call(ctx, s1, s2, sm, d["c1"], d["c2"], d["matrix"], d["gp"],
                               d["terminal"], d["local"], d["max_number"], res)
    n, m = len(d["c1"]), len(d["c2"])
    if n > 0 and m > 0 and n * m <= 2500 and ctx.index % 6 == 0:
        # the same problem in positional form (documented: the scores stay the same, pos_matrix.get_score(p1[i], p2[j])
        # == matrix.get_score(s1[i], s2[j])): its optimum is the optimum of the original problem
        ctx.op("as_positional")
        ctx.oracle("score_is_optimum")
        pm, p1, p2 = sm.as_positional(s1, s2)
        want = np.asarray(d["matrix"])[np.ix_(d["c1"], d["c2"])]
        got = np.asarray(pm.score_matrix())
        if got.shape != want.shape or not np.array_equal(got, want):
            ctx.fail("score_is_optimum", "as_positional(): the positional matrix is not matrix[code1[i], code2[j]] (shape %s, expected %s)"
                     % (list(got.shape), list(want.shape)))
        rp = align.align_optimal(p1, p2, pm, gap_penalty=d["gp"], terminal_penalty=d["terminal"], local=d["local"], max_number=1)
        if int(rp[0].score) != opt:
            ctx.fail("score_is_optimum", "the positional form of the problem reports %d, the optimum is %d" % (int(rp[0].score), opt))
    ctx.mark_nontrivial(n > 0 and m > 0 and nonempty > 0)
    has_gap = any((np.asarray(a.trace) == -1).any() for a in res[:3] if np.asarray(a.trace).size)
    ctx.state([mode_of(d["terminal"], d["local"]), isinstance(d["gp"], tuple), min(n, 8), min(m, 8),
               min(len(res), 6), bool(has_gap), (opt > 0) - (opt < 0)])
    if len(res) > 1:
        ctx.note("calls_with_several_optimal_alignments")
    if len(res) == d["max_number"]:
        ctx.note("calls_reaching_max_number")


def case_declines(rng, ctx):
    """Arguments the docstring excludes: positive penalties, max_number < 1, alphabets
    that do not fit the matrix, a non-int / non-tuple penalty."""
    d = gen_inputs(rng, ctx, "linear")
    d["local"] = bool(rng.random() < 0.5)
    kind = str(rng.choice(["positive_linear", "positive_open", "positive_ext", "max_number_0", "alphabet_misfit", "penalty_type"]))
    gp, max_number = d["gp"], d["max_number"]
    expect = (ValueError,)
    if kind == "positive_linear":
        gp = int(rng.integers(1, 6))
    elif kind == "positive_open":
        gp = (int(rng.integers(1, 6)), -int(rng.integers(0, 6)))
    elif kind == "positive_ext":
        gp = (-int(rng.integers(0, 6)), int(rng.integers(1, 6)))
    elif kind == "max_number_0":
        max_number = int(rng.choice([0, -1]))
    elif kind == "penalty_type":
        gp = [-3, -1] if rng.random() < 0.5 else -2.0
        expect = (TypeError,)
    d["gp"], d["max_number"] = gp, max_number
    log_inputs(ctx, d)
    ctx.log("decline", kind)
    s1, s2, sm = build_objects(d)
    if kind == "alphabet_misfit":
        # matrix alphabet one symbol shorter than the sequence alphabet
        s1 = make_sequence(alphabet(d["K"][0] + 1, d["akind"][0], 5), d["c1"])
    ctx.op("align_optimal[decline:%s]" % kind)
    ctx.oracle("invalid_argument_rejected")
    try:
        res = align.align_optimal(s1, s2, sm, gap_penalty=gp, terminal_penalty=d["terminal"],
                                  local=d["local"], max_number=max_number)
    except expect as e:
        ctx.exc(e)
    else:
        ctx.fail("invalid_argument_rejected", "%s accepted, %d alignments returned" % (kind, len(res)))
    ctx.mark_nontrivial()


# ------------------------------------------------------------------ self-test
def selftest(ctx):
    """Oracle audit: re-scorer and validity checker on literals, DP against
    exhaustive enumeration of all alignments (lengths <= 4, all modes, linear and
    affine, with/without abutting gaps, with/without the pair requirement)."""
    checked = R.selftest(max_len=4, rounds=40, seed=20260927)
    assert checked > 500
    # the driver's own plumbing: a hand-made case through judge_call's building blocks
    mat = np.array([[5, -3], [-3, 5]])
    S = R.pair_scores([0, 1, 1], [0, 1], mat)
    assert S == [[5, -3], [-3, 5], [-3, 5]]
    assert R.optimum(S, 3, 2, -2, "global") == 8
    assert R.optimum(S, 3, 2, -20, "global") == -10
    assert R.optimum(S, 3, 2, -20, "semiglobal") == 10
    assert R.optimum(S, 3, 2, -20, "local") == 10
    assert R.optimum(R.pair_scores([0], [1], mat), 1, 1, (-1, -1), "semiglobal") == -3   # A-/-B would abut
    assert R.optimum(R.pair_scores([0], [1], mat), 1, 1, -1, "semiglobal") == 0


# ------------------------------------------------------------------ probes
def _probe_empty_affine(ctx):
    """Trigger class: one sequence empty, affine penalty, not local."""
    mat = np.array([[5, -3], [-3, 5]])
    a = alphabet(2, "int", 0)
    sm = align.SubstitutionMatrix(a, a, mat)
    for c1, c2 in (([], [0, 1, 1]), ([1, 0], []), ([], [])):
        for terminal in (True, False):
            for gp in ((-5, -1), (0, 0)):
                ctx.log({"code1": c1, "code2": c2, "gap_penalty": gp, "terminal_penalty": terminal, "local": False})
                s1, s2 = make_sequence(a, c1), make_sequence(a, c2)
                res = call_optimal(ctx, s1, s2, sm, gp, terminal, False, 5)
                judge_call(ctx, s1, s2, sm, c1, c2, mat, gp, terminal, False, 5, res)


def _probe_score_fn_empty(ctx):
    """Trigger class: align.score on a returned alignment one of whose sequences is empty."""
    mat = np.array([[5, -3], [-3, 5]])
    a = alphabet(2, "int", 0)
    sm = align.SubstitutionMatrix(a, a, mat)
    for c1, c2 in (([], [0, 1, 1]), ([1, 0], []), ([], [])):
        for terminal in (True, False):
            gp = -4
            ctx.log({"code1": c1, "code2": c2, "gap_penalty": gp, "terminal_penalty": terminal, "local": False})
            s1, s2 = make_sequence(a, c1), make_sequence(a, c2)
            res = call_optimal(ctx, s1, s2, sm, gp, terminal, False, 5)
            judge_call(ctx, s1, s2, sm, c1, c2, mat, gp, terminal, False, 5, res, probe=True)


PROBES = {
    "empty_sequence_affine_global": _probe_empty_affine,
    "score_fn_empty_sequence": _probe_score_fn_empty,
}
