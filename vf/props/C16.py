"""C16  Superimposition minimises RMSD with a proper rotation.

Monitor: every generated call of superimpose / AffineTransformation /
superimpose_without_outliers / superimpose_homologs is judged against the float64
Kabsch optimum (singular values with the reflection sign), 200 random
perturbations of the returned pose, and the float64 matrix form of the returned
transformation (vf/models/geom_ref.py).
"""

import importlib.util
import os
import warnings

import numpy as np

from vf.models import geom_ref as G

ID = "C16"
FLAVOUR = "plain"
LEVEL = "exploration"
THOROUGH_MULT = 5.0       # deepens the sampled strata of the thorough tier (measured: about ten minutes on 16 cores)
RULE = (
    "seeded generator.  Point sets with n = 1..60 atoms of rank 0 (coincident), 1 (collinear), 2 (planar), 3 (generic), mirror-symmetric, "
    "regular polyhedra; scale 0.1-100 A, centred up to 10^4 A from the origin; mobile = random rigid motion of fixed + Gaussian noise "
    "(0, 10^-3 .. 2 A), or a mirror image, or an unrelated set; boolean atom masks (random, single atom, all); inputs as float32 / float64 "
    "ndarray, AtomArray, AtomArrayStack; stack depths 1-4 in all fixed/mobile combinations incl. the mismatching ones; "
    "AffineTransformation objects built directly from random parts and applied to arrays, stacks and foreign coordinates; "
    "superimpose_without_outliers on sets with 0-40 % displaced atoms and random min_anchors / max_iterations / quantiles / threshold; "
    "superimpose_homologs on synthetic CA (or P) chains from the synthetic component dictionary with substitutions, insertions, deletions, "
    "1-2 chains.  A case is non-trivial when the mobile set was moved by a rotation of more than 0.1 rad and at least one optimality or "
    "matrix-form oracle was evaluated; distinct = digest of the logged inputs."
)
STRATA = {
    "fit": (4500, 230000),
    "rigid_copy": (2000, 100000),
    "stack": (1500, 70000),
    "transform_api": (800, 40000),
    "outliers": (800, 40000),
    "homologs": (400, 20000),
}
# functions that must leave their arguments untouched (vf.core.PurityMonitor; '!' = the object itself is watched too)
PURE = [
    "biotite.structure.superimpose:superimpose",
    "biotite.structure.superimpose:superimpose_without_outliers",
    "biotite.structure.superimpose:superimpose_homologs",
    "biotite.structure.superimpose:AffineTransformation.apply!",
    "biotite.structure.superimpose:AffineTransformation.as_matrix!",
    "biotite.structure.compare:rmsd",
]
REQUIRED_ORACLES = [
    "rotation_orthonormal", "rotation_proper", "rmsd_optimal", "rmsd_not_improvable", "rigid_copy_rmsd_zero",
    "apply_equals_fitted", "matrix_form", "transformation_reproduces_fitted", "stack_model_wise", "mismatch_rejected",
    "anchor_fit_optimal", "homolog_anchor_fit_optimal",
]
ANCHORS = [
    "biotite.structure.superimpose:superimpose",
    "biotite.structure.superimpose:_get_rotation_matrices",
    "biotite.structure.superimpose:AffineTransformation.__init__",
    "biotite.structure.superimpose:AffineTransformation.apply",
    "biotite.structure.superimpose:AffineTransformation.as_matrix",
    "biotite.structure.superimpose:_multi_matmul",
    "biotite.structure.superimpose:_reshape_to_3d",
    "biotite.structure.superimpose:_expand_dims",
    "biotite.structure.superimpose:superimpose_without_outliers",
    "biotite.structure.superimpose:superimpose_homologs",
    "biotite.structure.superimpose:_get_backbone_anchor_indices",
    "biotite.structure.superimpose:_find_matching_anchors",
    "biotite.structure.compare:rmsd",
    "biotite.structure.compare:_sq_euclidian",
    "biotite.structure.geometry:centroid",
]
OPTIONAL_ANCHORS = []
ASSUMPTIONS = [
    "inputs are the float32 values biotite uses (coord() casts ndarrays to float32); optimum and RMSD are computed in float64 on exactly those values",
    "tolerance for RMSD / coordinate comparisons: 64 eps32 M with M the largest coordinate magnitude of fixed and mobile (centring and the "
    "SVD path run in float32); orthonormality / determinant: 64 eps32",
    "which of several optimal rotations is returned for rank-deficient sets is not judged (only RMSD, properness, orthonormality)",
    "a fixed/mobile pair whose atom counts differ with one of them being 1 broadcasts silently in numpy; the statement does not cover it, it is counted as an observation",
    "superimpose_homologs needs the Chemical Component Dictionary, absent here: the synthetic dictionary /verif/fixtures/ccd.py (ALA, GLY, XAA, XDP, A, U, DX) is activated; "
    "only those residue names are exercised",
    "for superimpose_without_outliers / superimpose_homologs the judged claim is: the returned transformation is the optimal fit of the returned anchors "
    "(plus the documented min_anchors lower bound); which atoms are chosen as outliers is not judged",
]
MIN_CASES_PER_WORKER = 50
MANIFEST = {
    "technique": "differential runtime monitor: every superimposition is compared with the float64 Kabsch optimum (singular values with reflection sign), "
                 "200 random perturbations of the returned pose, and the float64 homogeneous-matrix form of the returned transformation",
    "level_text": "Runtime monitoring: thousands of generated point-set pairs (all ranks, mirror images, noise levels, masks, stacks, far-from-origin "
                  "coordinates) are superimposed by the real biotite code while a float64 reference judges rotation properness, RMSD optimality "
                  "(closed form and perturbation probes), the 4x4 matrix form, model-wise action on stacks and the anchor fits of the outlier-tolerant "
                  "and homolog variants.  Held-on-what-was-observed, not a proof.",
    "level_note": "Trusts numpy's float64 SVD and the reference module vf/models/geom_ref.py (the closed-form optimum is audited at start-up against a "
                  "numerical search over rotations, incl. mirror images and rank-deficient sets).  Tolerances are format-derived (64 eps32 M).  "
                  "superimpose_homologs runs on a synthetic component dictionary.",
    "design_ref": "DESIGN.md section 6, C16",
}

E32 = G.EPS32
K_TOL = 64.0
struc = None
AffineTransformation = None
CCD_OK = False
WORST = {}


def setup(ctx):
    global struc, AffineTransformation, CCD_OK
    warnings.filterwarnings("ignore", category=RuntimeWarning)
    warnings.filterwarnings("ignore", message=".*chararray.*")
    import biotite.structure as struc_
    import biotite.structure.superimpose  # noqa: F401
    struc = struc_
    AffineTransformation = struc.AffineTransformation
    try:
        path = os.path.join(os.path.dirname(os.path.dirname(os.path.dirname(os.path.abspath(__file__)))), "fixtures", "ccd.py")
        spec = importlib.util.spec_from_file_location("verif_fixture_ccd", path)
        mod = importlib.util.module_from_spec(spec)
        spec.loader.exec_module(mod)
        mod.activate()
        CCD_OK = True
    except Exception:
        CCD_OK = False


# ====================================================================== helpers
def within(ctx, oracle, err, tol, msg, **detail):
    ctx.oracle(oracle)
    err = np.abs(np.asarray(err, dtype=np.float64))
    tol = np.broadcast_to(np.asarray(tol, dtype=np.float64), err.shape)
    if err.size == 0:
        return
    with np.errstate(all="ignore"):
        ratio = np.where(tol > 0, err / np.where(tol > 0, tol, 1), np.where(err == 0, 0.0, np.inf))
    r = float(np.nanmax(ratio)) if np.isfinite(ratio).any() else 0.0
    if r > WORST.get(oracle, 0.0):
        WORST[oracle] = r
    bad = ~(err <= tol)
    if bad.any():
        k = int(np.argmax(np.where(np.isnan(err), np.inf, err / np.maximum(tol, 1e-300))))
        ctx.fail(oracle, "%s: error %.6g > tolerance %.6g (flat element %d of shape %s, %d of %d off)"
                 % (msg, float(err.ravel()[k]), float(tol.ravel()[k]), k, list(err.shape), int(bad.sum()), err.size), **detail)


def absmax(*arrays):
    m = 0.0
    for a in arrays:
        a = np.asarray(a, dtype=np.float64)
        if a.size:
            m = max(m, float(np.abs(a).max()))
    return m


def coords_of(obj):
    return np.asarray(obj if isinstance(obj, np.ndarray) else obj.coord)


def wrap_form(form, x):
    if form == "nd32":
        return x.copy()   # never the generator's own array: the mutation oracles compare against it
    if form == "nd64":
        return x.astype(np.float64)
    if x.ndim == 2:
        a = struc.AtomArray(x.shape[0])
        a.coord = x.copy()
        a.res_id = np.arange(x.shape[0])
        return a
    s = struc.AtomArrayStack(x.shape[0], x.shape[1])
    s.coord = x.copy()
    s.res_id = np.arange(x.shape[1])
    return s


_POLY = {
    "tetrahedron": [(1, 1, 1), (1, -1, -1), (-1, 1, -1), (-1, -1, 1)],
    "octahedron": [(1, 0, 0), (-1, 0, 0), (0, 1, 0), (0, -1, 0), (0, 0, 1), (0, 0, -1)],
    "cube": [(x, y, z) for x in (-1, 1) for y in (-1, 1) for z in (-1, 1)],
    "square": [(1, 1, 0), (1, -1, 0), (-1, -1, 0), (-1, 1, 0)],
    "triangle": [(1, 0, 0), (-0.5, 0.8660254037844386, 0), (-0.5, -0.8660254037844386, 0)],
}


def gen_pointset(rng, kind=None, n=None):
    """float64 point set (n,3) around the origin with unit-ish spread; returns (x, kind)."""
    kinds = ["generic", "generic", "generic", "planar", "collinear", "single", "coincident", "mirror", "poly", "two"]
    kind = kind or str(rng.choice(kinds))
    if n is None:
        n = int(rng.choice([2, 3, 4, 5, 8, 13, 25, 40, 60], p=[.08, .12, .15, .15, .15, .12, .1, .08, .05]))
    if kind == "single":
        x = rng.normal(size=(1, 3))
    elif kind == "two":
        x = rng.normal(size=(2, 3))
    elif kind == "coincident":
        x = np.tile(rng.normal(size=(1, 3)), (n, 1))
    elif kind == "collinear":
        x = rng.normal(size=(n, 1)) * rng.normal(size=(1, 3)) + rng.normal(size=(1, 3))
    elif kind == "planar":
        u, v = rng.normal(size=3), rng.normal(size=3)
        x = rng.normal(size=(n, 1)) * u + rng.normal(size=(n, 1)) * v
    elif kind == "mirror":
        h = rng.normal(size=(max(n // 2, 1), 3))
        x = np.concatenate([h, h * np.array([1, 1, -1])])
        if rng.random() < 0.5:
            x = np.concatenate([x, rng.normal(size=(2, 3)) * np.array([1, 1, 0])])     # atoms on the mirror plane
    elif kind == "poly":
        x = np.array(_POLY[str(rng.choice(list(_POLY)))], dtype=np.float64)
    else:
        x = rng.normal(size=(n, 3)) * (np.ones(3) if rng.random() < 0.6 else 10.0 ** rng.uniform(-1.5, 1, size=3))
    return x @ G.quat_rotation(rng).T, kind


def place(rng, x, scale=None):
    """Scale and move a unit point set somewhere (float32 values)."""
    scale = scale or 10.0 ** rng.uniform(-1, 2)
    r = rng.random()
    cmag = 0.0 if r < 0.25 else (10.0 ** rng.uniform(0, 2) if r < 0.8 else 10.0 ** rng.uniform(2, 4))
    c = rng.normal(size=3)
    c = c / np.sqrt((c * c).sum()) * cmag
    return (x * scale + c).astype(np.float32), scale


def gen_mobile(rng, fixed32, scale, relation=None):
    """mobile from fixed: rigid motion (+ noise / mirror / unrelated).  Returns (mobile float32, relation, noise, rotation angle)."""
    relation = relation or str(rng.choice(["noisy", "noisy", "noisy", "rigid", "mirror", "unrelated"]))
    f = fixed32.astype(np.float64)
    R = G.quat_rotation(rng)
    if rng.random() < 0.08:
        R = np.eye(3)
    ang = float(np.arccos(np.clip((np.trace(R) - 1) / 2, -1, 1)))
    r = rng.random()
    tmag = 0.0 if r < 0.2 else (scale * 10.0 ** rng.uniform(-1, 1.5) if r < 0.85 else 10.0 ** rng.uniform(2, 4))
    t = rng.normal(size=3) * tmag
    noise = 0.0
    if relation == "unrelated":
        y = rng.normal(size=f.shape) * scale + f.mean(axis=0)
    else:
        y = f
        if relation == "mirror":
            c = y.mean(axis=0)
            y = (y - c) * np.array([1, 1, -1]) + c
        if relation in ("noisy", "mirror"):
            noise = float(rng.choice([1e-3, 0.02, 0.1, 0.5, 1.0, 2.0]))
            if relation == "mirror" and rng.random() < 0.5:
                noise = 0.0
            y = y + rng.normal(size=y.shape) * noise
    c = y.mean(axis=0)
    y = G.move(y - c, R) + c + t
    return y.astype(np.float32), relation, noise, ang


def gen_mask(rng, n):
    r = rng.random()
    if r < 0.45 or n == 1:
        return None
    if r < 0.55:
        return np.ones(n, dtype=bool)
    if r < 0.65:
        m = np.zeros(n, dtype=bool)
        m[int(rng.integers(n))] = True
        return m
    if r < 0.80 and n >= 3:
        # a contiguous or regularly strided range (what a slice selects)
        a = int(rng.integers(0, n - 1)); b = int(rng.integers(a + 1, n + 1)); st = int(rng.choice([1, 1, 2, 3]))
        m = np.zeros(n, dtype=bool)
        m[a:b:st] = True
        return m
    m = rng.random(n) < rng.choice([0.3, 0.6, 0.9])
    if not m.any():
        m[int(rng.integers(n))] = True
    return m


def mask_arg(rng, ctx, mask):
    """The same selection in another representation: the documented boolean mask, or (where the selected positions allow
    it) the equivalent index array or slice, which NumPy answers with a *view* of the caller's coordinates instead of a
    copy.  Only forms that select the same atoms in the same order are produced."""
    if mask is None:
        return None
    pos = np.flatnonzero(mask)
    forms = ["bool"] * 3 + ["index"]
    if len(pos) == 1 or (len(pos) > 1 and len(set(np.diff(pos).tolist())) == 1):
        forms += ["slice"] * 4
    f = str(rng.choice(forms))
    ctx.op("maskform_" + f)
    if f == "index":
        return pos
    if f == "slice":
        step = int(pos[1] - pos[0]) if len(pos) > 1 else 1
        return slice(int(pos[0]), int(pos[-1]) + 1, step)
    return mask


def superimpose_masked(ctx, Fo, Mo, mask, marg):
    """superimpose with the mask in the chosen representation; a representation other than the documented boolean mask
    that is refused with an exception is not judged (the call is repeated with the boolean mask)."""
    if mask is None:
        return struc.superimpose(Fo, Mo)
    if marg is mask:
        return struc.superimpose(Fo, Mo, atom_mask=mask)
    try:
        return struc.superimpose(Fo, Mo, atom_mask=marg)
    except (TypeError, IndexError, ValueError) as e:
        ctx.op("maskform_refused")
        return struc.superimpose(Fo, Mo, atom_mask=mask)


TRIGGER_ELONGATED = "near_collinear_set_float32_covariance"


def conditioning_budget(ctx, Fm, tol):
    """Near-collinear / near-planar anchor sets: the cross-covariance is accumulated in float32 with an absolute error of
    ~eps32 L^2 (L = rms extent); the minor singular values w_k^2 below that level are lost and the fit can be off by up to
    min(8 eps32 L^2 / w_k, 2 w_k).  Sets for which this exceeds a quarter of the tolerance form the trigger class
    TRIGGER_ELONGATED; while that class is quarantined the bound is added to the tolerance (counted), otherwise the plain
    format-derived tolerance applies."""
    A = np.asarray(Fm, np.float64)
    if len(A) < 2:
        return tol
    sv = np.linalg.svd(A - A.mean(axis=0), compute_uv=False) / np.sqrt(len(A))
    sv = np.concatenate([sv, np.zeros(3 - len(sv))])
    L = sv[0]
    pred = sum(min(8 * E32 * L * L / max(w, 1e-300), 2 * w) for w in sv[1:])
    if pred <= 0.25 * tol:
        return tol
    ctx.op("class_elongated_set")
    if ctx.allowed(TRIGGER_ELONGATED):
        return tol
    ctx.note("elongated_set_judged_with_conditioning_bound")
    return tol + pred


def judge_rotation(ctx, R):
    R = np.asarray(R, np.float64)
    within(ctx, "rotation_orthonormal", R @ np.swapaxes(R, -1, -2) - np.eye(3), K_TOL * E32, "rotation matrix is not orthonormal")
    within(ctx, "rotation_proper", np.linalg.det(R) - 1.0, K_TOL * E32, "determinant of the rotation is not +1")


def judge_fit(ctx, rng, fixed32, mobile32, fitted, R, ct, tt, mask, tol, prefix="", perturb=True, rigid=False):
    """One model: fixed/mobile (n,3) float32 inputs, fitted (n,3) result, returned parts R, ct, tt."""
    F = fixed32.astype(np.float64)
    Mo = mobile32.astype(np.float64)
    Y = np.asarray(fitted, np.float64)
    sel = slice(None) if mask is None else mask
    Fm, Mm, Ym = F[sel], Mo[sel], Y[sel]
    n = len(Fm)
    judge_rotation(ctx, R)
    tol_rep = tol
    tol = conditioning_budget(ctx, Fm, tol)
    ssd, e0 = G.kabsch_optimum(Fm, Mm)
    opt = np.sqrt(ssd / n)
    got = G.rmsd(Fm, Ym)
    within(ctx, prefix + "rmsd_optimal", max(got - opt, 0.0), tol,
           "RMSD after fitting %.9g exceeds the Kabsch optimum %.9g" % (got, opt))
    if rigid:
        within(ctx, "rigid_copy_rmsd_zero", got, tol, "rigid copy is not fitted onto the original (RMSD %.6g)" % got)
    # the returned parts reproduce the fitted coordinates (all atoms, masked or not)
    rep = (Mo + np.asarray(ct, np.float64)) @ np.asarray(R, np.float64).T + np.asarray(tt, np.float64)
    within(ctx, "transformation_reproduces_fitted", np.sqrt(((rep - Y) ** 2).sum(-1)), tol_rep,
           "R (x + center_translation) + target_translation differs from the fitted coordinates")
    if perturb:
        k = 200
        Q = G.small_rotations(rng, k)
        span = max(float(np.sqrt(((Ym - Ym.mean(axis=0)) ** 2).sum(-1).max())), 1e-3)
        tau = rng.normal(size=(k, 3)) * (span * 10.0 ** rng.uniform(-4, -1, size=(k, 1)))
        tau[: k // 4] = 0.0
        c = Ym.mean(axis=0)
        P = np.einsum("kij,nj->kni", Q, Ym - c) + c + tau[:, None, :]
        pr = np.sqrt(((P - Fm[None]) ** 2).sum(-1).mean(-1))
        within(ctx, "rmsd_not_improvable", max(got - float(pr.min()), 0.0), tol,
               "a small perturbation of the returned pose has a lower RMSD (%.9g < %.9g)" % (float(pr.min()), got))
    return got, opt


def check_same_type(ctx, got, like, what):
    ctx.oracle("result_type")
    if isinstance(like, np.ndarray):
        ok = isinstance(got, np.ndarray)
    else:
        ok = type(got) is type(like)
    if not ok or coords_of(got).shape != coords_of(like).shape:
        ctx.fail("result_type", "%s returned %s of shape %s for %s of shape %s"
                 % (what, type(got).__name__, list(coords_of(got).shape), type(like).__name__, list(coords_of(like).shape)))


def judge_apply_matrix(ctx, rng, tr, mobile_obj, fitted, tol_scale):
    """apply(mobile) == fitted; apply(x) == homogeneous product with as_matrix() on foreign coordinates."""
    again = tr.apply(mobile_obj)
    check_same_type(ctx, again, mobile_obj, "apply")
    within(ctx, "apply_equals_fitted", coords_of(again).astype(np.float64) - coords_of(fitted).astype(np.float64), 0.0,
           "transformation.apply(mobile) differs from the returned fitted coordinates")
    m = tr.rotation.shape[0]
    Mx = np.asarray(tr.as_matrix(), np.float64)
    ctx.oracle("matrix_shape")
    if Mx.shape != (m, 4, 4):
        ctx.fail("matrix_shape", "as_matrix() has shape %s for %d models" % (list(Mx.shape), m))
    kk = int(rng.integers(1, 7))
    other = (coords_of(mobile_obj).astype(np.float64).reshape(-1, 3).mean(axis=0) + rng.normal(size=(m, kk, 3)) * tol_scale).astype(np.float32)
    arg = other if m > 1 or rng.random() < 0.5 else other[0]
    out = np.asarray(tr.apply(arg), np.float64).reshape(m, kk, 3)
    h = np.concatenate([other.astype(np.float64), np.ones((m, kk, 1))], axis=-1)
    ref = np.einsum("mij,mkj->mki", Mx, h)
    mag = absmax(other) + absmax(tr.center_translation) + absmax(tr.target_translation)
    within(ctx, "matrix_form", np.sqrt(((ref[..., :3] - out) ** 2).sum(-1)), K_TOL * E32 * mag,
           "apply(x) differs from as_matrix() @ (x, 1)")
    within(ctx, "matrix_form", ref[..., 3] - 1.0, 1e-12, "homogeneous coordinate after as_matrix() is not 1")
    within(ctx, "matrix_form", Mx[:, 3, :] - np.array([0, 0, 0, 1.0]), 0.0, "last row of as_matrix() is not (0,0,0,1)")
    # the matrix handed out is the caller's; and the public parts (rotation, translations) define the transformation:
    # after editing the returned matrix, or assigning new parts, apply() and as_matrix() must still agree
    if rng.random() < 0.5:
        ctx.oracle("matrix_form_after_edit")
        first = tr.as_matrix()
        first[...] = 0.0
        again_m = np.asarray(tr.as_matrix(), np.float64)
        within(ctx, "matrix_form_after_edit", again_m - Mx, 0.0, "as_matrix() changed after the caller edited a previously returned matrix")
        import copy as _copy
        t2 = _copy.copy(tr)
        ang = float(rng.uniform(0.3, 2.5))
        rz = np.array([[np.cos(ang), -np.sin(ang), 0.0], [np.sin(ang), np.cos(ang), 0.0], [0.0, 0.0, 1.0]])
        new_rot = np.einsum("ij,mjk->mik", rz, np.asarray(tr.rotation, np.float64)).astype(tr.rotation.dtype)
        new_tt = (np.asarray(tr.target_translation, np.float64) + rng.normal(size=(1, 3)) * tol_scale).astype(tr.target_translation.dtype)
        t2.rotation = new_rot
        t2.target_translation = new_tt
        out2 = np.asarray(t2.apply(arg), np.float64).reshape(m, kk, 3)
        M2 = np.asarray(t2.as_matrix(), np.float64)
        ref2 = np.einsum("mij,mkj->mki", M2, h)[..., :3]
        byhand = np.einsum("mij,mkj->mki", np.asarray(new_rot, np.float64),
                           other.astype(np.float64) + np.asarray(tr.center_translation, np.float64).reshape(-1, 1, 3)) \
            + np.asarray(new_tt, np.float64).reshape(-1, 1, 3)
        mag2 = mag + absmax(new_tt)
        within(ctx, "matrix_form_after_edit", np.sqrt(((ref2 - out2) ** 2).sum(-1)), K_TOL * E32 * mag2,
               "after assigning rotation/target_translation: apply(x) differs from as_matrix() @ (x, 1)")
        within(ctx, "matrix_form_after_edit", np.sqrt(((byhand - out2) ** 2).sum(-1)), K_TOL * E32 * mag2,
               "after assigning rotation/target_translation: apply(x) differs from R (x + c) + t computed from the attributes")


# ====================================================================== strata: fit / rigid_copy
def case_fit(rng, ctx, rigid=False):
    if rigid:
        x, kind = gen_pointset(rng, kind=str(rng.choice(["generic", "planar", "collinear", "single", "coincident", "mirror", "poly", "two"])))
    else:
        x, kind = gen_pointset(rng)
    fixed, scale = place(rng, x)
    mobile, relation, noise, ang = gen_mobile(rng, fixed, scale, "rigid" if rigid else None)
    n = len(fixed)
    mask = gen_mask(rng, n)
    ffix = str(rng.choice(["nd32", "nd64", "atoms"]))
    fmob = str(rng.choice(["nd32", "nd64", "atoms"]))
    Fo, Mo = wrap_form(ffix, fixed), wrap_form(fmob, mobile)
    ctx.log("superimpose", kind, relation, noise, ffix, fmob, fixed.tolist() if n <= 16 else ["seeded", n],
            mobile.tolist() if n <= 16 else ["seeded", n], None if mask is None else mask.tolist())
    ctx.op("set_" + kind)
    ctx.op("relation_" + relation)
    ctx.op("mask_" + ("none" if mask is None else ("single" if mask.sum() == 1 else ("all" if mask.all() else "some"))))
    ctx.op("fixed_" + ffix)
    ctx.op("mobile_" + fmob)
    marg = mask_arg(rng, ctx, mask)
    fitted, tr = superimpose_masked(ctx, Fo, Mo, mask, marg)
    check_same_type(ctx, fitted, Mo, "superimpose")
    ctx.oracle("input_not_mutated")
    if not np.array_equal(coords_of(Fo), fixed.astype(coords_of(Fo).dtype)) or not np.array_equal(coords_of(Mo), mobile.astype(coords_of(Mo).dtype)):
        ctx.fail("input_not_mutated", "superimpose changed its input coordinates")
    ctx.oracle("transformation_shapes")
    if tr.rotation.shape != (1, 3, 3) or tr.center_translation.shape != (1, 3) or tr.target_translation.shape != (1, 3):
        ctx.fail("transformation_shapes", "parts have shapes %s %s %s" % (tr.rotation.shape, tr.center_translation.shape, tr.target_translation.shape))
    M = absmax(fixed) + absmax(mobile)
    tol = K_TOL * E32 * M
    judge_fit(ctx, rng, fixed, mobile, coords_of(fitted), tr.rotation[0], tr.center_translation[0], tr.target_translation[0],
              mask, tol, rigid=(relation == "rigid"))
    judge_apply_matrix(ctx, rng, tr, Mo, fitted, scale)
    if mask is not None and not mask.all() and mask.any():
        # atoms outside the mask may be unresolved (NaN coordinates, the initial value of a new AtomArray): the fit over
        # the masked atoms is the same
        f2, m2 = fixed.copy(), mobile.copy()
        ign = np.nonzero(~mask)[0]
        f2[ign[: max(1, len(ign) // 2)]] = np.nan
        m2[ign[len(ign) // 2:]] = np.nan
        ctx.op("superimpose_unresolved_atoms_outside_mask")
        ctx.oracle("fit_ignores_unmasked_atoms")
        try:
            fitted2, tr2 = struc.superimpose(wrap_form(ffix, f2), wrap_form(fmob, m2), atom_mask=mask)
        except Exception as e:
            ctx.fail("fit_ignores_unmasked_atoms", "superimpose(atom_mask=...) with NaN coordinates in atoms outside the mask raised %s: %s"
                     % (type(e).__name__, e))
        d = np.abs(coords_of(fitted2).astype(np.float64)[mask] - coords_of(fitted).astype(np.float64)[mask]).max()
        within(ctx, "fit_ignores_unmasked_atoms", d, 4 * tol + 1e-30, "fitted masked atoms differ when atoms outside the mask are NaN")
    # rmsd() of the library agrees with the float64 value
    ctx.op("rmsd")
    lib = float(struc.rmsd(Fo, fitted))
    within(ctx, "rmsd_textbook", lib - G.rmsd(fixed, coords_of(fitted)), 8 * E32 * M + 1e-30, "biotite rmsd() vs float64 definition")
    ctx.mark_nontrivial(ang > 0.1)
    ctx.state([kind, relation, mask is None, ffix, fmob, n])


# ====================================================================== stratum: stack
def case_stack(rng, ctx):
    x, kind = gen_pointset(rng)
    n = len(x)
    combo = str(rng.choice(["array_stack", "stack_stack", "stack1_stack", "stack_stack1_ok", "depth_mismatch", "stack_array",
                            "atom_mismatch", "one_vs_many"], p=[.25, .25, .08, .07, .1, .1, .1, .05]))
    m = int(rng.integers(2, 5))
    fixed0, scale = place(rng, x)
    ctx.op("combo_" + combo)
    ffix = str(rng.choice(["nd32", "nd64", "atoms"]))
    fmob = str(rng.choice(["nd32", "nd64", "atoms"]))

    def fixed_stack(depth):
        fs = [fixed0]
        for _ in range(depth - 1):
            fs.append((fixed0.astype(np.float64) + rng.normal(size=fixed0.shape) * scale * 0.1).astype(np.float32))
        return np.stack(fs)

    def mobile_stack(fixed_models):
        return np.stack([gen_mobile(rng, f, scale)[0] for f in fixed_models])

    if combo in ("depth_mismatch", "stack_array", "atom_mismatch", "one_vs_many"):
        if combo == "depth_mismatch":
            m2 = m + int(rng.integers(1, 3))
            fx, mb = fixed_stack(m), mobile_stack(fixed_stack(m2))
        elif combo == "stack_array":
            fx, mb = fixed_stack(m), gen_mobile(rng, fixed0, scale)[0]
            if rng.random() < 0.5:
                mb = mb[None]
        elif combo == "atom_mismatch":
            if n < 2:
                x2, _ = gen_pointset(rng, "generic", 5)
                fixed0, scale = place(rng, x2)
                n = 5
            extra = int(rng.integers(1, 4))
            fx = fixed0 if rng.random() < 0.5 else fixed_stack(m)
            mobf = np.concatenate([fixed0, fixed0[:extra]])
            mb = gen_mobile(rng, mobf, scale)[0]
            if fx.ndim == 3 and rng.random() < 0.7:
                mb = np.stack([mb] * m)
        else:
            fx = fixed0[:1]
            mb = gen_mobile(rng, place(rng, gen_pointset(rng, "generic", 5)[0])[0], scale)[0]
            if rng.random() < 0.5:
                fx, mb = mb, fx
        ctx.log("superimpose!", combo, list(fx.shape), list(mb.shape))
        Fo, Mo = wrap_form(ffix, fx), wrap_form(fmob, mb)
        if combo == "one_vs_many":
            try:
                struc.superimpose(Fo, Mo)
            except (ValueError, IndexError) as e:
                ctx.exc(e)
                ctx.note("one_atom_vs_many_rejected")
            else:
                ctx.note("one_atom_vs_many_silently_broadcast")
            return
        ctx.oracle("mismatch_rejected")
        try:
            res = struc.superimpose(Fo, Mo)
        except (ValueError, IndexError) as e:
            ctx.exc(e)
        else:
            ctx.fail("mismatch_rejected", "superimpose accepted fixed of shape %s with mobile of shape %s and returned coordinates of shape %s"
                     % (list(fx.shape), list(mb.shape), list(coords_of(res[0]).shape)))
        ctx.mark_nontrivial()
        return

    if combo == "array_stack":
        fx = fixed0
        fmodels = [fixed0] * m
    elif combo == "stack1_stack":
        fx = fixed0[None]
        fmodels = [fixed0] * m
    elif combo == "stack_stack1_ok":
        m = 1
        fx = fixed_stack(1)
        fmodels = list(fx)
    else:
        fx = fixed_stack(m)
        fmodels = list(fx)
    mb = mobile_stack(fmodels)
    mask = gen_mask(rng, n)
    Fo, Mo = wrap_form(ffix, fx), wrap_form(fmob, mb)
    ctx.log("superimpose", combo, kind, ffix, fmob, fx.tolist() if fx.size <= 60 else ["seeded", list(fx.shape)],
            mb.tolist() if mb.size <= 60 else ["seeded", list(mb.shape)], None if mask is None else mask.tolist())
    marg = mask_arg(rng, ctx, mask)
    fitted, tr = superimpose_masked(ctx, Fo, Mo, mask, marg)
    check_same_type(ctx, fitted, Mo, "superimpose")
    ctx.oracle("input_not_mutated")
    if not np.array_equal(coords_of(Fo), fx.astype(coords_of(Fo).dtype)) or not np.array_equal(coords_of(Mo), mb.astype(coords_of(Mo).dtype)):
        ctx.fail("input_not_mutated", "superimpose changed its input coordinates (stack)")
    ctx.oracle("transformation_shapes")
    # a single fixed model gives one target translation for all models: (1,3) broadcasts, the statement does not fix the depth
    if tr.rotation.shape != (m, 3, 3) or tr.center_translation.shape != (m, 3) or tr.target_translation.shape not in ((m, 3), (1, 3)):
        ctx.fail("transformation_shapes", "parts have shapes %s %s %s for %d models"
                 % (tr.rotation.shape, tr.center_translation.shape, tr.target_translation.shape, m))
    Y = coords_of(fitted)
    M = absmax(fx) + absmax(mb)
    tol = K_TOL * E32 * M
    for i in range(m):
        ctx.oracle("stack_model_wise")
        judge_fit(ctx, rng, fmodels[i], mb[i], Y[i], tr.rotation[i], tr.center_translation[i],
                  tr.target_translation[i if len(tr.target_translation) > 1 else 0], mask, tol, perturb=(i == 0))
        # model i must be the same as fitting model i alone
        alone, tra = superimpose_masked(ctx, fmodels[i], mb[i], mask, marg)
        sel = slice(None) if mask is None else mask
        r1 = G.rmsd(fmodels[i][sel], Y[i][sel])
        r2 = G.rmsd(fmodels[i][sel], alone[sel])
        within(ctx, "stack_model_wise", r1 - r2, conditioning_budget(ctx, fmodels[i][sel], tol), "model %d fitted inside a stack has another RMSD than fitted alone" % i)
    judge_apply_matrix(ctx, rng, tr, Mo, fitted, scale)
    ctx.op("rmsd_stack")
    lib = np.asarray(struc.rmsd(wrap_form("nd32", fixed0), fitted), np.float64)
    ref = np.array([G.rmsd(fixed0, Y[i]) for i in range(m)])
    within(ctx, "rmsd_textbook", lib - ref, 8 * E32 * M + 1e-30, "biotite rmsd() on a stack vs float64 definition")
    ctx.mark_nontrivial()
    ctx.state([combo, kind, mask is None, ffix, fmob, m])


# ====================================================================== stratum: transform_api
def case_transform_api(rng, ctx):
    m = int(rng.choice([1, 1, 2, 3, 4]))
    n = int(rng.integers(1, 9))
    scale = 10.0 ** rng.uniform(-1, 2)
    pdt = np.float32 if rng.random() < 0.5 else np.float64
    Rs = np.stack([G.quat_rotation(rng) for _ in range(m)]).astype(pdt)
    ct = (rng.normal(size=(m, 3)) * scale * 10.0 ** rng.uniform(-1, 2)).astype(pdt)
    tt = (rng.normal(size=(m, 3)) * scale * 10.0 ** rng.uniform(-1, 2)).astype(pdt)
    if rng.random() < 0.2:
        # an axis-aligned rotation / symmetry operation written with integer entries (as in the class docstring), next to
        # non-integral translations
        mats = []
        for _ in range(m):
            while True:
                P = np.zeros((3, 3), dtype=np.int64)
                for r_, c_ in enumerate(rng.permutation(3)):
                    P[r_, int(c_)] = int(rng.choice([-1, 1]))
                if round(float(np.linalg.det(P))) == 1:
                    break
            mats.append(P)
        Rs = np.stack(mats).astype(np.int64 if rng.random() < 0.5 else np.int32)
        ctx.op("api_integer_rotation")
    squeeze = m == 1 and rng.random() < 0.5
    tr = AffineTransformation(ct[0] if squeeze else ct, Rs[0] if squeeze else Rs, tt[0] if squeeze else tt)
    ctx.oracle("transformation_shapes")
    if tr.rotation.shape != (m, 3, 3) or tr.center_translation.shape != (m, 3) or tr.target_translation.shape != (m, 3):
        ctx.fail("transformation_shapes", "constructor does not expand the parts to (m,3)/(m,3,3)")
    x = (rng.normal(size=(m, n, 3)) * scale).astype(np.float32)
    shape_kind = "stack" if m > 1 or rng.random() < 0.5 else "array"
    arg32 = x if shape_kind == "stack" else x[0]
    form = str(rng.choice(["nd32", "nd64", "atoms"]))
    arg = wrap_form(form, arg32)
    ctx.log("AffineTransformation.apply", pdt.__name__, ct.tolist(), Rs.tolist(), tt.tolist(), form, arg32.tolist())
    ctx.op("api_apply_" + form)
    out = tr.apply(arg)
    check_same_type(ctx, out, arg, "apply")
    o = coords_of(out).astype(np.float64).reshape(m, n, 3)
    ref = np.einsum("mij,mnj->mni", Rs.astype(np.float64), x.astype(np.float64) + ct.astype(np.float64)[:, None, :]) + tt.astype(np.float64)[:, None, :]
    mag = absmax(x) + absmax(ct) + absmax(tt)
    within(ctx, "apply_textbook", np.sqrt(((o - ref) ** 2).sum(-1)), K_TOL * E32 * mag, "apply(x) vs R (x + c) + t in float64")
    judge_apply_matrix(ctx, rng, tr, arg, out, scale)
    ctx.oracle("input_not_mutated")
    if not np.array_equal(coords_of(arg).astype(np.float64), arg32.astype(np.float64)):
        ctx.fail("input_not_mutated", "apply changed its input")
    ctx.mark_nontrivial()
    ctx.state([m, form, shape_kind, pdt.__name__])
    # documented rejections
    if rng.random() < 0.4:
        ctx.oracle("mismatch_rejected")
        bad = (rng.normal(size=(m + 1, n, 3))).astype(np.float32)
        for what, a, excs in (("apply on %d models with %d transformations" % (m + 1, m), bad, (IndexError,)),
                              ("apply on a single position (1-D)", np.zeros(3, np.float32), (ValueError,)),
                              ("apply on a 4-D array", np.zeros((1, 1, 2, 3), np.float32), (ValueError,))):
            try:
                r = tr.apply(a)
            except excs as e:
                ctx.exc(e)
            else:
                ctx.fail("mismatch_rejected", "%s was accepted (result shape %s)" % (what, list(np.shape(r))))
        if m > 1:
            try:
                r = tr.apply(x[0])
            except IndexError as e:
                ctx.exc(e)
            else:
                ctx.fail("mismatch_rejected", "apply of %d transformations on a single model was accepted" % m)


# ====================================================================== stratum: outliers
def judge_anchor_fit(ctx, oracle, fixed_models, mobile_models, fitted_models, fidx, midx, tol0):
    for F, Mo, Y in zip(fixed_models, mobile_models, fitted_models):
        tol = conditioning_budget(ctx, F[fidx], tol0)
        ssd, _ = G.kabsch_optimum(F[fidx], Mo[midx])
        opt = np.sqrt(ssd / len(fidx))
        got = G.rmsd(F[fidx], np.asarray(Y, np.float64)[midx])
        within(ctx, oracle, max(got - opt, 0.0), tol,
               "RMSD over the returned anchors %.9g exceeds the optimal fit of exactly these anchors %.9g" % (got, opt))


def case_outliers(rng, ctx):
    x, kind = gen_pointset(rng, kind=str(rng.choice(["generic", "generic", "generic", "planar", "mirror", "collinear"])),
                           n=int(rng.choice([1, 2, 3, 4, 6, 10, 20, 40, 60])))
    n = len(x)
    fixed0, scale = place(rng, x)
    m = int(rng.choice([0, 0, 1, 2, 3]))            # 0: plain arrays
    depth = max(m, 1)
    fixed_is_stack = m > 0 and rng.random() < 0.5
    fmodels, mmodels = [], []
    for i in range(depth):
        f = fixed0 if (i == 0 or not fixed_is_stack) else (fixed0.astype(np.float64) + rng.normal(size=fixed0.shape) * 0.05 * scale).astype(np.float32)
        mob, rel, noise, ang = gen_mobile(rng, f, scale, str(rng.choice(["noisy", "noisy", "rigid", "mirror"])))
        nout = int(rng.integers(0, max(1, int(0.4 * n)) + 1))
        if nout:
            idx = rng.choice(n, size=nout, replace=False)
            mob = mob.copy()
            mob[idx] += (rng.normal(size=(nout, 3)) * scale * 10.0 ** rng.uniform(-0.5, 1.5)).astype(np.float32)
        fmodels.append(f)
        mmodels.append(mob)
    fx = np.stack(fmodels) if fixed_is_stack else fixed0
    mb = np.stack(mmodels) if m > 0 else mmodels[0]
    kw = {}
    if rng.random() < 0.6:
        kw["min_anchors"] = int(rng.choice([1, 2, 3, 5, 10, 100]))
    if rng.random() < 0.6:
        kw["max_iterations"] = int(rng.choice([0, 1, 2, 3, 10, 50], p=[.08, .2, .2, .2, .2, .12]))
    if rng.random() < 0.4:
        q = sorted(rng.uniform(0, 1, size=2).tolist())
        kw["quantiles"] = tuple(q) if rng.random() < 0.5 else (q[1], q[0])
    if rng.random() < 0.4:
        kw["outlier_threshold"] = float(rng.choice([0.0, 0.5, 1.5, 3.0, 10.0]))
    ffix = str(rng.choice(["nd32", "nd64", "atoms"]))
    fmob = str(rng.choice(["nd32", "nd64", "atoms"]))
    Fo, Mo = wrap_form(ffix, fx), wrap_form(fmob, mb)
    ctx.log("superimpose_without_outliers", kind, kw, ffix, fmob, fx.tolist() if fx.size <= 60 else ["seeded", list(fx.shape)],
            mb.tolist() if mb.size <= 60 else ["seeded", list(mb.shape)])
    ctx.op("outliers_" + ("stack" if m else "array"))
    if kw.get("max_iterations", 10) < 1:
        ctx.oracle("bad_argument_rejected")
        try:
            struc.superimpose_without_outliers(Fo, Mo, **kw)
        except ValueError as e:
            ctx.exc(e)
        else:
            ctx.fail("bad_argument_rejected", "max_iterations=0 was accepted")
        return
    fitted, tr, anchors = struc.superimpose_without_outliers(Fo, Mo, **kw)
    check_same_type(ctx, fitted, Mo, "superimpose_without_outliers")
    anchors = np.asarray(anchors)
    ctx.oracle("anchors_valid")
    if anchors.ndim != 1 or anchors.dtype.kind not in "iu" or len(anchors) < 1 or (np.diff(anchors) <= 0).any() \
            or anchors.min() < 0 or anchors.max() >= n:
        ctx.fail("anchors_valid", "anchor indices %r are not a strictly increasing subset of range(%d)" % (anchors.tolist(), n))
    mi = kw.get("min_anchors", 3)
    ctx.oracle("min_anchors_respected")
    if len(anchors) < min(mi, n):
        ctx.fail("min_anchors_respected", "%d anchors returned with min_anchors=%d and %d atoms" % (len(anchors), mi, n))
    if kw.get("max_iterations", 10) == 1 and len(anchors) != n:
        ctx.fail("anchors_valid", "max_iterations=1 (documented: no outlier removal) returned %d of %d atoms as anchors" % (len(anchors), n))
    Y = coords_of(fitted).reshape(depth, n, 3)
    M = absmax(fx) + absmax(mb)
    tol = K_TOL * E32 * M
    for i in range(depth):
        judge_rotation(ctx, tr.rotation[i])
    judge_anchor_fit(ctx, "anchor_fit_optimal", [f.astype(np.float64) for f in fmodels], [q.astype(np.float64) for q in mmodels], Y, anchors, anchors, tol)
    judge_apply_matrix(ctx, rng, tr, Mo, fitted, scale)
    ctx.mark_nontrivial(len(anchors) < n or n > 3)
    ctx.state([kind, m, fixed_is_stack, sorted(kw), len(anchors) < n])


# ====================================================================== stratum: homologs
_PEP = ["ALA", "GLY", "ALA", "GLY", "XAA", "XDP"]
_NUC = ["A", "U", "A", "U", "DX"]


def build_chains(rng, seqs, nucleic, full_backbone, depth, scale=3.8):
    """AtomArray / stack with one anchor atom (CA or P) per residue (+ optional further backbone atoms).
    Returns (atoms, anchor positions list, per-residue anchor atom index)."""
    names, resn, resid, chain = [], [], [], []
    anchor_idx = []
    for ci, seq in enumerate(seqs):
        for ri, rn in enumerate(seq):
            atoms_r = (["P", "C4'"] if nucleic else ["N", "CA", "C"]) if full_backbone else (["P"] if nucleic else ["CA"])
            for a in atoms_r:
                if a in ("CA", "P"):
                    anchor_idx.append(len(names))
                names.append(a)
                resn.append(rn)
                resid.append(ri + 1)
                chain.append("ABCD"[ci])
    N = len(names)
    arr = struc.AtomArrayStack(depth, N) if depth else struc.AtomArray(N)
    arr.atom_name = np.array(names)
    arr.res_name = np.array(resn)
    arr.res_id = np.array(resid)
    arr.chain_id = np.array(chain)
    arr.element = np.array([a[0] for a in names])
    arr.hetero = np.zeros(N, dtype=bool)
    return arr, np.array(anchor_idx)


def case_homologs(rng, ctx):
    if not CCD_OK:
        ctx.inconclusive("synthetic component dictionary fixture not available")
    nucleic = rng.random() < 0.3
    alphabet = _NUC if nucleic else _PEP
    nchains = int(rng.choice([1, 1, 2]))
    full = rng.random() < 0.4
    depth = int(rng.choice([0, 0, 0, 2]))
    fseqs, mseqs, maps = [], [], []
    for _ in range(nchains):
        L = int(rng.choice([2, 3, 5, 8, 12, 20, 30]))
        fs = [str(rng.choice(alphabet)) for _ in range(L)]
        ms, mp = [], []               # mp: for every mobile residue the fixed residue it derives from or -1
        for i, r in enumerate(fs):
            u = rng.random()
            if u < 0.08 and L > 3:
                continue                                   # deletion
            if u < 0.18:
                ms.append(str(rng.choice(alphabet)))       # substitution
            else:
                ms.append(r)
            mp.append(i)
            if rng.random() < 0.06:
                ms.append(str(rng.choice(alphabet)))       # insertion
                mp.append(-1)
        fseqs.append(fs)
        mseqs.append(ms)
        maps.append(mp)
    fatoms, fanch = build_chains(rng, fseqs, nucleic, full, depth)
    matoms, manch = build_chains(rng, mseqs, nucleic, full, depth)
    d = max(depth, 1)
    NF, NM = fatoms.array_length(), matoms.array_length()
    # fixed coordinates: a random walk per chain, other backbone atoms near their anchor
    fc = np.zeros((d, NF, 3))
    mc = np.zeros((d, NM, 3))
    per_res = NF // sum(len(s) for s in fseqs)
    noise = float(rng.choice([0.0, 0.05, 0.5, 1.5]))
    for k in range(d):
        walk = np.cumsum(rng.normal(size=(len(fanch), 3)) * 2.2, axis=0) + rng.normal(size=3) * 10.0 ** rng.uniform(0, 3)
        fres = np.repeat(walk, per_res, axis=0) + rng.normal(size=(NF, 3)) * 0.8 * (per_res > 1)
        fc[k] = fres
        R, t = G.quat_rotation(rng), rng.normal(size=3) * 10.0 ** rng.uniform(0, 2.5)
        rows, off = [], 0
        for ci, mp in enumerate(maps):
            for src in mp:
                if src >= 0:
                    a0 = (off + src) * per_res
                    rows.append(fres[a0:a0 + per_res] + rng.normal(size=(per_res, 3)) * noise)
                else:
                    rows.append(walk[min(off, len(walk) - 1)] + rng.normal(size=(per_res, 3)) * 5.0)
            off += len(fseqs[ci])
        mres = np.concatenate(rows)
        if rng.random() < 0.5 and len(mres) > 6:
            idx = rng.choice(len(mres) // per_res, size=max(1, len(mres) // per_res // 6), replace=False)
            for i in idx:
                mres[i * per_res:(i + 1) * per_res] += rng.normal(size=3) * 15.0           # conformational outliers
        cm = mres.mean(axis=0)
        mc[k] = G.move(mres - cm, R) + cm + t
    fatoms.coord = fc.astype(np.float32) if depth else fc[0].astype(np.float32)
    matoms.coord = mc.astype(np.float32) if depth else mc[0].astype(np.float32)
    kw = {}
    if rng.random() < 0.4:
        kw["min_anchors"] = int(rng.choice([1, 2, 3, 5, 50]))
    if rng.random() < 0.3:
        kw["gap_penalty"] = (-10, -1) if rng.random() < 0.5 else int(rng.choice([-5, -20]))
    if rng.random() < 0.3:
        kw["terminal_penalty"] = True
    if rng.random() < 0.3:
        kw["substitution_matrix"] = "NUC" if nucleic else str(rng.choice(["BLOSUM62", "PAM250"]))
    if rng.random() < 0.3:
        kw["max_iterations"] = int(rng.choice([1, 3, 10]))
    if rng.random() < 0.2:
        kw["outlier_threshold"] = float(rng.choice([0.5, 3.0]))
    ctx.log("superimpose_homologs", "nucleic" if nucleic else "peptide", fseqs, mseqs, full, depth, kw,
            fatoms.coord.tolist() if fatoms.coord.size <= 90 else "seeded", matoms.coord.tolist() if matoms.coord.size <= 90 else "seeded")
    ctx.op("homologs_" + ("nucleic" if nucleic else "peptide"))
    ctx.op("homologs_chains_%d" % nchains)
    try:
        fitted, tr, fidx, midx = struc.superimpose_homologs(fatoms, matoms, **kw)
    except ValueError as e:
        # documented refusals: too few backbone atoms for min_anchors; fallback with unequal anchor counts
        msg = str(e)
        ctx.exc(e)
        ctx.oracle("homolog_refusal_documented")
        if "too few backbone atoms" in msg:
            ok = min(len(fanch), len(manch)) < kw.get("min_anchors", 3)
        elif "fallback" in msg:
            ok = len(fanch) != len(manch)
        elif "do not fit the matrix" in msg:
            # a matrix given by name is instantiated for the alphabet of the first chain pair and reused for the next
            # chain, whose alphabet may differ (A/U only vs. one with the ambiguous DX): a refusal, not a fit - observed only
            ok = isinstance(kw.get("substitution_matrix"), str)
            ctx.note("homologs_named_matrix_refused_for_second_chain_alphabet")
        else:
            ok = False
        if not ok:
            ctx.fail("homolog_refusal_documented", "superimpose_homologs refused with %r (fixed %d / mobile %d anchor atoms, %r)"
                     % (msg, len(fanch), len(manch), kw))
        ctx.note("homologs_refused")
        return
    check_same_type(ctx, fitted, matoms, "superimpose_homologs")
    fidx, midx = np.asarray(fidx), np.asarray(midx)
    ctx.oracle("anchors_valid")
    if fidx.shape != midx.shape or fidx.ndim != 1 or len(fidx) < 1:
        ctx.fail("anchors_valid", "anchor index arrays have shapes %s and %s" % (list(fidx.shape), list(midx.shape)))
    if not np.isin(fidx, fanch).all() or not np.isin(midx, manch).all():
        ctx.fail("anchors_valid", "anchor indices do not all point to %s atoms" % ("P" if nucleic else "CA"))
    if (np.diff(fidx) <= 0).any() or (np.diff(midx) <= 0).any():
        ctx.fail("anchors_valid", "anchor indices are not strictly increasing: %r %r" % (fidx.tolist(), midx.tolist()))
    Y = coords_of(fitted).reshape(d, NM, 3)
    F = fatoms.coord.reshape(d, NF, 3).astype(np.float64)
    Mo = matoms.coord.reshape(d, NM, 3).astype(np.float64)
    tol = K_TOL * E32 * (absmax(F) + absmax(Mo))
    for i in range(d):
        judge_rotation(ctx, tr.rotation[i])
    judge_anchor_fit(ctx, "homolog_anchor_fit_optimal", F, Mo, Y, fidx, midx, tol)
    judge_apply_matrix(ctx, rng, tr, matoms, fitted, 10.0)
    ctx.mark_nontrivial(len(fidx) >= 3)
    ctx.state([nucleic, nchains, full, depth, sorted(kw), len(fidx)])


# ====================================================================== dispatch
def run_case(stratum, rng, ctx):
    if stratum == "fit":
        case_fit(rng, ctx)
    elif stratum == "rigid_copy":
        case_fit(rng, ctx, rigid=True)
    elif stratum == "stack":
        case_stack(rng, ctx)
    elif stratum == "transform_api":
        case_transform_api(rng, ctx)
    elif stratum == "outliers":
        case_outliers(rng, ctx)
    else:
        case_homologs(rng, ctx)


# ====================================================================== oracle audit
def _search_optimum(F, Mo, rng, rounds=6):
    """Numerical minimum of the SSD over proper rigid motions: centred sets, best of many random rotations refined
    by shrinking random perturbations (independent of the SVD formula)."""
    A = F - F.mean(axis=0)
    B = Mo - Mo.mean(axis=0)

    def ssd(R):
        return float((((B @ R.T) - A) ** 2).sum())
    best_R, best = np.eye(3), ssd(np.eye(3))
    for _ in range(400):
        R = G.quat_rotation(rng)
        s = ssd(R)
        if s < best:
            best_R, best = R, s
    for lo, hi in ((-1, 0), (-2, -1), (-3, -2), (-4, -3), (-5, -4), (-6, -5))[:rounds]:
        for _ in range(6):
            Q = G.small_rotations(rng, 300, lo, hi)
            cand = np.einsum("kij,jl->kil", Q, best_R)
            s = (((np.einsum("kij,nj->kni", cand, B)) - A[None]) ** 2).sum(axis=(1, 2))
            k = int(np.argmin(s))
            if s[k] < best:
                best_R, best = cand[k], float(s[k])
    return best


def selftest(ctx):
    rng = np.random.default_rng(16)
    # closed form vs numerical search, incl. mirror images (reflection sign) and rank-deficient sets
    for kind in ("generic", "generic", "planar", "collinear", "mirror", "poly", "two", "single", "coincident"):
        for relation in ("noisy", "mirror", "unrelated", "rigid"):
            x, _ = gen_pointset(rng, kind, 6)
            f32, scale = place(rng, x, 3.0)
            m32 = gen_mobile(rng, f32, scale, relation)[0]
            F, Mo = f32.astype(np.float64), m32.astype(np.float64)
            ssd, e0 = G.kabsch_optimum(F, Mo)
            num = _search_optimum(F, Mo, rng)
            assert ssd <= num + 1e-9 * max(e0, 1), (kind, relation, ssd, num)         # nothing found below the closed form
            assert num <= ssd + 1e-4 * max(e0, 1e-12) + 1e-9, (kind, relation, ssd, num)   # and the closed form is attained
    # a mirror image of a chiral set cannot be fitted to zero by a proper rotation, an improper one could
    x = np.array([[0, 0, 0], [1, 0, 0], [0, 2, 0], [0, 0, 3.0]])
    ssd, _ = G.kabsch_optimum(x, x * np.array([1, 1, -1]))
    assert ssd > 0.5
    ssd, _ = G.kabsch_optimum(x, G.move(x, G.quat_rotation(rng), [5, 6, 7]))
    assert ssd < 1e-10
    assert abs(G.rmsd([[0, 0, 0], [0, 0, 0]], [[3, 4, 0], [0, 0, 0]]) - np.sqrt(12.5)) < 1e-12
    Q = G.small_rotations(rng, 50)
    assert np.abs(Q @ np.swapaxes(Q, 1, 2) - np.eye(3)).max() < 1e-12 and np.abs(np.linalg.det(Q) - 1).max() < 1e-12


def _probe_elongated(ctx):
    """Rigid copies of nearly collinear sets (perpendicular extent ~ sqrt(eps32) x length)."""
    rng = np.random.default_rng(1601)
    for i in range(60):
        n = int(rng.integers(3, 8))
        L = 10.0 ** rng.uniform(1, 2.5)
        x = np.zeros((n, 3))
        x[:, 0] = rng.uniform(-1, 1, size=n) * L
        x[:, 1:] = rng.normal(size=(n, 2)) * L * 10.0 ** rng.uniform(-4.2, -3.2)
        fixed = (x @ G.quat_rotation(rng).T).astype(np.float32)
        mobile = gen_mobile(rng, fixed, L, "rigid")[0]
        ctx.log("superimpose", fixed.tolist(), mobile.tolist())
        ctx.op("probe_elongated")
        fitted, tr = struc.superimpose(fixed, mobile)
        judge_rotation(ctx, tr.rotation[0])
        got = G.rmsd(fixed, fitted)
        within(ctx, "rigid_copy_rmsd_zero", got, K_TOL * E32 * (absmax(fixed) + absmax(mobile)),
               "rigid copy of a nearly collinear set is not fitted onto the original (RMSD %.6g)" % got)


PROBES = {TRIGGER_ELONGATED: _probe_elongated}
