"""C17  Residue, chain and molecule segmentation equals per-atom recomputation.

Monitor: differential oracle on every generated input.  The reference is a
per-atom recomputation with plain Python loops (segment number of every atom,
everything else derived from that list) and an independent union-find for the
bond graphs.  The workload runs in the ASan/UBSan build of the generated C
(`bonds.c`: `find_connected` / `_find_connected`); the process-exit monitor of the
runner watches the C-level recursion on long bond paths.
"""

import numpy as np

ID = "C17"
FLAVOUR = "san"
LEVEL = "exploration"
THOROUGH_MULT = 3.0       # deepens the sampled strata of the thorough tier (measured: about ten minutes on 16 cores)
RULE = (
    "seeded generator.  Annotation strata: AtomArray / AtomArrayStack of 0-40 (occasionally up to 200, thorough: up to 1500) atoms whose "
    "chain_id / res_id / ins_code / res_name are walked from a 3-4 letter vocabulary (a step changes a random subset of "
    "the four fields, possibly to the same value) plus forced modes: single-atom residues, one residue, name change "
    "only, insertion code only, same res_id in neighbouring chains, decreasing ids, empty array; every public "
    "residue_* / chain_* function and the generic segment_* functions (random sorted `starts`) are compared with a "
    "per-atom recomputation; index arrays are numpy int8..int64/uint, list, tuple, empty, repeated, all atoms; the "
    "index_arrays stratum forces indices n, n+1, 2^31, 2^40, -1, -n-1 which must raise ValueError/IndexError; "
    "reducing functions return python/numpy scalars, 0-d/1-d/2-d arrays and strings.  Molecule strata: random "
    "sparse/dense graphs, rings, stars, paths with permuted labels, forests, isolated atoms, self bonds on 0-24 atoms "
    "(every root, as index array and as mask, BondList / AtomArray / AtomArrayStack input) and large graphs (paths, "
    "rings, combs, grids, deep random trees, stars, dense graphs, many small molecules) of 10^3 .. 4x10^3 atoms per component (10^4 and "
    "3x10^4 as soon as the `deep_bond_path` trigger is not quarantined).  A case is non-trivial when it has at least "
    "two segments / one bond; distinct = distinct digest of the logged inputs."
)
STRATA = {
    "residue_views": (10000, 250000),
    "chain_views": (10000, 250000),
    "segment_generic": (6000, 120000),
    "index_arrays": (6000, 120000),
    "molecules_small": (6000, 120000),
    "molecules_large": (96, 1500),
}
# functions that must leave their arguments untouched (vf.core.PurityMonitor; '!' = the object itself is watched too)
PURE = [
    "biotite.structure.residues:get_residue_starts",
    "biotite.structure.residues:get_residue_starts_for",
    "biotite.structure.residues:get_residue_masks",
    "biotite.structure.residues:get_residue_positions",
    "biotite.structure.residues:apply_residue_wise",
    "biotite.structure.residues:spread_residue_wise",
    "biotite.structure.residues:get_residues",
    "biotite.structure.residues:get_residue_count",
    "biotite.structure.chains:get_chain_starts",
    "biotite.structure.chains:get_chain_starts_for",
    "biotite.structure.chains:get_chain_masks",
    "biotite.structure.chains:get_chain_positions",
    "biotite.structure.chains:apply_chain_wise",
    "biotite.structure.chains:spread_chain_wise",
    "biotite.structure.chains:get_chains",
    "biotite.structure.chains:get_chain_count",
    "biotite.structure.molecules:get_molecule_indices",
    "biotite.structure.molecules:get_molecule_masks",
    "biotite.structure.bonds:find_connected",
]
REQUIRED_ORACLES = [
    "starts_vs_recomputation",
    "masks_vs_recomputation",
    "starts_for_vs_recomputation",
    "positions_vs_recomputation",
    "count_names_vs_recomputation",
    "iter_vs_recomputation",
    "concat_reproduces_array",
    "apply_vs_recomputation",
    "spread_vs_recomputation",
    "index_rejected",
    "components_vs_union_find",
    "find_connected_vs_union_find",
]
ANCHORS = [
    "biotite.structure.residues:get_residue_starts",
    "biotite.structure.residues:apply_residue_wise",
    "biotite.structure.residues:spread_residue_wise",
    "biotite.structure.residues:get_residue_masks",
    "biotite.structure.residues:get_residue_starts_for",
    "biotite.structure.residues:get_residue_positions",
    "biotite.structure.residues:get_residues",
    "biotite.structure.residues:get_residue_count",
    "biotite.structure.residues:residue_iter",
    "biotite.structure.chains:get_chain_starts",
    "biotite.structure.chains:apply_chain_wise",
    "biotite.structure.chains:spread_chain_wise",
    "biotite.structure.chains:get_chain_masks",
    "biotite.structure.chains:get_chain_starts_for",
    "biotite.structure.chains:get_chain_positions",
    "biotite.structure.chains:get_chains",
    "biotite.structure.chains:get_chain_count",
    "biotite.structure.chains:chain_iter",
    "biotite.structure.segments:apply_segment_wise",
    "biotite.structure.segments:spread_segment_wise",
    "biotite.structure.segments:get_segment_masks",
    "biotite.structure.segments:get_segment_starts_for",
    "biotite.structure.segments:get_segment_positions",
    "biotite.structure.segments:segment_iter",
    "biotite.structure.molecules:get_molecule_indices",
    "biotite.structure.molecules:get_molecule_masks",
    "biotite.structure.molecules:molecule_iter",
]
ASSUMPTIONS = [
    "order of the molecules in get_molecule_indices/_masks/molecule_iter and order of the atoms inside one index array "
    "are not part of the statement (compared as a set of atom sets; the partition itself is exact)",
    "find_connected(as_mask=True) is judged by content (np.asarray(result) != 0); that it returns a uint8 Cython "
    "memoryview instead of the documented boolean ndarray is counted as an observation, not judged",
    "generic segment_* functions are called with strictly increasing `starts` that begin with 0 and end with the "
    "exclusive stop (what get_residue_starts/get_chain_starts produce and the docstrings describe)",
    "reducing functions return the same shape and dtype for every segment (documented precondition of apply_*_wise)",
    "float results of reducing functions are compared with rtol 1e-9 (the statement is not about rounding)",
    "res_id values stay within +-10^6 in the clean strata (differences of ids beyond the int64 range are the "
    "`res_id_span_overflows_int64` trigger class)",
    "a negative root for find_connected may either be rejected (OverflowError/ValueError/IndexError) or be "
    "interpreted like a Python index; the docs are silent",
    "the worker's soft stack limit is pinned to 8 MiB (the usual default) so that the recursion-depth class is "
    "deterministic; clean strata keep every connected component <= 4000 atoms while `deep_bond_path` is quarantined "
    "(measured with an 8 MiB stack: the ASan build of _find_connected recurses 6800 deep and overflows at 7000, "
    "the gcc -O1 build 16000 / 16500, the installed module 64000 / 66000)",
]
MIN_CASES_PER_WORKER = 40
MANIFEST = {
    "technique": "differential runtime oracle: every residue_*/chain_*/segment_* view and every molecule function is "
                 "compared with a per-atom Python recomputation / independent union-find on generated annotation "
                 "patterns, index arrays, reducing functions and bond graphs; ASan/UBSan build of bonds.c; "
                 "process-exit monitor for the C-level recursion of _find_connected",
    "level_text": "Runtime monitoring: thousands of generated atom arrays (small annotation vocabulary so that "
                  "coincidences are frequent; empty arrays, single-atom residues, insertion codes, decreasing ids) and "
                  "bond graphs (random, rings, stars, isolated atoms, paths up to the largest size the sanitizer build "
                  "can recurse through) are pushed through the real functions while plain-Python loops and a "
                  "union-find recompute every answer; invalid index arrays must be rejected with "
                  "ValueError/IndexError; worker deaths and sanitizer reports are violations.  "
                  "Held-on-what-was-observed, not a proof.",
    "level_note": "Trusts the per-atom model (audited in selftest against an exhaustive enumeration of all annotation "
                  "sequences of length <= 3 over a 2-letter vocabulary and of all 64 graphs on 4 atoms against a "
                  "transitive closure), numpy, and that the generated bonds.c corresponds to bonds.pyx.  Order of "
                  "molecules is not judged.  Trigger classes deep_bond_path (components above 4000 atoms, S18), "
                  "str_scalar_result (S19), empty_array_exclusive_stop, empty_array_apply and "
                  "res_id_span_overflows_int64 are quarantined into probes while listed as known findings.",
    "design_ref": "DESIGN.md section 6, C17",
}

SAFE_COMPONENT = 4000          # largest component in the clean strata while `deep_bond_path` is quarantined
STACK_BYTES = 8 * 1024 * 1024

struc = None
segs = None

CHAINS = ["A", "B", "AB", ""]
RES_IDS = [1, 2, 3, -1, 0, 10]
INS = ["", "A", "B"]
NAMES = ["ALA", "GLY", "AL", "HOH"]


def setup(ctx):
    global struc, segs
    import importlib
    import resource
    import biotite.structure as struc_
    struc = struc_
    segs = importlib.import_module("biotite.structure.segments")
    # deterministic recursion-depth class: pin the soft stack limit to the usual 8 MiB
    try:
        soft, hard = resource.getrlimit(resource.RLIMIT_STACK)
        want = STACK_BYTES if hard == resource.RLIM_INFINITY else min(STACK_BYTES, hard)
        if soft != want:
            resource.setrlimit(resource.RLIMIT_STACK, (want, hard))
            ctx.note("stack_limit_pinned_to_8MiB")
    except (ValueError, OSError):
        ctx.note("stack_limit_not_changed")


# ====================================================================== reference model
def ref_segments(kind, ch, rid, ins, name):
    """Segment number of every atom, one atom at a time."""
    seg = []
    s = -1
    for i in range(len(ch)):
        if i == 0:
            new = True
        elif kind == "residue":
            new = ch[i] != ch[i - 1] or rid[i] != rid[i - 1] or ins[i] != ins[i - 1] or name[i] != name[i - 1]
        else:
            new = ch[i] != ch[i - 1] or rid[i] < rid[i - 1]
        if new:
            s += 1
        seg.append(s)
    return seg


def ref_segments_from_starts(starts):
    """starts includes the exclusive stop; segment of atom i = number of starts <= i, minus one."""
    n = starts[-1]
    seg = []
    for i in range(n):
        c = 0
        for s in starts[:-1]:
            if s <= i:
                c += 1
        seg.append(c - 1)
    return seg


def ref_starts(seg):
    return [i for i in range(len(seg)) if i == 0 or seg[i] != seg[i - 1]]


def ref_members(seg):
    """list (per segment) of the atom indices in it"""
    out = []
    for i, s in enumerate(seg):
        while len(out) <= s:
            out.append([])
        out[s].append(i)
    return out


class UnionFind:
    def __init__(self, n):
        self.p = list(range(n))

    def find(self, a):
        p = self.p
        r = a
        while p[r] != r:
            r = p[r]
        while p[a] != r:
            p[a], a = r, p[a]
        return r

    def union(self, a, b):
        ra, rb = self.find(a), self.find(b)
        if ra != rb:
            if ra < rb:
                self.p[rb] = ra
            else:
                self.p[ra] = rb


def ref_components(n, edges):
    """dict root -> sorted list of atoms, and list comp_of_atom"""
    uf = UnionFind(n)
    for e in edges:
        uf.union(int(e[0]), int(e[1]))
    comp = {}
    of = []
    for a in range(n):
        r = uf.find(a)
        comp.setdefault(r, []).append(a)
        of.append(r)
    return comp, of


# ====================================================================== helpers
def _tolist(x):
    return x.tolist() if isinstance(x, np.ndarray) else list(x)


def _is_int_array(x):
    return isinstance(x, np.ndarray) and x.dtype.kind in "iu"


def make_array(rng, n, ch, rid, ins, name, stack_depth=0):
    if stack_depth:
        arr = struc.AtomArrayStack(stack_depth, n)
        arr.coord = (np.arange(n, dtype=np.float32)[None, :, None]
                     + np.arange(stack_depth, dtype=np.float32)[:, None, None] / 16
                     + np.zeros(3, dtype=np.float32))
    else:
        arr = struc.AtomArray(n)
        arr.coord = np.arange(n, dtype=np.float32)[:, None] + np.array([0.0, 0.25, 0.5], dtype=np.float32)
    arr.chain_id = np.array(ch, dtype="U4")
    arr.res_id = np.array(rid, dtype=np.int64)
    arr.ins_code = np.array(ins, dtype="U1")
    arr.res_name = np.array(name, dtype="U5")
    arr.set_annotation("uid", np.arange(n, dtype=np.int64))
    return arr


def gen_annotations(rng, n, mode):
    ch, rid, ins, name = [], [], [], []
    cur = [CHAINS[int(rng.integers(2))], RES_IDS[int(rng.integers(3))], "", NAMES[int(rng.integers(len(NAMES)))]]
    stay = float(rng.choice([0.0, 0.3, 0.6, 0.85]))
    for i in range(n):
        if i > 0:
            if mode == "one_residue":
                pass
            elif mode == "single_atom":
                # every atom differs from its predecessor in exactly one field
                f = int(rng.integers(4))
                voc = (CHAINS, RES_IDS, INS, NAMES)[f]
                cur[f] = voc[(voc.index(cur[f]) + 1 + int(rng.integers(len(voc) - 1))) % len(voc)]
            elif mode == "name_only":
                if rng.random() > stay:
                    cur[3] = NAMES[int(rng.integers(len(NAMES)))]
            elif mode == "ins_only":
                if rng.random() > stay:
                    cur[2] = INS[int(rng.integers(len(INS)))]
            elif mode == "same_resid_next_chain":
                if rng.random() > stay:
                    cur[0] = CHAINS[int(rng.integers(len(CHAINS)))]
            elif mode == "decreasing":
                if rng.random() > stay:
                    cur[1] = cur[1] - int(rng.integers(0, 3))
            elif mode == "increasing":
                if rng.random() > stay:
                    cur[1] = cur[1] + int(rng.integers(0, 3))
            else:  # walk
                if rng.random() > stay:
                    k = int(rng.choice([1, 1, 1, 2, 3, 4]))
                    for f in rng.permutation(4)[:k]:
                        voc = (CHAINS, RES_IDS, INS, NAMES)[int(f)]
                        cur[int(f)] = voc[int(rng.integers(len(voc)))]
        ch.append(cur[0]); rid.append(int(cur[1])); ins.append(cur[2]); name.append(cur[3])
    return ch, rid, ins, name


MODES = ["walk", "walk", "walk", "walk", "single_atom", "one_residue", "name_only", "ins_only",
         "same_resid_next_chain", "decreasing", "increasing"]


def gen_n(rng, tier="quick"):
    r = rng.random()
    if tier == "thorough" and r > 0.995:
        return int(rng.integers(201, 1501))
    if r < 0.04:
        return 0
    if r < 0.10:
        return 1
    if r < 0.80:
        return int(rng.integers(2, 16))
    if r < 0.97:
        return int(rng.integers(16, 41))
    return int(rng.integers(41, 201))


def gen_valid_indices(rng, n):
    """Index object with valid atom indices; returns (object, python list, description)."""
    if n == 0:
        kind = str(rng.choice(["empty_arr", "empty_list", "empty_tuple"]))
    else:
        kind = str(rng.choice(["array", "array", "list", "tuple", "empty_arr", "empty_list", "repeated", "all",
                               "small_dtype", "last_first"]))
    if kind == "empty_arr":
        dt = str(rng.choice(["int64", "int32", "uint8"]))
        return np.array([], dtype=dt), [], ("empty_" + dt,)
    if kind == "empty_list":
        return [], [], ("empty_list",)
    if kind == "empty_tuple":
        return (), [], ("empty_tuple",)
    if kind == "all":
        idx = list(range(n))
    elif kind == "last_first":
        idx = [n - 1, 0]
    elif kind == "repeated":
        base = [int(rng.integers(n)) for _ in range(int(rng.integers(1, 4)))]
        idx = [base[int(rng.integers(len(base)))] for _ in range(int(rng.integers(2, 9)))]
    else:
        idx = [int(rng.integers(n)) for _ in range(int(rng.integers(1, 9)))]
    if kind == "list":
        return list(idx), idx, ("list", idx)
    if kind == "tuple":
        return tuple(idx), idx, ("tuple", idx)
    if kind == "small_dtype":
        cands = [d for d in ("int8", "uint8", "int16", "uint16", "int32", "uint32") if np.iinfo(d).max >= n]
        dt = str(rng.choice(cands))
    else:
        dt = str(rng.choice(["int64", "int64", "int32", "uint64"]))
    return np.array(idx, dtype=dt), idx, ("array", dt, idx)


# ---------------------------------------------------------------- reducing functions
def _f_first(x):
    return x[0]


def _f_pyfloat_max(x):
    return float(x.max())


def _f_pybool_any(x):
    return bool(x.any())


def _f_pyint_count(x):
    return int((x > 0).sum())


def _f_minmax(x):
    return np.array([x.min(), x.max()])


def _f_first_arr(x):
    return x[:1]


def _f_halves(x):
    """float array result from integer data"""
    return np.array([x[0] / 2, x[-1] / 2, x.mean()])


def _f_frac_positive(x):
    """float array result from boolean data"""
    return np.array([x.mean(), 1.0 - x.mean()])


def _f_bbox(x):
    return np.stack([x.min(axis=0), x.max(axis=0)])


def _f_zero_d(x):
    return np.array(x.sum())


def _f_first_last(x):
    # dtype pinned: apply_*_wise documents "same shape and data type" for every call
    return np.array([x[0], x[-1]], dtype=x.dtype)


def _f_pystr(x):
    return str(x[0])


def _f_pystr_len(x):
    return "n%d" % len(x)


# name -> (data kind, function, axis, result class)
APPLY = {
    "np_sum_int": ("int", np.sum, None, "scalar"),
    "len": ("int", len, None, "scalar"),
    "np_min_int": ("int", np.min, None, "scalar"),
    "first_int": ("int", _f_first, None, "scalar"),
    "pyint_count": ("int", _f_pyint_count, None, "scalar"),
    "np_mean_float": ("float", np.mean, None, "scalar"),
    "pyfloat_max": ("float", _f_pyfloat_max, None, "scalar"),
    "pybool_any": ("bool", _f_pybool_any, None, "scalar"),
    "np_all": ("bool", np.all, None, "scalar"),
    "first_float32": ("float32", _f_first, None, "scalar"),
    "np_sum_axis0_1d": ("float", np.sum, 0, "scalar"),
    "np_mean_axis0_coord": ("coord", np.mean, 0, "array"),
    "np_max_axis0_coord": ("coord", np.max, 0, "array"),
    "minmax_arr": ("int", _f_minmax, None, "array"),
    # array results whose dtype differs from the dtype of the data
    "np_mean_axis0_intvec": ("intvec", np.mean, 0, "array"),
    "halves_from_int": ("int", _f_halves, None, "array"),
    "fractions_from_bool": ("bool", _f_frac_positive, None, "array"),
    "first_arr": ("int", _f_first_arr, None, "array"),
    "bbox_2d": ("coord", _f_bbox, None, "array"),
    "zero_d": ("int", _f_zero_d, None, "array"),
    "first_last_strarr": ("str", _f_first_last, None, "str_array"),
    "first_strarr": ("str", _f_first_arr, None, "str_array"),
    "first_char": ("str1", _f_first, None, "str_scalar_short"),
    "first_bytes": ("bytes1", _f_first, None, "scalar"),
    # --- trigger class `str_scalar_result`: scalar string results longer than one character
    "first_npstr": ("str", _f_first, None, "str_scalar"),
    "first_pystr": ("str", _f_pystr, None, "str_scalar"),
    "pystr_len": ("str", _f_pystr_len, None, "str_scalar"),
}
APPLY_CLEAN = [k for k, v in APPLY.items() if v[3] != "str_scalar"]
APPLY_STR = [k for k, v in APPLY.items() if v[3] == "str_scalar"]


def gen_data(rng, kind, n):
    if kind == "int":
        return rng.integers(-50, 50, n).astype(np.int64)
    if kind == "float":
        return rng.integers(-40, 40, n).astype(np.float64) / 4
    if kind == "float32":
        return (rng.integers(-40, 40, n) / 4).astype(np.float32)
    if kind == "bool":
        return rng.random(n) < 0.5
    if kind == "coord":
        return (rng.integers(-40, 40, (n, 3)) / 4).astype(np.float32)
    if kind == "intvec":
        return rng.integers(-9, 10, (n, 2)).astype(np.int64)
    if kind == "str":
        return np.array([NAMES[int(i)] for i in rng.integers(len(NAMES), size=n)], dtype="U5")
    if kind == "str1":
        return np.array([INS[int(i)] for i in rng.integers(len(INS), size=n)], dtype="U1")
    if kind == "bytes1":
        return np.array([b"ABCXYZ"[int(i):int(i) + 1] for i in rng.integers(6, size=n)], dtype="S1")
    raise AssertionError(kind)


def _values_equal(got, exp):
    """got: element of the result array, exp: value of the function on the per-atom segment."""
    g = np.asarray(got)
    e = np.asarray(exp)
    if g.shape != e.shape:
        return False
    if e.dtype.kind in "US" or g.dtype.kind in "US":
        return g.tolist() == e.tolist()
    if e.dtype.kind in "fc":
        return bool(np.allclose(g.astype(np.float64), e.astype(np.float64), rtol=1e-9, atol=1e-12))
    return g.tolist() == e.tolist()


# ====================================================================== the view oracle
class Fam:
    """Bound calls of one function family (residue / chain / generic segments)."""

    def __init__(self, kind, arr=None, starts=None):
        self.kind = kind
        if kind == "residue":
            self.masks = lambda idx: struc.get_residue_masks(arr, idx)
            self.starts_for = lambda idx: struc.get_residue_starts_for(arr, idx)
            self.positions = lambda idx: struc.get_residue_positions(arr, idx)
            self.apply = lambda d, f, ax: (struc.apply_residue_wise(arr, d, f) if ax is None
                                           else struc.apply_residue_wise(arr, d, f, axis=ax))
            self.spread = lambda d: struc.spread_residue_wise(arr, d)
            self.iter = lambda: struc.residue_iter(arr)
        elif kind == "chain":
            self.masks = lambda idx: struc.get_chain_masks(arr, idx)
            self.starts_for = lambda idx: struc.get_chain_starts_for(arr, idx)
            self.positions = lambda idx: struc.get_chain_positions(arr, idx)
            self.apply = lambda d, f, ax: (struc.apply_chain_wise(arr, d, f) if ax is None
                                           else struc.apply_chain_wise(arr, d, f, axis=ax))
            self.spread = lambda d: struc.spread_chain_wise(arr, d)
            self.iter = lambda: struc.chain_iter(arr)
        else:
            self.masks = lambda idx: segs.get_segment_masks(starts, idx)
            self.starts_for = lambda idx: segs.get_segment_starts_for(starts, idx)
            self.positions = lambda idx: segs.get_segment_positions(starts, idx)
            self.apply = lambda d, f, ax: (segs.apply_segment_wise(starts, d, f) if ax is None
                                           else segs.apply_segment_wise(starts, d, f, ax))
            self.spread = lambda d: segs.spread_segment_wise(starts, d)
            self.iter = lambda: segs.segment_iter(arr, starts)


def _call_valid(ctx, oracle, what, fn, obj, idx, n):
    try:
        return fn(obj)
    except (ValueError, IndexError) as e:
        ctx.exc(e)
        ctx.oracle(oracle)
        ctx.fail(oracle, "%s(%r) on %d atoms raised %s: %s although every index is valid"
                 % (what, idx, n, type(e).__name__, e))


def check_index_views(ctx, fam, seg, obj, idx):
    """masks / starts_for / positions for a valid index object."""
    n = len(seg)
    first_of = {}
    for i, s in enumerate(seg):
        first_of.setdefault(s, i)
    # masks
    ctx.op(fam.kind + "_masks")
    m = _call_valid(ctx, "masks_vs_recomputation", fam.kind + " masks", fam.masks, obj, idx, n)
    exp = [[seg[j] == seg[k] for j in range(n)] for k in idx]
    ok = isinstance(m, np.ndarray) and m.dtype == bool and m.shape == (len(idx), n) and m.tolist() == exp
    ctx.check(ok, "masks_vs_recomputation",
              "%s masks for indices %r differ from per-atom recomputation" % (fam.kind, idx),
              got=_short(m), expected=exp if len(exp) < 12 else "...")
    # starts_for
    ctx.op(fam.kind + "_starts_for")
    sf = _call_valid(ctx, "starts_for_vs_recomputation", fam.kind + " starts_for", fam.starts_for, obj, idx, n)
    exp = [first_of[seg[k]] for k in idx]
    ok = isinstance(sf, np.ndarray) and sf.shape == (len(idx),) and sf.tolist() == exp
    ctx.check(ok, "starts_for_vs_recomputation",
              "%s starts_for(%r) = %s, per-atom recomputation %r" % (fam.kind, idx, _short(sf), exp))
    # positions
    ctx.op(fam.kind + "_positions")
    ps = _call_valid(ctx, "positions_vs_recomputation", fam.kind + " positions", fam.positions, obj, idx, n)
    exp = [seg[k] for k in idx]
    ok = isinstance(ps, np.ndarray) and ps.shape == (len(idx),) and ps.tolist() == exp
    ctx.check(ok, "positions_vs_recomputation",
              "%s positions(%r) = %s, per-atom recomputation %r" % (fam.kind, idx, _short(ps), exp))


def check_apply(ctx, fam, seg, name, data):
    kind, fn, axis, _cls = APPLY[name]
    members = ref_members(seg)
    ctx.op(fam.kind + "_apply_" + name)
    res = fam.apply(data, fn, axis)
    exp = []
    for atoms in members:
        part = data[np.array(atoms, dtype=np.int64)]
        exp.append(fn(part) if axis is None else fn(part, axis=axis))
    ctx.oracle("apply_vs_recomputation")
    if not isinstance(res, np.ndarray):
        ctx.fail("apply_vs_recomputation", "%s apply(%s) returned %s, not an ndarray with one entry per segment (%d)"
                 % (fam.kind, name, type(res).__name__, len(members)))
    if res.shape[0] != len(members):
        ctx.fail("apply_vs_recomputation", "%s apply(%s): first dimension %d != %d segments"
                 % (fam.kind, name, res.shape[0], len(members)))
    if members and res.shape != (len(members),) + np.shape(exp[0]):
        ctx.fail("apply_vs_recomputation", "%s apply(%s): shape %s, expected %s"
                 % (fam.kind, name, res.shape, (len(members),) + np.shape(exp[0])))
    for s in range(len(members)):
        if not _values_equal(res[s], exp[s]):
            ctx.fail("apply_vs_recomputation",
                     "%s apply(%s): segment %d (atoms %d..%d) gives %r (result dtype %s), function on the per-atom segment gives %r"
                     % (fam.kind, name, s, members[s][0], members[s][-1], _py(res[s]), res.dtype, _py(exp[s])))


def check_spread(ctx, fam, seg, rng):
    n = len(seg)
    nseg = (seg[-1] + 1) if seg else 0
    kind = str(rng.choice(["int", "str", "coord", "bool", "float", "list"]))
    if kind == "list":
        inp = [int(v) for v in rng.integers(-9, 9, nseg)]
        arr_in = inp
    else:
        arr_in = gen_data(rng, kind, nseg)
        inp = arr_in.tolist()
    ctx.log("spread", kind, inp if nseg <= 60 else "(%d values)" % nseg)
    ctx.op(fam.kind + "_spread_" + kind)
    out = fam.spread(arr_in)
    exp = [inp[seg[i]] for i in range(n)]
    ok = isinstance(out, np.ndarray) and out.shape[0] == n and out.tolist() == exp
    ctx.check(ok, "spread_vs_recomputation",
              "%s spread: got %s, per-atom recomputation %s" % (fam.kind, _short(out), _short(exp)))


def check_iter(ctx, fam, arr, seg):
    members = ref_members(seg)
    ctx.op(fam.kind + "_iter")
    parts = list(fam.iter())
    ctx.oracle("iter_vs_recomputation")
    if len(parts) != len(members):
        ctx.fail("iter_vs_recomputation", "%s iteration yields %d segments, per-atom recomputation %d"
                 % (fam.kind, len(parts), len(members)))
    for p, atoms in zip(parts, members):
        if type(p) is not type(arr) or p.array_length() != len(atoms) or p.uid.tolist() != atoms:
            ctx.fail("iter_vs_recomputation", "%s iteration: segment %r instead of atoms %r"
                     % (fam.kind, p.uid.tolist() if hasattr(p, "uid") else type(p).__name__, atoms))
    # concatenation reproduces the array (annotation by annotation, and the coordinates)
    ctx.oracle("concat_reproduces_array")
    for cat in arr.get_annotation_categories():
        whole = arr.get_annotation(cat).tolist()
        joined = []
        for p in parts:
            joined.extend(p.get_annotation(cat).tolist())
        if joined != whole:
            ctx.fail("concat_reproduces_array", "%s iteration: concatenated %s differs from the array's" % (fam.kind, cat))
    if parts:
        coord = np.concatenate([p.coord for p in parts], axis=-2)
        if coord.shape != arr.coord.shape or not np.array_equal(coord, arr.coord):
            ctx.fail("concat_reproduces_array", "%s iteration: concatenated coordinates differ" % fam.kind)
    elif arr.array_length() != 0:
        ctx.fail("concat_reproduces_array", "%s iteration yields nothing for %d atoms" % (fam.kind, arr.array_length()))


def _short(x):
    r = repr(_tolist(x) if isinstance(x, np.ndarray) else x)
    return r if len(r) < 300 else r[:300] + "..."


def _py(x):
    return x.tolist() if isinstance(x, (np.ndarray, np.generic)) else x


def pick_apply(ctx, rng, k):
    pool = list(APPLY_CLEAN)
    if ctx.allowed("str_scalar_result"):
        pool += APPLY_STR
    return [pool[int(i)] for i in rng.choice(len(pool), size=min(k, len(pool)), replace=False)]


def check_family(ctx, rng, fam, arr, seg, n_apply=3):
    """All derived views of one family against the per-atom segment list."""
    n = len(seg)
    empty_ok = n > 0 or ctx.allowed("empty_array_exclusive_stop")
    if empty_ok:
        for _ in range(2):
            obj, idx, desc = gen_valid_indices(rng, n)
            ctx.log("indices", desc)
            check_index_views(ctx, fam, seg, obj, idx)
    else:
        ctx.note("empty_array_index_views_quarantined")
    if n > 0 or ctx.allowed("empty_array_apply"):
        for name in pick_apply(ctx, rng, n_apply):
            data = gen_data(rng, APPLY[name][0], n)
            ctx.log("apply", name, data.tolist() if n <= 40 else "(%d values)" % n)
            check_apply(ctx, fam, seg, name, data)
    else:
        ctx.note("empty_array_apply_quarantined")
    check_spread(ctx, fam, seg, rng)
    check_iter(ctx, fam, arr, seg)


def check_starts(ctx, kind, arr, seg, rid, name, ch, force=False):
    get_starts = struc.get_residue_starts if kind == "residue" else struc.get_chain_starts
    n = len(seg)
    exp = ref_starts(seg)
    ctx.op(kind + "_starts")
    got = get_starts(arr)
    ctx.check(_is_int_array(got) and got.tolist() == exp, "starts_vs_recomputation",
              "get_%s_starts = %s, annotations change at %r" % (kind, _short(got), exp))
    got = get_starts(arr, add_exclusive_stop=False)
    ctx.check(_is_int_array(got) and got.tolist() == exp, "starts_vs_recomputation",
              "get_%s_starts(add_exclusive_stop=False) = %s, annotations change at %r" % (kind, _short(got), exp))
    if n > 0 or force or ctx.allowed("empty_array_exclusive_stop"):
        ctx.op(kind + "_starts_with_stop")
        got = get_starts(arr, add_exclusive_stop=True)
        ctx.check(_is_int_array(got) and got.tolist() == exp + [n], "starts_vs_recomputation",
                  "get_%s_starts(add_exclusive_stop=True) = %s, expected %r (starts + array_length())"
                  % (kind, _short(got), exp + [n]))
    # counts and names
    ctx.oracle("count_names_vs_recomputation")
    if kind == "residue":
        ctx.op("residue_count"); ctx.op("get_residues")
        c = struc.get_residue_count(arr)
        ids, names = struc.get_residues(arr)
        if c != len(exp) or ids.tolist() != [rid[s] for s in exp] or names.tolist() != [name[s] for s in exp]:
            ctx.fail("count_names_vs_recomputation", "get_residue_count/get_residues = %r %r %r, per-atom recomputation %r %r"
                     % (c, ids.tolist(), names.tolist(), [rid[s] for s in exp], [name[s] for s in exp]))
    else:
        ctx.op("chain_count"); ctx.op("get_chains")
        c = struc.get_chain_count(arr)
        ids = struc.get_chains(arr)
        if c != len(exp) or ids.tolist() != [ch[s] for s in exp]:
            ctx.fail("count_names_vs_recomputation", "get_chain_count/get_chains = %r %r, per-atom recomputation %r"
                     % (c, ids.tolist(), [ch[s] for s in exp]))


# ====================================================================== cases
def build_annotated(ctx, rng, n=None):
    if n is None:
        n = gen_n(rng, ctx.tier)
    mode = str(rng.choice(MODES))
    ch, rid, ins, name = gen_annotations(rng, n, mode)
    depth = int(rng.integers(1, 4)) if rng.random() < 0.2 else 0
    ctx.log("array", {"n": n, "mode": mode, "stack_depth": depth, "chain_id": ch, "res_id": rid, "ins_code": ins,
                      "res_name": name})
    arr = make_array(rng, n, ch, rid, ins, name, depth)
    # the array really carries what was generated (no truncation by the annotation dtypes)
    assert arr.chain_id.tolist() == ch and arr.res_id.tolist() == rid
    assert arr.ins_code.tolist() == ins and arr.res_name.tolist() == name
    return arr, ch, rid, ins, name


def case_views(kind, rng, ctx):
    arr, ch, rid, ins, name = build_annotated(ctx, rng)
    seg = ref_segments(kind, ch, rid, ins, name)
    nseg = (seg[-1] + 1) if seg else 0
    ctx.mark_nontrivial(nseg >= 2)
    ctx.state((kind, tuple(ref_starts(seg)), len(seg)))
    check_starts(ctx, kind, arr, seg, rid, name, ch)
    check_family(ctx, rng, Fam(kind, arr=arr), arr, seg)
    # history on the same object: edit the defining annotations in place, then every view must follow
    # (a result remembered from the first round would be stale now)
    n = len(seg)
    if n >= 2 and rng.random() < 0.5:
        for _ in range(int(rng.integers(1, 4))):
            i = int(rng.integers(0, n))
            j = int(rng.integers(i, n)) + 1
            what = str(rng.choice(["chain_id", "res_id", "ins_code", "res_name"]))
            pool = {"chain_id": ch, "res_id": rid, "ins_code": ins, "res_name": name}[what]
            val = pool[int(rng.integers(0, n))] if rng.random() < 0.6 else {"chain_id": "Zq", "res_id": int(rng.integers(-3, 60)), "ins_code": "Q", "res_name": "QQQ"}[what]
            ctx.log("inplace_edit", what, i, j, val)
            ctx.op("inplace_edit_then_requery")
            arr.get_annotation(what)[i:j] = val
            for k in range(i, j):
                pool[k] = val
        assert arr.chain_id.tolist() == ch and arr.res_id.tolist() == rid and arr.ins_code.tolist() == ins and arr.res_name.tolist() == name
        seg2 = ref_segments(kind, ch, rid, ins, name)
        check_starts(ctx, kind, arr, seg2, rid, name, ch)
        check_family(ctx, rng, Fam(kind, arr=arr), arr, seg2, n_apply=1)


def case_big_segments(rng, ctx):
    """Arrays whose segment lengths / segment counts pass 16 bits: a residue (and chain) of more than 65536 atoms, or more
    than 32768 / 65536 residues.  The reference is a NumPy recomputation from the segment lengths."""
    mode = str(rng.choice(["giant_segment", "many_segments"]))
    if mode == "giant_segment":
        lens = np.array([int(rng.integers(1, 6)), int(rng.choice([65535, 65536, 65537, 70000])), int(rng.integers(1, 6))])
    else:
        lens = rng.integers(1, 3, size=int(rng.choice([32769, 40000, 65537, 70001])))
    nres, n = len(lens), int(lens.sum())
    starts = np.concatenate([[0], np.cumsum(lens)[:-1]])
    seg_of = np.repeat(np.arange(nres), lens)
    arr = struc.AtomArray(n)
    arr.coord = np.zeros((n, 3), dtype=np.float32)
    arr.chain_id[:] = "A"
    arr.res_id = seg_of.astype(int)           # increasing: one chain
    arr.res_name[:] = "GLY"
    ctx.log("big_segments", {"mode": mode, "atoms": n, "residues": nres})
    ctx.op("big_segments_" + mode)
    ctx.mark_nontrivial()
    ctx.state(("big_segments", mode, nres > 65536, n > 65536))
    ctx.check(np.array_equal(struc.get_residue_starts(arr), starts), "starts_vs_recomputation",
              "get_residue_starts on %d atoms / %d residues differs from the cumulative lengths" % (n, nres))
    ctx.check(struc.get_residue_count(arr) == nres and struc.get_chain_count(arr) == 1, "count_names_vs_recomputation",
              "get_residue_count / get_chain_count = %r / %r, expected %d / 1" % (struc.get_residue_count(arr), struc.get_chain_count(arr), nres))
    idx = np.unique(np.concatenate([rng.integers(0, n, size=6), [0, n - 1, n // 2, min(n - 1, 65536), min(n - 1, 32768)]]))
    pos = struc.get_residue_positions(arr, idx)
    ctx.check(np.array_equal(np.asarray(pos, dtype=np.int64), seg_of[idx]), "positions_vs_recomputation",
              "get_residue_positions(%s) = %s, expected %s" % (idx.tolist(), np.asarray(pos).tolist(), seg_of[idx].tolist()))
    sf = struc.get_residue_starts_for(arr, idx)
    ctx.check(np.array_equal(np.asarray(sf, dtype=np.int64), starts[seg_of[idx]]), "starts_for_vs_recomputation",
              "get_residue_starts_for(%s) = %s, expected %s" % (idx.tolist(), np.asarray(sf).tolist(), starts[seg_of[idx]].tolist()))
    mk = struc.get_residue_masks(arr, idx[:3])
    ctx.check(mk.shape == (len(idx[:3]), n) and all(np.array_equal(mk[k_], seg_of == seg_of[i_]) for k_, i_ in enumerate(idx[:3])),
              "masks_vs_recomputation", "get_residue_masks(%s) differs from the recomputed masks" % idx[:3].tolist())
    vals = rng.integers(-1000, 1000, size=nres)
    for name_, fn_, per, rep in (("spread_residue_wise", struc.spread_residue_wise, vals, np.repeat(vals, lens)),
                                 ("spread_chain_wise", struc.spread_chain_wise, np.array([7]), np.full(n, 7))):
        got = fn_(arr, per)
        ctx.check(got.shape == rep.shape and np.array_equal(got, rep), "spread_vs_recomputation",
                  "%s on %d atoms / %d residues: result of length %d differs from the repeated values (length %d)"
                  % (name_, n, nres, len(got), len(rep)))
    data = rng.integers(0, 5, size=n)
    got = struc.apply_residue_wise(arr, data, np.sum)
    ctx.check(np.array_equal(np.asarray(got, dtype=np.int64), np.add.reduceat(data, starts)), "apply_vs_recomputation",
              "apply_residue_wise(np.sum) on %d atoms / %d residues differs from np.add.reduceat" % (n, nres))
    got = struc.apply_chain_wise(arr, data, np.sum)
    ctx.check(np.asarray(got).tolist() == [int(data.sum())], "apply_vs_recomputation", "apply_chain_wise(np.sum) = %s, expected [%d]" % (np.asarray(got).tolist(), int(data.sum())))


def case_generic(rng, ctx):
    if ctx.index % 400 == 399:
        return case_big_segments(rng, ctx)
    n = gen_n(rng, ctx.tier)
    if n == 0:
        n = 1
    k = int(rng.integers(0, min(n, 12)))
    inner = sorted(int(i) for i in rng.choice(np.arange(1, n), size=min(k, n - 1), replace=False)) if n > 1 else []
    starts_list = [0] + inner + [n]
    dt = str(rng.choice(["int64", "int64", "int32", "intp"]))
    starts = np.array(starts_list, dtype=dt)
    depth = int(rng.integers(1, 3)) if rng.random() < 0.2 else 0
    ch, rid, ins, name = gen_annotations(rng, n, "walk")
    arr = make_array(rng, n, ch, rid, ins, name, depth)
    ctx.log("segments", {"n": n, "starts": starts_list, "dtype": dt, "stack_depth": depth})
    seg = ref_segments_from_starts(starts_list)
    ctx.mark_nontrivial(len(starts_list) >= 3)
    ctx.state(("generic", tuple(starts_list)))
    check_family(ctx, rng, Fam("segment", arr=arr, starts=starts), arr, seg)


BAD_HIGH = ["n", "n+1", "n+100", "2^31", "2^40"]
BAD_LOW = ["-1", "-n", "-n-1", "-2^31"]


def _bad_value(tag, n):
    return {"n": n, "n+1": n + 1, "n+100": n + 100, "2^31": 2**31, "2^40": 2**40,
            "-1": -1, "-n": -max(n, 1), "-n-1": -n - 1, "-2^31": -(2**31)}[tag]


def case_index_arrays(rng, ctx):
    fam_kind = str(rng.choice(["residue", "chain", "segment"]))
    arr, ch, rid, ins, name = build_annotated(ctx, rng, n=(None if rng.random() < 0.9 else 0))
    n = arr.array_length()
    if fam_kind == "segment":
        if n == 0:
            fam_kind = "residue"
    if fam_kind == "segment":
        seg = ref_segments("residue" if rng.random() < 0.5 else "chain", ch, rid, ins, name)
        starts = np.array(ref_starts(seg) + [n], dtype=np.int64)
        fam = Fam("segment", arr=arr, starts=starts)
    else:
        seg = ref_segments(fam_kind, ch, rid, ins, name)
        fam = Fam(fam_kind, arr=arr)
    ctx.log("family", fam_kind)
    ctx.state(("idx", fam_kind, tuple(ref_starts(seg)), n))
    # ---- valid edge forms
    if n > 0 or ctx.allowed("empty_array_exclusive_stop"):
        for _ in range(2):
            obj, idx, desc = gen_valid_indices(rng, n)
            ctx.log("indices", desc)
            check_index_views(ctx, fam, seg, obj, idx)
    # ---- invalid ones: must raise ValueError / IndexError
    for _ in range(2):
        tag = str(rng.choice(BAD_HIGH + BAD_LOW))
        bad = _bad_value(tag, n)
        k = int(rng.integers(0, 4))
        idx = [int(rng.integers(n)) for _ in range(k)] if n else []
        idx.insert(int(rng.integers(len(idx) + 1)), bad)
        form = str(rng.choice(["int64", "list", "tuple", "int32"]))
        if form == "int32" and not all(-(2**31) <= v < 2**31 for v in idx):
            form = "int64"
        obj = idx if form == "list" else tuple(idx) if form == "tuple" else np.array(idx, dtype=form)
        ctx.log("bad_indices", tag, form, idx)
        ctx.mark_nontrivial()
        for vname in ("masks", "starts_for", "positions"):
            ctx.op("%s_%s_bad_%s" % (fam.kind, vname, "high" if bad >= 0 else "negative"))
            ctx.oracle("index_rejected")
            try:
                res = getattr(fam, vname)(obj)
            except (ValueError, IndexError) as e:
                ctx.exc(e)
            else:
                ctx.fail("index_rejected", "%s %s(%r) on %d atoms returned %s instead of raising ValueError/IndexError"
                         % (fam.kind, vname, idx, n, _short(res)))


# ---------------------------------------------------------------- molecules
def gen_small_graph(rng, n):
    kind = str(rng.choice(["sparse", "sparse", "dense", "ring", "star", "path", "isolated", "forest", "two_rings",
                           "self_bonds"]))
    edges = []
    if n < 2:
        kind = "isolated" if kind != "self_bonds" or n == 0 else kind
    perm = [int(i) for i in rng.permutation(n)]
    if kind in ("sparse", "dense", "self_bonds"):
        p = (1.2 / max(n, 1)) if kind != "dense" else 0.5
        for i in range(n):
            for j in range(i + 1, n):
                if rng.random() < p:
                    edges.append((i, j) if rng.random() < 0.5 else (j, i))
        if kind == "self_bonds":
            for _ in range(int(rng.integers(1, 3))):
                a = int(rng.integers(n))
                edges.append((a, a))
    elif kind == "ring":
        k = int(rng.integers(2, n + 1))
        edges = [(perm[i], perm[(i + 1) % k]) for i in range(k)] if k > 2 else [(perm[0], perm[1])]
    elif kind == "star":
        k = int(rng.integers(2, n + 1))
        edges = [(perm[0], perm[i]) for i in range(1, k)]
    elif kind == "path":
        edges = [(perm[i], perm[i + 1]) for i in range(n - 1)]
    elif kind == "forest":
        for i in range(1, n):
            if rng.random() < 0.75:
                edges.append((perm[i], perm[int(rng.integers(i))]))
    elif kind == "two_rings":
        h = n // 2
        for lo, hi in ((0, h), (h, n)):
            k = hi - lo
            if k >= 2:
                edges += [(perm[lo + i], perm[lo + (i + 1) % k]) for i in range(k if k > 2 else 1)]
    return kind, edges


def make_bondlist(rng, n, edges):
    if not edges:
        return struc.BondList(n) if rng.random() < 0.5 else struc.BondList(n, np.zeros((0, 3), dtype=np.int64))
    types = rng.integers(0, 7, len(edges))
    a = np.array([(i, j, t) for (i, j), t in zip(edges, types)], dtype=np.int64)
    return struc.BondList(n, a)


def bonded_array(rng, n, bl, depth=0):
    ch, rid, ins, name = gen_annotations(rng, n, "walk") if n <= 200 else (["A"] * n, [1] * n, [""] * n, ["ALA"] * n)
    arr = make_array(rng, n, ch, rid, ins, name, depth)
    arr.bonds = bl
    return arr


def check_molecules(ctx, src, n, comp, of, what, arr=None):
    """get_molecule_indices / get_molecule_masks on `src`, molecule_iter on `arr`."""
    exp = {frozenset(v) for v in comp.values()}
    ctx.op("get_molecule_indices_" + what)
    idx = struc.get_molecule_indices(src)
    ctx.oracle("components_vs_union_find")
    got = []
    for a in idx:
        if not _is_int_array(a) or a.ndim != 1:
            ctx.fail("components_vs_union_find", "get_molecule_indices(%s): element is not a 1-d index array: %r" % (what, a))
        lst = a.tolist()
        fs = frozenset(lst)
        if len(fs) != len(lst):
            ctx.fail("components_vs_union_find", "get_molecule_indices(%s): atom repeated inside one molecule" % what)
        got.append(fs)
    if len(got) != len(exp) or set(got) != exp or sum(len(g) for g in got) != n:
        ctx.fail("components_vs_union_find",
                 "get_molecule_indices(%s): %d molecules, union-find has %d components (first difference: %s)"
                 % (what, len(got), len(exp), _short(sorted(map(sorted, set(got) ^ exp))[:2])))
    ctx.op("get_molecule_masks_" + what)
    masks = struc.get_molecule_masks(src)
    ctx.oracle("components_vs_union_find")
    if not isinstance(masks, np.ndarray) or masks.dtype != bool or masks.shape != (len(exp), n):
        ctx.fail("components_vs_union_find", "get_molecule_masks(%s): %s %s, expected bool (%d, %d)"
                 % (what, getattr(masks, "dtype", None), getattr(masks, "shape", None), len(exp), n))
    if n and not (masks.sum(axis=0) == 1).all():
        ctx.fail("components_vs_union_find", "get_molecule_masks(%s): some atom is not in exactly one molecule" % what)
    gotm = {frozenset(np.nonzero(row)[0].tolist()) for row in masks}
    if gotm != exp:
        ctx.fail("components_vs_union_find", "get_molecule_masks(%s) differs from the union-find components" % what)
    if arr is not None:
        ctx.op("molecule_iter_" + what)
        ctx.oracle("components_vs_union_find")
        seen = []
        for mol in struc.molecule_iter(arr):
            if type(mol) is not type(arr):
                ctx.fail("components_vs_union_find", "molecule_iter yields %s for %s" % (type(mol).__name__, type(arr).__name__))
            u = mol.uid.tolist()
            if len(set(u)) != len(u) or mol.array_length() != len(u):
                ctx.fail("components_vs_union_find", "molecule_iter: repeated atom in a molecule")
            seen.append(frozenset(u))
        if len(seen) != len(exp) or set(seen) != exp:
            ctx.fail("components_vs_union_find", "molecule_iter: %d molecules, union-find has %d components"
                     % (len(seen), len(exp)))


def check_find_connected(ctx, bl, n, comp, of, roots):
    for r in roots:
        ctx.op("find_connected")
        c = struc.find_connected(bl, r)
        exp = comp[of[r]]
        ok = _is_int_array(c) and c.ndim == 1 and len(c) == len(exp) and sorted(c.tolist()) == exp
        ctx.check(ok, "find_connected_vs_union_find",
                  "find_connected(root=%d) = %s, union-find component %s" % (r, _short(c), _short(exp)))
        ctx.op("find_connected_as_mask")
        m = struc.find_connected(bl, r, as_mask=True)
        if not (isinstance(m, np.ndarray) and m.dtype == bool):
            ctx.note("find_connected_as_mask_is_not_a_bool_ndarray")
        mm = np.asarray(m)
        ok = mm.shape == (n,) and np.nonzero(mm)[0].tolist() == exp
        ctx.check(ok, "find_connected_vs_union_find",
                  "find_connected(root=%d, as_mask=True) marks %s, union-find component %s"
                  % (r, _short(np.nonzero(mm)[0]), _short(exp)))


def case_molecules_small(rng, ctx):
    n = int(rng.choice([0, 1, 2, 3, 4, 5, 6, 8, 10, 12, 16, 24]))
    kind, edges = gen_small_graph(rng, n)
    ctx.log("graph", {"n": n, "kind": kind, "edges": edges})
    ctx.mark_nontrivial(len(edges) > 0)
    comp, of = ref_components(n, edges)
    ctx.state(("mol", n, tuple(sorted(tuple(v) for v in comp.values()))))
    bl = make_bondlist(rng, n, edges)
    check_find_connected(ctx, bl, n, comp, of, range(n))
    # roots numpy-typed
    if n:
        r = int(rng.integers(n))
        c = struc.find_connected(bl, np.int64(r))
        ctx.check(sorted(c.tolist()) == comp[of[r]], "find_connected_vs_union_find", "numpy root %d" % r)
    # rejected roots
    for bad in (n, n + 3, -1, -n - 1):
        ctx.op("find_connected_bad_root")
        ctx.oracle("root_rejected")
        try:
            c = struc.find_connected(bl, bad)
        except (ValueError, IndexError, OverflowError) as e:
            ctx.exc(e)
        else:
            if bad < 0 and n and -n <= bad and sorted(c.tolist()) == comp[of[bad + n]]:
                ctx.note("negative_root_interpreted_like_python_index")
            else:
                ctx.fail("root_rejected", "find_connected(root=%d) on %d atoms returned %s" % (bad, n, _short(c)))
    form = str(rng.choice(["bondlist", "array", "stack"]))
    ctx.log("input", form)
    if form == "bondlist":
        arr = bonded_array(rng, n, bl)
        check_molecules(ctx, bl, n, comp, of, "bondlist", arr)
    elif form == "array":
        arr = bonded_array(rng, n, bl)
        check_molecules(ctx, arr, n, comp, of, "array", arr)
    else:
        arr = bonded_array(rng, n, bl, depth=int(rng.integers(1, 4)))
        check_molecules(ctx, arr, n, comp, of, "stack", arr)
    # documented rejections
    if rng.random() < 0.3:
        nob = bonded_array(rng, max(n, 1), None)
        for fname in ("get_molecule_indices", "get_molecule_masks", "molecule_iter"):
            ctx.op(fname + "_no_bonds")
            ctx.oracle("missing_bonds_rejected")
            try:
                res = getattr(struc, fname)(nob)
                if fname == "molecule_iter":
                    res = list(res)
            except ValueError as e:
                ctx.exc(e)
            else:
                ctx.fail("missing_bonds_rejected", "%s on an array without bonds returned %s" % (fname, _short(res)))
        for fname in ("get_molecule_indices", "get_molecule_masks"):
            ctx.oracle("wrong_type_rejected")
            try:
                res = getattr(struc, fname)([[0, 1]])
            except TypeError as e:
                ctx.exc(e)
            else:
                ctx.fail("wrong_type_rejected", "%s(list) returned %s" % (fname, _short(res)))


def gen_large_graph(rng, kind, n):
    """edge array (m,2) int64 for a large graph; labels optionally permuted."""
    lab = str(rng.choice(["identity", "reversed", "permuted"]))
    if kind == "path":
        e = np.stack([np.arange(n - 1), np.arange(1, n)], axis=1)
    elif kind == "ring":
        e = np.stack([np.arange(n), (np.arange(n) + 1) % n], axis=1)
    elif kind == "comb":
        h = n // 2
        e = np.concatenate([np.stack([np.arange(h - 1), np.arange(1, h)], axis=1),
                            np.stack([np.arange(h), np.arange(h) + h], axis=1)])
    elif kind == "deep_tree":
        par = np.arange(1, n) - 1 - rng.integers(0, 3, n - 1)
        e = np.stack([np.arange(1, n), np.maximum(par, 0)], axis=1)
    elif kind == "star":
        e = np.stack([np.zeros(n - 1, dtype=np.int64), np.arange(1, n)], axis=1)
    elif kind == "two_paths":
        h = n // 2
        e = np.concatenate([np.stack([np.arange(h - 1), np.arange(1, h)], axis=1),
                            np.stack([np.arange(h, n - 1), np.arange(h + 1, n)], axis=1)])
    elif kind == "small_molecules":
        # many molecules of 5 atoms (4-rings with a tail)
        k = n // 5
        base = np.arange(k) * 5
        e = np.concatenate([np.stack([base + a, base + b], axis=1)
                            for a, b in ((0, 1), (1, 2), (2, 3), (3, 0), (3, 4))])
    elif kind == "isolated":
        e = np.zeros((0, 2), dtype=np.int64)
    elif kind == "hub":
        # one atom with 255..700 partners (the per-atom bond count passes 8 bits), then three-atom molecules and atoms
        # without any bond
        d = int(rng.choice([255, 256, 257, 300, 511, 512, 513, 700]))
        d = min(d, n - 1)
        ed = [(0, i) for i in range(1, d + 1)]
        i = d + 1
        while i < n:
            if i + 2 < n and rng.random() < 0.5:
                ed += [(i, i + 1), (i + 1, i + 2)]
                i += 3
            else:
                i += 1
        e = np.array(ed, dtype=np.int64).reshape(-1, 2)
    elif kind == "grid":
        w = max(2, int(np.sqrt(n)))
        ids = np.arange(n)
        right = ids[(ids % w != w - 1) & (ids + 1 < n)]
        down = ids[ids + w < n]
        e = np.concatenate([np.stack([right, right + 1], axis=1), np.stack([down, down + w], axis=1)])
    elif kind == "dense":
        iu = np.triu_indices(n, 1)
        keep = rng.random(len(iu[0])) < 0.08
        e = np.stack([iu[0][keep], iu[1][keep]], axis=1)
    else:
        raise AssertionError(kind)
    e = e.astype(np.int64)
    if lab == "reversed":
        e = (n - 1) - e
    elif lab == "permuted":
        perm = rng.permutation(n)
        e = perm[e]
    return lab, e


def case_molecules_large(rng, ctx):
    sizes = [1000, 2000, SAFE_COMPONENT]
    deep_ok = ctx.allowed("deep_bond_path")
    if deep_ok:
        sizes += [10000, 30000]
    kind = str(rng.choice(["path", "path", "ring", "comb", "deep_tree", "star", "two_paths", "small_molecules",
                           "isolated", "grid", "dense", "hub", "hub"]))
    n = int(rng.choice(sizes))
    if kind == "hub":
        n = int(rng.choice([700, 1000, 1500]))
    if kind == "dense":
        n = int(rng.choice([150, 300, 500]))   # get_all_bonds is (n, max degree); DFS depth close to n
    if kind == "star":
        n = min(n, 2000)                       # get_all_bonds is (n, n-1)
    if kind in ("small_molecules", "isolated"):
        n = min(n, 3000)                       # one find_connected call per molecule, each O(n)
    if kind == "two_paths" and not deep_ok:
        n = 2 * SAFE_COMPONENT if rng.random() < 0.5 else n
    if rng.random() < 0.06:
        # a solvated system beyond 10000 atoms: three-atom molecules and single unbonded atoms (ions), nothing deep
        kind = "waters_and_ions"
        n = int(rng.choice([10001, 12000, 20003]))
        ed, i = [], 0
        while i < n:
            if i + 2 < n and rng.random() < 0.8:
                ed += [(i, i + 1), (i, i + 2)]
                i += 3
            else:
                i += 1                      # an atom without any bond
        lab, e = "sequential", np.array(ed, dtype=np.int64).reshape(-1, 2)
        if rng.random() < 0.5:
            perm = rng.permutation(n)
            lab, e = "shuffled", perm[e]
    else:
        lab, e = gen_large_graph(rng, kind, n)
    ctx.log("graph", {"kind": kind, "n": n, "labels": lab, "edges_head": e[:4].tolist(), "n_edges": int(len(e))})
    ctx.mark_nontrivial(len(e) > 0)
    comp, of = ref_components(n, e)
    ctx.state(("large", kind, n, lab, len(comp)))
    bl = struc.BondList(n, e) if len(e) else struc.BondList(n)
    roots = sorted({0, n - 1, int(rng.integers(n)), n // 2})
    check_find_connected(ctx, bl, n, comp, of, roots)
    if rng.random() < 0.5:
        arr = bonded_array(rng, n, bl)
        check_molecules(ctx, arr, n, comp, of, "array", arr)
    else:
        check_molecules(ctx, bl, n, comp, of, "bondlist", None)


def run_case(stratum, rng, ctx):
    if stratum == "residue_views":
        return case_views("residue", rng, ctx)
    if stratum == "chain_views":
        return case_views("chain", rng, ctx)
    if stratum == "segment_generic":
        return case_generic(rng, ctx)
    if stratum == "index_arrays":
        return case_index_arrays(rng, ctx)
    if stratum == "molecules_small":
        return case_molecules_small(rng, ctx)
    if stratum == "molecules_large":
        return case_molecules_large(rng, ctx)
    raise AssertionError(stratum)


# ====================================================================== oracle audit
def selftest(ctx):
    import itertools
    # 1. segment model: every annotation sequence of length <= 3 over 2 values per field, against a
    #    differently written definition (pairwise tuple comparison / explicit boundary set)
    vals = list(itertools.product(["A", "B"], [1, 2], ["", "X"], ["ALA", "GLY"]))
    for n in range(0, 4):
        for atoms in itertools.product(vals, repeat=n):
            ch = [a[0] for a in atoms]; rid = [a[1] for a in atoms]
            ins = [a[2] for a in atoms]; nm = [a[3] for a in atoms]
            seg_r = ref_segments("residue", ch, rid, ins, nm)
            bounds = {0} | {i for i in range(1, n) if atoms[i] != atoms[i - 1]} if n else set()
            assert ref_starts(seg_r) == sorted(bounds), (atoms, seg_r)
            seg_c = ref_segments("chain", ch, rid, ins, nm)
            bounds = {0} | {i for i in range(1, n) if ch[i] != ch[i - 1] or rid[i] - rid[i - 1] < 0} if n else set()
            assert ref_starts(seg_c) == sorted(bounds), (atoms, seg_c)
            for seg in (seg_r, seg_c):
                mem = ref_members(seg)
                assert [a for m in mem for a in m] == list(range(n))
                assert all(len(m) > 0 for m in mem)
                assert seg == ref_segments_from_starts(ref_starts(seg) + [n]) if n else seg == []
    assert ref_segments("residue", ["A", "A", "B", "B"], [1, 1, 1, 1], [""] * 4, ["ALA"] * 4) == [0, 0, 1, 1]
    assert ref_segments("chain", ["A"] * 5, [1, 2, 2, 1, 5], [""] * 5, ["ALA", "GLY", "ALA", "ALA", "ALA"]) == [0, 0, 0, 1, 1]
    assert ref_segments("residue", ["A"] * 3, [1, 1, 1], ["", "A", "A"], ["ALA"] * 3) == [0, 1, 1]
    assert ref_segments_from_starts([0, 2, 3, 6]) == [0, 0, 1, 2, 2, 2]
    # 2. union-find: all 64 graphs on 4 atoms against a Warshall transitive closure
    pairs = [(0, 1), (0, 2), (0, 3), (1, 2), (1, 3), (2, 3)]
    for bits in range(64):
        edges = [p for k, p in enumerate(pairs) if bits >> k & 1]
        reach = [[i == j for j in range(4)] for i in range(4)]
        for i, j in edges:
            reach[i][j] = reach[j][i] = True
        for k in range(4):
            for i in range(4):
                for j in range(4):
                    if reach[i][k] and reach[k][j]:
                        reach[i][j] = True
        comp, of = ref_components(4, edges)
        for a in range(4):
            assert comp[of[a]] == [b for b in range(4) if reach[a][b]], (edges, a)
    comp, of = ref_components(0, [])
    assert comp == {} and of == []
    comp, of = ref_components(5, [(4, 4), (3, 1)])
    assert sorted(comp.values()) == [[0], [1, 3], [2], [4]]
    # 3. comparison helper
    assert _values_equal(np.str_("A"), "A") and not _values_equal(np.str_("A"), np.str_("ALA"))
    assert _values_equal(np.array([1, 2]), np.array([1, 2])) and not _values_equal(np.array([1, 2]), np.array([1, 3]))
    assert not _values_equal(np.array([1, 2]), np.array([[1, 2]]))
    assert _values_equal(np.float32(0.25), 0.25) and not _values_equal(1.0, 1.001)
    # 4. the generators produce what the strata promise
    rng = np.random.default_rng(17)
    for mode in set(MODES):
        ch, rid, ins, nm = gen_annotations(rng, 12, mode)
        assert len(ch) == len(rid) == len(ins) == len(nm) == 12
        assert all(len(c) <= 4 for c in ch) and all(len(c) <= 1 for c in ins) and all(len(c) <= 5 for c in nm)
        if mode == "single_atom":
            assert ref_segments("residue", ch, rid, ins, nm) == list(range(12))
        if mode == "one_residue":
            assert ref_segments("residue", ch, rid, ins, nm) == [0] * 12
    for kind in ("path", "ring", "comb", "deep_tree", "star", "two_paths", "small_molecules", "isolated", "grid"):
        lab, e = gen_large_graph(rng, kind, 50)
        assert e.ndim == 2 and e.shape[1] == 2 and (e.size == 0 or (0 <= e.min() and e.max() < 50))
        comp, of = ref_components(50, e)
        want = {"path": 1, "ring": 1, "comb": 1, "deep_tree": 1, "star": 1, "two_paths": 2,
                "small_molecules": 10, "isolated": 50, "grid": 1}[kind]
        assert len(comp) == want, (kind, len(comp))


# ====================================================================== probes
def _path_bondlist(n):
    e = np.stack([np.arange(n - 1), np.arange(1, n), np.ones(n - 1, dtype=np.int64)], axis=1)
    return struc.BondList(n, e)


def _probe_deep_bond_path(ctx):
    """S18 trigger class: connected components far beyond the recursion depth the C stack allows
    (path graphs of 10^5 and 10^6 atoms; default 8 MiB stack)."""
    for n in (1000, 100_000, 1_000_000):
        ctx.log("path_graph", n)
        ctx.op("probe_find_connected_path_%d" % n)
        bl = _path_bondlist(n)
        c = struc.find_connected(bl, 0)          # dies here (SIGSEGV / ASan stack-overflow) for the large sizes
        ctx.check(len(c) == n and int(c[0]) == 0 and int(c[-1]) == n - 1 and bool((np.diff(c) == 1).all()),
                  "find_connected_vs_union_find", "path graph of %d atoms: %d atoms reported connected" % (n, len(c)))
        idx = struc.get_molecule_indices(bl)
        ctx.check(len(idx) == 1 and len(idx[0]) == n, "components_vs_union_find",
                  "path graph of %d atoms: %d molecules" % (n, len(idx)))


def _probe_str_scalar(ctx):
    """S19 trigger class: reducing functions whose scalar result is a string longer than one character."""
    ch = ["A"] * 6
    rid = [1, 1, 2, 2, 3, 3]
    ins = [""] * 6
    name = ["ALA", "ALA", "GLY", "GLY", "HOH", "HOH"]
    arr = make_array(None, 6, ch, rid, ins, name)
    data = np.array(name, dtype="U5")
    for kind in ("residue", "chain", "segment"):
        seg = ref_segments("residue", ch, rid, ins, name) if kind != "chain" else ref_segments("chain", ch, rid, ins, name)
        fam = Fam(kind, arr=arr, starts=np.array([0, 2, 4, 6]))
        for fname in APPLY_STR:
            ctx.log("apply", kind, fname, name)
            check_apply(ctx, fam, seg, fname, data)


def _probe_empty_stop(ctx):
    """Empty atom array: add_exclusive_stop and the index views with an empty index array."""
    for depth in (0, 2):
        arr = make_array(None, 0, [], [], [], [], depth)
        for kind in ("residue", "chain"):
            ctx.log("empty_array", kind, "stack_depth", depth)
            check_starts(ctx, kind, arr, [], [], [], [], force=True)
            fam = Fam(kind, arr=arr)
            for obj in (np.array([], dtype=np.int64), [], ()):
                check_index_views(ctx, fam, [], obj, [])


def _probe_empty_apply(ctx):
    """Empty atom array: apply_*_wise must give an empty result (one entry per segment = none)."""
    arr = make_array(None, 0, [], [], [], [])
    for kind in ("residue", "chain"):
        fam = Fam(kind, arr=arr)
        for fname in ("np_sum_int", "np_mean_axis0_coord", "first_strarr"):
            data = gen_data(np.random.default_rng(0), APPLY[fname][0], 0)
            ctx.log("apply_on_empty", kind, fname)
            check_apply(ctx, fam, [], fname, data)


def _probe_res_id_span(ctx):
    """A residue id that decreases by more than 2^63 (np.diff wraps around)."""
    for rid in ([2**62 + 1, -(2**62) - 1, -(2**62) - 1], [5, 2**63 - 1, -(2**63) + 10, -(2**63) + 10]):
        n = len(rid)
        ch, ins, name = ["A"] * n, [""] * n, ["ALA"] * n
        arr = make_array(None, n, ch, rid, ins, name)
        ctx.log("res_id", rid)
        seg = ref_segments("chain", ch, rid, ins, name)
        check_starts(ctx, "chain", arr, seg, rid, name, ch)
        check_index_views(ctx, Fam("chain", arr=arr), seg, list(range(n)), list(range(n)))


PROBES = {
    "deep_bond_path": _probe_deep_bond_path,
    "str_scalar_result": _probe_str_scalar,
    "empty_array_exclusive_stop": _probe_empty_stop,
    "empty_array_apply": _probe_empty_apply,
    "res_id_span_overflows_int64": _probe_res_id_span,
}
