"""C06  The CIF text layer returns every string table unchanged.

Monitors
* write/parse round trip of awkward-value string tables through the public
  CIFFile/CIFBlock/CIFCategory/CIFColumn API with the awkward cell placed in
  every (row, column) position; cell-by-cell comparison of `as_array(str)`,
  mask arrays, block/category/column names and their order;
* lock-step mapping histories on File/Block/Category(/Column views) of the text
  and the binary flavour against a nested `dict` model, including
  serialise-then-parse steps that put the containers back into the lazy state;
* hand-written contracts at hooks (installed from outside, evaluated on every
  call the workload produces): `cif._escape` (token is split back into the same
  value by `_split_one_line`) and `CIFCategory.serialize` (the text parses back
  into the same columns with `CIFCategory.deserialize`);
* a small strict CIF 1.1 reader written here is run on every produced text as an
  *observer* (counted with ctx.note, never judged: the statement only speaks
  about biotite reading its own output).
"""

import io

import numpy as np

ID = "C06"
FLAVOUR = "plain"
LEVEL = "exploration"
THOROUGH_MULT = 2.0       # deepens the sampled strata of the thorough tier (measured: about ten minutes on 16 cores)
RULE = (
    "seeded generators.  enum_pos: complete product of a fixed list of representative awkward values "
    "(leading _ # ; $ [ ] ' \" . ?, reserved words data_/loop_/save_/stop_/global_ in three casings, blanks, tabs, "
    "quote-then-space, quote at the end, both quote kinds, empty, '.'/'?' x three mask states, 1-3 line breaks with "
    "leading blanks / blank lines / lines starting ; # _ loop_ data_ / trailing newline, unicode) x table shapes "
    "1..3 x 1..3 x every (row, column) position (further passes vary fillers and names).  table_pos: random "
    "grammar value, shape 1..5 columns x 1..6 rows, fillers plain/quoted/text-field/masked, the value is moved "
    "through every position (one write/parse per position).  table_mixed: 1-3 blocks x 1-3 categories, every cell "
    "from the grammar, awkward block/category/column names, explicit or inferred masks, also written/read as "
    "BinaryCIF.  hist_text / hist_bin: initial file + 1-15 (thorough 1-30) operations from set/get/delete/in/len/"
    "iterate/==/pop/popitem/update/setdefault/clear/rename/wrong-type set/serialise-then-parse on a random level.  "
    "1 row = key-value form, more = loop_.  A table case is non-trivial when the awkward value is not a bare word; "
    "a history is non-trivial when at least one mutation succeeded and at least one operation ran on a container "
    "that had been put back into the lazy state.  distinct = distinct digest of the logged inputs.  Value classes "
    "named as trigger of an open known finding are kept out of these strata and exercised by the probes."
)
STRATA = {
    "enum_pos": (5868, 117360),
    "table_pos": (8000, 150000),
    "table_mixed": (10000, 200000),
    "hist_text": (6000, 100000),
    "hist_bin": (5000, 80000),
}
REQUIRED_ORACLES = [
    "cells_roundtrip", "masks_roundtrip", "names_roundtrip", "bcif_cells_roundtrip",
    "mapping_result_vs_dict", "mapping_state_vs_dict", "mapping_exception_vs_dict",
    "deep_state_vs_dict", "eq_reflects_content", "state_unchanged_after_reject",
    "escape_token_inverse", "category_serialize_inverse",
]
_CIF = "biotite.structure.io.pdbx.cif:"
_CMP = "biotite.structure.io.pdbx.component:"
_BCIF = "biotite.structure.io.pdbx.bcif:"
ANCHORS = [
    _CIF + "_escape", _CIF + "_multiline", _CIF + "_split_one_line", _CIF + "_to_single", _CIF + "_is_empty",
    _CIF + "CIFCategory._serialize_single", _CIF + "CIFCategory._serialize_looped",
    _CIF + "CIFCategory._deserialize_single", _CIF + "CIFCategory._deserialize_looped",
    _CIF + "CIFCategory.deserialize", _CIF + "CIFBlock.deserialize", _CIF + "CIFFile.deserialize",
    _CIF + "CIFColumn.__init__", _CIF + "CIFBlock.__getitem__", _CIF + "CIFFile.__getitem__",
    _CIF + "CIFCategory.__delitem__",
    _CMP + "_HierarchicalContainer.__getitem__", _CMP + "_HierarchicalContainer.__setitem__",
    _CMP + "_HierarchicalContainer.__delitem__", _CMP + "_HierarchicalContainer._deserialize_elements",
    _CMP + "_HierarchicalContainer._serialize_elements", _CMP + "_HierarchicalContainer.__eq__",
    _BCIF + "BinaryCIFBlock.__delitem__", _BCIF + "BinaryCIFBlock.__getitem__", _BCIF + "BinaryCIFBlock.__iter__",
    _BCIF + "BinaryCIFBlock.deserialize", _BCIF + "BinaryCIFCategory.serialize",
]
OPTIONAL_ANCHORS = []
ASSUMPTIONS = [
    "values are printable strings (str.isprintable) plus the blank, tab and line feed named in the statement; other "
    "control characters, carriage returns and non-ASCII white space / line separators are not generated",
    "mask None is taken as 'all PRESENT' (a column that comes back with an explicit all-PRESENT mask or with none is the same table)",
    "the data array underneath an INAPPLICABLE/MISSING cell is not part of the table: only as_array(str) ('.'/'?') and the mask are compared",
    "a value with an inner line that starts with ';' cannot be written in CIF 1.1 at all: an explicit exception at "
    "write time is accepted for it, a silent change is not",
    "block, category and column names: non-blank printable ASCII without '.', quotes and '#'; names inside one container are unique",
    "all columns of one category have the same length (documented requirement); 0-column categories may exist in "
    "memory and are expected to refuse serialisation",
    "popitem() may return any item (the Mapping ABC leaves the order open); iteration order is compared with dict insertion order",
    "CIFCategory's documented refusal to delete its last column (ValueError) is accepted, also when reached through pop/popitem/clear",
    "the strict CIF 1.1 reader in this driver only produces counted observations (interoperability is not in the statement)",
]
MIN_CASES_PER_WORKER = 200
MANIFEST = {
    "technique": "write/parse round trip with the awkward cell in every table position; lock-step mapping histories "
                 "vs nested dict model on text and binary containers incl. lazy state; contracts at _escape and "
                 "CIFCategory.serialize hooks; sys.monitoring reach counters",
    "level_text": "Runtime monitoring: tens of thousands of generated string tables (awkward-value grammar x every "
                  "(row, column) position, key-value and loop form, awkward names, explicit/inferred masks) are written "
                  "with the real CIF classes, serialised, parsed again and compared cell by cell; thousands of mapping "
                  "histories run on CIFFile/CIFBlock/CIFCategory and BinaryCIFFile/Block/Category in lock-step with a "
                  "dict model, with serialise-then-parse steps forcing the lazy state; contracts wrapped around "
                  "cif._escape and CIFCategory.serialize are evaluated on every call.  Held-on-what-was-observed, not a proof.",
    "level_note": "Trusts numpy string arrays, msgpack and the dict model (audited in selftest).  Says nothing about "
                  "non-printable characters, CR line ends, or what other CIF readers make of the text (counted only).  "
                  "Value classes of open known findings are quarantined into probes.",
    "design_ref": "DESIGN.md section 6, C06",
}

# ---------------------------------------------------------------------------------------------
# triggers (feature classes of known findings)
T_BCIF_DEL = "bcif_block_delitem"
T_HASH = "bare_hash_first_in_row"
T_SEMI = "bare_semicolon_first_on_line"
T_DATA = "bare_data_first_in_row"
T_LOOP = "bare_loop_first_in_row"
T_ML_BLANKS = "textfield_line_blanks"
T_ML_BLANKLINE = "textfield_blank_line"
T_ML_HASH = "textfield_hash_line"
T_ML_SEMI = "textfield_semicolon_line"
T_ML_UNDERSCORE = "textfield_underscore_line"
T_ML_LOOP = "textfield_loop_line"
T_ML_DATA = "textfield_data_line"
T_LITERAL = "literal_dot_question_present"
T_BCIF_NAME = "bcif_category_leading_underscore"
T_BCIF_EQ = "bcif_eq_after_serialize"
T_ROWCOUNT = "row_count_stale"
T_USCORE_SQ = "underscore_apostrophe_blank"

PRESENT, INAPPLICABLE, MISSING = 0, 1, 2

pdbx = None
cif = None
DeserializationError = SerializationError = None
_PENDING = []          # violations found by the hook contracts (raised by the driver after the step)
_CTX = [None]
_ALLOW = {}


def allowed(ctx, trig):
    v = _ALLOW.get(trig)
    if v is None:
        v = _ALLOW[trig] = ctx.allowed(trig)
    return v


def setup(ctx):
    global pdbx, cif, DeserializationError, SerializationError
    import importlib
    import biotite
    import biotite.structure.io.pdbx as pdbx_
    pdbx = pdbx_
    cif = importlib.import_module("biotite.structure.io.pdbx.cif")
    DeserializationError = biotite.DeserializationError
    SerializationError = biotite.SerializationError
    _CTX[0] = ctx
    _ALLOW.clear()
    install_monitors(ctx)


# ---------------------------------------------------------------------------------------------
# contracts at hooks
def install_monitors(ctx):
    if getattr(cif._escape, "_vf_monitor", False):
        return
    orig_escape = cif._escape
    split = cif._split_one_line

    def _escape(value):
        res = orig_escape(value)
        c = _CTX[0]
        if res[:2] == "\n;":
            c.note("escape_textfield_seen")
            return res
        c.oracle("escape_token_inverse")
        try:
            toks = list(split("p " + res + " q"))
        except Exception as e:  # noqa: BLE001 - contract must not change behaviour
            toks = ["<%s>" % type(e).__name__]
        if toks != ["p", str(value), "q"]:
            _PENDING.append(("escape_token_inverse",
                             "_escape(%r) = %r is split back into %r" % (str(value), res, toks[1:-1] if len(toks) > 2 else toks)))
        return res

    _escape.__wrapped__ = orig_escape
    _escape._vf_monitor = True
    cif._escape = _escape

    orig_ser = pdbx.CIFCategory.serialize
    busy = [False]

    def serialize(self):
        text = orig_ser(self)
        if busy[0]:
            return text
        busy[0] = True
        try:
            c = _CTX[0]
            c.oracle("category_serialize_inverse")
            want = [(k, [str(x) for x in col.as_array(str)]) for k, col in self.items()]
            try:
                back = pdbx.CIFCategory.deserialize(text)
                got = [(k, [str(x) for x in col.as_array(str)]) for k, col in back.items()]
                name = back.name
            except Exception as e:  # noqa: BLE001
                got, name = "<%s: %s>" % (type(e).__name__, e), self.name
            if got != want or name != self.name:
                _PENDING.append(("category_serialize_inverse",
                                 "CIFCategory.deserialize(category.serialize()) differs: wrote %r, read %r (name %r -> %r)"
                                 % (want, got, self.name, name)))
        finally:
            busy[0] = False
        return text

    serialize.__wrapped__ = orig_ser
    serialize.__name__ = "serialize"
    serialize.__qualname__ = "CIFCategory.serialize"
    pdbx.CIFCategory.serialize = serialize


def flush_monitors(ctx):
    if _PENDING:
        oracle, msg = _PENDING[0]
        del _PENDING[:]
        ctx.fail(oracle, msg)


# ---------------------------------------------------------------------------------------------
# awkward-value grammar
WORDS = ["x", "ab", "A1", "val", "1.5", "-3", "N", "CA", "0", "abc_d", "a.b", "x-y", "p,q", "(r)", "a=b", "k:v", "a/b",
         "é", "µm", "漢字", "Å", "ß∂", "Ω3"]
LEADS = "_#;$[]'\".?"
RESERVED = ["data_x", "data_", "loop_", "save_", "save_fr", "stop_", "global_", "loop_x"]
BLANKS = [" ", "  ", "\t", " \t"]


def pick(rng, seq):
    return seq[int(rng.integers(len(seq)))]


def casing(rng, w):
    k = int(rng.integers(3))
    if k == 0:
        return w
    if k == 1:
        return w.upper()
    return "".join(ch.upper() if i % 2 == 0 else ch for i, ch in enumerate(w))


def gen_line(rng):
    """One line of a multi-line value."""
    k = int(rng.integers(14))
    w = pick(rng, WORDS)
    if k == 0:
        return pick(rng, BLANKS) + w                    # leading blanks
    if k == 1:
        return w + pick(rng, BLANKS)                    # trailing blanks
    if k == 2:
        return ""                                       # blank line
    if k == 3:
        return pick(rng, BLANKS)                        # white-space-only line
    if k == 4:
        return pick(rng, [";", "#", "_"]) + pick(rng, [w, "", w + " " + w, "c.d"])
    if k == 5:
        return casing(rng, pick(rng, RESERVED)) + pick(rng, ["", " " + w])
    if k == 6:
        return w + pick(rng, ["'", '"']) + pick(rng, ["", " ", w])
    if k == 7:
        return pick(rng, ["'", '"']) + w + pick(rng, ["", "'", '"', " " + w])
    if k == 8:
        return w + " " + pick(rng, WORDS)
    if k == 9:
        return w + "'" + '"'
    if k == 10:
        return pick(rng, LEADS) + w
    return w


def gen_multiline(rng):
    nbreaks = int(rng.integers(1, 4))
    lines = [gen_line(rng) for _ in range(nbreaks + 1)]
    k = int(rng.integers(8))
    if k == 0:
        lines[-1] = ""                                  # trailing newline
    elif k == 1:
        lines[0] = ""                                   # leading newline
    elif k == 2:
        lines = [pick(rng, WORDS) for _ in lines]       # plain lines
    return "\n".join(lines)


def gen_value(rng):
    """-> (value, maskstate); maskstate None = PRESENT, 1/2 = the cell is masked."""
    k = int(rng.integers(20))
    w = pick(rng, WORDS)
    w2 = pick(rng, WORDS)
    q = pick(rng, ["'", '"'])
    if k == 0:
        return pick(rng, LEADS) + pick(rng, [w, "", w + " " + w2, w + q, w + "\t" + w2, w + q + " " + w2, " " + q, q + " " + w,
                                             w + " " + w2 + q + w]), None
    if k == 1:
        return casing(rng, pick(rng, RESERVED)) + pick(rng, ["", "", w, " " + w]), None
    if k == 2:
        return pick(rng, [w + " " + w2, " " + w, w + " ", " ", "  ", w + "  " + w2, " " + w + " "]), None
    if k == 3:
        return pick(rng, [w + "\t" + w2, "\t", "\t" + w, w + "\t", w + " \t" + w2]), None
    if k == 4:
        return pick(rng, [w + q + " " + w2, q + w + q + " " + w2, w + " " + q + w2, w + q + " ", q + " " + w, w + " " + q + " " + w2]), None
    if k == 5:
        return pick(rng, [w + q, q, q + q, q + w + q, w + q + w2 + q, q + w]), None
    if k == 6:
        return pick(rng, [w + "'" + w2 + '"', "'\"", '"' + w + "' " + w2, " " + w + "'\"", "\"'", w + "\"' " + w2 + "'\"",
                          "'" + w + "' \"" + w2 + "\"", w + "'\" "]), None
    if k == 7:
        return "", None
    if k == 8:
        st = int(rng.integers(4))
        if st == 0:
            return pick(rng, [".", "?"]), None            # inferred mask
        if st == 1:
            return pick(rng, [".", "?"]), PRESENT          # literal, needs an explicit mask column
        return pick(rng, [".", "?", w, "", "a b"]), (INAPPLICABLE if st == 2 else MISSING)
    if k == 9:
        return pick(rng, ["..", "?x", ".5", "?.", ". ", " ?", "'.'", '"?"']), None
    if k in (10, 11, 12):
        return gen_multiline(rng), None
    if k == 13:
        return pick(rng, ["é", "µm 漢字", "Å'", "ß∂\tΩ", "naïve café", "→x", "😀", "#é", ";漢", "_Å"]), None
    if k == 14:
        return pick(rng, WORDS) * int(rng.integers(20, 120)), None
    if k == 15:
        return w + pick(rng, "#;_$[].?") + w2, None
    if k == 16:
        return pick(rng, ["1", "-0.5", "1e-3", "+7", "1(2)", "0x1F", "NaN", "inf"]), None
    if k == 17:
        return pick(rng, ["#", ";", "_", "$", "[", "]", "#" + w, ";" + w, "data_" + w, "loop_", "#;", ";#", "data_" + w + "#"]), None
    return w, None


def is_textfield(v):
    return "\n" in v or ("'" in v and '"' in v)


def is_bare(v):
    """Written without quotes by biotite (`_escape` falls through)."""
    return (not is_textfield(v)) and v != "" and v[0] != "_" and not any(ch in v for ch in "'\" \t")


def cell_triggers(v, looped, col, prev_textfield):
    """Feature classes (triggers of findings) of the *written* text v at this place of the row."""
    t = set()
    if is_textfield(v):
        lines = v.split("\n")
        if lines[0] != lines[0].rstrip():
            t.add(T_ML_BLANKS)
        for ln in lines[1:]:
            if ln.strip() == "":
                t.add(T_ML_BLANKLINE)
                continue
            if ln != ln.strip():
                t.add(T_ML_BLANKS)
            if ln[0] == "#":
                t.add(T_ML_HASH)
            elif ln[0] == ";":
                t.add(T_ML_SEMI)
            elif ln[0] == "_":
                t.add(T_ML_UNDERSCORE)
            elif ln.startswith("loop_"):
                t.add(T_ML_LOOP)
            elif ln.startswith("data_"):
                t.add(T_ML_DATA)
    elif v[:1] == "_" and "'" in v and " " in v:
        t.add(T_USCORE_SQ)
    elif looped and is_bare(v):
        if v[0] == ";" and (col == 0 or prev_textfield):
            t.add(T_SEMI)
        if col == 0:
            if v[0] == "#":
                t.add(T_HASH)
            elif v.startswith("data_"):
                t.add(T_DATA)
            elif v.startswith("loop_"):
                t.add(T_LOOP)
    return t


def worst_case_triggers(v):
    """Triggers of v in the most exposed place (first in a loop row / after a text field)."""
    return cell_triggers(v, True, 0, True)


def written(v, st):
    if st == INAPPLICABLE:
        return "."
    if st == MISSING:
        return "?"
    return v


def triggers_ok(ctx, trigs):
    for t in trigs:
        if not allowed(ctx, t):
            return False
    return True


def gen_safe_value(rng, ctx, looped=True, col=0, prev_textfield=True, allow_literal=True, no_unrepresentable=False):
    """A grammar value none of whose feature classes is quarantined at this place."""
    for _ in range(12):
        v, st = gen_value(rng)
        if st == PRESENT and not (allow_literal and allowed(ctx, T_LITERAL)):
            ctx.note("generator_skipped:" + T_LITERAL)
            continue
        tr = cell_triggers(written(v, st), looped, col, prev_textfield)
        if no_unrepresentable and T_ML_SEMI in tr:
            continue
        bad = [t for t in tr if not allowed(ctx, t)]
        if bad:
            for t in bad:
                ctx.note("generator_skipped:" + t)
            continue
        return v, st
    return pick(rng, WORDS), None


# ---------------------------------------------------------------------------------------------
# names
def gen_name(rng, ctx, used, binary_category=False, kind="cat"):
    for _ in range(50):
        k = int(rng.integers(9))
        if k == 0:
            n = pick(rng, ["atom_site", "entity", "cell", "c1", "struct_conn", "pdbx_x", "id", "type_symbol", "1ABC", "x"])
        elif k == 1:
            n = pick(rng, ["a_b_c", "x__y", "trail_", "a_", "A_B"])
        elif k == 2:
            n = pick(rng, ["1abc", "123", "a1", "0", "7_x"])
        elif k == 3:
            n = pick(rng, ["_x", "__y", "_", "_1"])
        elif k == 4:
            n = casing(rng, pick(rng, ["data_x", "loop_", "save_", "global_", "stop_", "data_"]))
        elif k == 5:
            n = pick(rng, ["a-b", "m[1]", "a/b", "a+b", "u[1][2]", "x(1)", "a:b", "k=v", "%p", "a;b", "$a", "[q]"])
        elif k == 6:
            n = pick(rng, ["Ab", "ab", "AB", "aB"])
        else:
            ln = int(rng.integers(1, 9))
            alphabet = "abcdefghijklmnopqrstuvwxyzABCDEFGHIJKLMNOPQRSTUVWXYZ0123456789_"
            n = "".join(alphabet[int(i)] for i in rng.integers(0, len(alphabet), ln))
        if binary_category and n.startswith("_") and not allowed(ctx, T_BCIF_NAME):
            ctx.note("generator_skipped:" + T_BCIF_NAME)
            continue
        if n in used:
            n = n + str(len(used))
            if n in used:
                continue
        return n
    return "n%d" % len(used)


# ---------------------------------------------------------------------------------------------
# model: file = {block: {category: {column: {"values": [...], "mask": None | [...]}}}}
class CatModel(dict):
    """dict of columns that remembers the row count it was created with."""
    nrows = None


def infer_mask(values):
    return [INAPPLICABLE if v == "." else MISSING if v == "?" else PRESENT for v in values]


def expected_text(cm):
    if cm["mask"] is None:
        return list(cm["values"])
    return [written(v, m) for v, m in zip(cm["values"], cm["mask"])]


def expected_mask(cm):
    """Mask of the table (what the statement wants back)."""
    if cm["mask"] is None:
        return infer_mask(cm["values"])
    return [int(m) for m in cm["mask"]]


def model_key(model):
    return [[b, [[c, getattr(cat, "nrows", None), list(cat.keys())] for c, cat in blk.items()]] for b, blk in model.items()]


# ---------------------------------------------------------------------------------------------
# strict CIF 1.1 reader (observer only)
_WS = " \t"


def strict_tokens(text):
    """CIF 1.1 lexer: ('data', name) ('loop',) ('name', n) ('value', v) ('reserved', w) ('bad', w)."""
    out = []
    lines = text.split("\n")
    i = 0
    while i < len(lines):
        line = lines[i]
        if line[:1] == ";":
            buf = [line[1:]]
            i += 1
            while i < len(lines) and lines[i][:1] != ";":
                buf.append(lines[i])
                i += 1
            if i >= len(lines):
                out.append(("bad", "unterminated text field"))
                return out
            out.append(("value", "\n".join(buf)))
            line = lines[i][1:]
            if line and line[0] not in _WS:
                out.append(("bad", "text field terminator followed by " + line[:8]))
                line = ""
        p, n = 0, len(line)
        while p < n:
            ch = line[p]
            if ch in _WS:
                p += 1
                continue
            if ch == "#":
                break
            if ch in "'\"":
                e = p + 1
                while True:
                    e = line.find(ch, e)
                    if e < 0:
                        out.append(("bad", "unterminated quote"))
                        e = n
                        break
                    if e + 1 >= n or line[e + 1] in _WS:
                        break
                    e += 1
                out.append(("value", line[p + 1:e]))
                p = e + 1
                continue
            e = p
            while e < n and line[e] not in _WS:
                e += 1
            w = line[p:e]
            lw = w.lower()
            if w[0] == "_":
                out.append(("name", w))
            elif lw.startswith("data_"):
                out.append(("data", w[5:]))
            elif lw == "loop_":
                out.append(("loop",))
            elif lw.startswith("save_") or lw in ("stop_", "global_"):
                out.append(("reserved", w))
            elif w[0] in "$[]":
                out.append(("bad", "bare word starts with " + w[0]))
            else:
                out.append(("value", w))
            p = e
        i += 1
    return out


def strict_read(text):
    """-> {block: {category: {column: [values]}}} or ('error', reason)."""
    toks = strict_tokens(text)
    res, blk = {}, None
    i = 0
    try:
        while i < len(toks):
            t = toks[i]
            if t[0] == "data":
                blk = res.setdefault(t[1], {})
                i += 1
            elif t[0] == "loop":
                i += 1
                names = []
                while i < len(toks) and toks[i][0] == "name":
                    names.append(toks[i][1])
                    i += 1
                vals = []
                while i < len(toks) and toks[i][0] == "value":
                    vals.append(toks[i][1])
                    i += 1
                if not names or len(vals) % len(names) or not vals:
                    return ("error", "loop with %d names and %d values" % (len(names), len(vals)))
                for j, nm in enumerate(names):
                    c, k = nm[1:].split(".", 1)
                    blk.setdefault(c, {})[k] = vals[j::len(names)]
            elif t[0] == "name":
                if i + 1 >= len(toks) or toks[i + 1][0] != "value":
                    return ("error", "name without value")
                c, k = t[1][1:].split(".", 1)
                blk.setdefault(c, {})[k] = [toks[i + 1][1]]
                i += 2
            else:
                return ("error", "%s token %r out of place" % (t[0], t[1:] and t[1]))
    except (ValueError, AttributeError) as e:
        return ("error", "structure: %s" % e)
    return res


def observe_strict(ctx, text, model):
    want = {b: {c: {k: expected_text(cm) for k, cm in cat.items()} for c, cat in blk.items()} for b, blk in model.items()}
    got = strict_read(text)
    if isinstance(got, tuple):
        ctx.note("strict_cif11_reader:invalid_text")
    elif got == want:
        ctx.note("strict_cif11_reader:same_tables")
    else:
        ctx.note("strict_cif11_reader:different_tables")


# ---------------------------------------------------------------------------------------------
# flavours
class Text:
    name = "text"
    binary = False

    @staticmethod
    def classes():
        return pdbx.CIFFile, pdbx.CIFBlock, pdbx.CIFCategory, pdbx.CIFColumn

    @staticmethod
    def column(cm, style=0):
        vals = cm["values"]
        data = np.array(vals, dtype=str) if style % 2 else list(vals)
        if style % 4 == 3 and len(vals):
            # the strings in an array of a wider type than they need (a chain_id column is 'U4', a slice of a larger
            # table keeps the width of that table): the content is the same
            data = np.array(vals, dtype="U%d" % (max(len(v) for v in vals) + 1 + style % 5))
        if style % 3 == 2:
            data = pdbx.CIFData(data, str)
        if cm["mask"] is None:
            return pdbx.CIFColumn(data)
        mask = cm["mask"]
        if style % 2:
            mask = np.array(mask, dtype=np.uint8)
        elif style % 5 == 4:
            mask = pdbx.CIFData(np.array(mask, dtype=np.uint8))
        else:
            mask = [pdbx.MaskValue(int(m)) for m in mask]
        return pdbx.CIFColumn(data, mask)

    @staticmethod
    def reparse(f):
        text = f.serialize()
        return pdbx.CIFFile.deserialize(text)


class Bin:
    name = "bin"
    binary = True

    @staticmethod
    def classes():
        return pdbx.BinaryCIFFile, pdbx.BinaryCIFBlock, pdbx.BinaryCIFCategory, pdbx.BinaryCIFColumn

    @staticmethod
    def column(cm, style=0):
        vals = cm["values"]
        data = np.array(vals, dtype=str) if style % 2 else list(vals)
        if style % 3 == 2:
            data = pdbx.BinaryCIFData(np.array(vals, dtype=str))
        mask = cm["mask"]
        if mask is None:
            m = infer_mask(vals)
            mask = m if any(m) else None
        if mask is None:
            return pdbx.BinaryCIFColumn(data)
        # BinaryCIFData equality includes the encoding, which is derived from the dtype: the mask
        # dtype is therefore kept fixed (a uint8 mask and an int64 mask are different objects by design)
        mask = np.array(mask, dtype=np.uint8)
        return pdbx.BinaryCIFColumn(data, pdbx.BinaryCIFData(mask) if style % 5 == 4 else mask)

    @staticmethod
    def reparse(f):
        ctx = _CTX[0]
        if ctx is not None and ctx.index % 4 == 1:
            from vf.core import through_disk
            return through_disk(ctx, f, pdbx.BinaryCIFFile, True, ".bcif", as_pathlib=ctx.index % 8 == 1)[0]
        bio = io.BytesIO()
        f.write(bio)
        bio.seek(0)
        return pdbx.BinaryCIFFile.read(bio)


def make(flv, model, level, style=0):
    """Real object for a model subtree (level 0 file, 1 block, 2 category, 3 column)."""
    File, Block, Category, Column = flv.classes()
    if level == 3:
        return flv.column(model, style)
    if level == 2:
        if not model:
            return Category()
        if style % 4 == 3:
            c = Category()
            for k, cm in model.items():
                c[k] = flv.column(cm, style)
            return c
        if style % 4 == 2 and all(cm["mask"] is None and (not flv.binary or not any(infer_mask(cm["values"]))) for cm in model.values()):
            # raw lists are coerced by the constructor
            return Category({k: list(cm["values"]) for k, cm in model.items()})
        return Category({k: flv.column(cm, style) for k, cm in model.items()})
    cls = Block if level == 1 else File
    if style % 2:
        c = cls()
        for k, sub in model.items():
            c[k] = make(flv, sub, level + 1, style)
        return c
    return cls({k: make(flv, sub, level + 1, style) for k, sub in model.items()})


# ---------------------------------------------------------------------------------------------
# comparison with the model
def compare_column(ctx, col, cm, where, o_cells="cells_roundtrip", o_masks="masks_roundtrip"):
    want = expected_text(cm)
    ctx.oracle(o_cells)
    arr = col.as_array(str)
    if arr.ndim != 1 or arr.dtype.kind != "U":
        ctx.fail(o_cells, "%s: as_array(str) has dtype %s shape %s" % (where, arr.dtype, arr.shape))
    got = [str(x) for x in arr]
    if len(got) != len(want) or len(col) != len(want):
        ctx.fail(o_cells, "%s: %d rows written, %d rows read (len(column)=%d)" % (where, len(want), len(got), len(col)),
                 written=want, read=got)
    for i, (g, w) in enumerate(zip(got, want)):
        if g != w:
            ctx.fail(o_cells, "%s row %d: wrote %r, read %r" % (where, i, w, g), written=want, read=got)
    ctx.oracle(o_masks)
    wm = expected_mask(cm)
    gm = [0] * len(got) if col.mask is None else [int(x) for x in col.mask.array]
    if gm != wm:
        ctx.fail(o_masks, "%s: mask written %r, read %r (cells %r)" % (where, wm, gm, want))
    if len(want) == 1:
        item = col.as_item()
        if str(item) != want[0]:
            ctx.fail(o_cells, "%s: as_item() = %r, expected %r" % (where, item, want[0]))


def compare_tree(ctx, real, model, level, where="file", o_names="names_roundtrip",
                 o_cells="cells_roundtrip", o_masks="masks_roundtrip"):
    """Deep comparison; forces deserialisation of everything below `real`."""
    if level == 3:
        return compare_column(ctx, real, model, where, o_cells, o_masks)
    ctx.oracle(o_names)
    keys = list(real.keys())
    if keys != list(model.keys()) or len(real) != len(model):
        ctx.fail(o_names, "%s: keys written %r, read %r (len %d)" % (where, list(model.keys()), keys, len(real)))
    for k, sub in model.items():
        try:
            child = real[k]
        except DeserializationError as e:
            ctx.exc(e)
            ctx.fail("parse_back_failed", "%s[%r]: %s" % (where, k, e))
        compare_tree(ctx, child, sub, level + 1, "%s[%r]" % (where, k), o_names, o_cells, o_masks)
    if level == 2 and model:
        n = len(next(iter(model.values()))["values"])
        if real.row_count != n:
            ctx.fail(o_cells, "%s: row_count %r, expected %d" % (where, real.row_count, n))


def unrepresentable(model):
    for blk in model.values():
        for cat in blk.values():
            for cm in cat.values():
                for v in expected_text(cm):
                    if "\n;" in v:
                        return True
    return False


def text_roundtrip(ctx, model, style=0, observe=True):
    """Build with the public classes, serialise, parse, compare.  Returns the text (or None if refused)."""
    f = make(Text, model, 0, style)
    ctx.op("text_serialize")
    try:
        parsed_from_disk = None
        if style % 3 == 1 and ctx.index % 2 == 1:
            from vf.core import through_disk
            parsed_from_disk, text = through_disk(ctx, f, pdbx.CIFFile, False, ".cif", as_pathlib=ctx.index % 4 == 1)
        elif style % 3 == 1:
            sio = io.StringIO()
            f.write(sio)
            text = sio.getvalue()
        else:
            text = f.serialize()
    except (SerializationError, ValueError) as e:
        ctx.exc(e)
        ctx.oracle("unrepresentable_refused_or_exact")
        if unrepresentable(model):
            ctx.note("refused_unrepresentable_value")
            del _PENDING[:]
            return None
        ctx.fail("serialize_failed", "serialize() raised %s: %s" % (type(e).__name__, e))
    ctx.op("text_parse")
    if parsed_from_disk is not None:
        parsed = parsed_from_disk
    elif style % 3 == 1:
        parsed = pdbx.CIFFile.read(io.StringIO(text))
    else:
        parsed = pdbx.CIFFile.deserialize(text)
    compare_tree(ctx, parsed, model, 0)
    if unrepresentable(model):
        ctx.oracle("unrepresentable_refused_or_exact")
    flush_monitors(ctx)
    if observe:
        observe_strict(ctx, text, model)
    return text


def bcif_roundtrip(ctx, model, style=0):
    f = make(Bin, model, 0, style)
    ctx.op("bcif_write_read")
    g = Bin.reparse(f)
    compare_tree(ctx, g, model, 0, "bcif", "bcif_names_roundtrip", "bcif_cells_roundtrip", "bcif_masks_roundtrip")


# ---------------------------------------------------------------------------------------------
# representative values for the complete enumeration
def _representatives():
    r = []
    for ch in LEADS:
        r.append((ch + "x", None))
    r += [(ch, None) for ch in "_#;$[]'\""]
    for w in ["data_x", "data_", "loop_", "save_", "save_fr", "stop_", "global_"]:
        r += [(w, None), (w.upper(), None), (w[0].upper() + w[1:], None)]
    r += [(v, None) for v in [
        "a b", " a", "a ", " ", "  ", "a\tb", "\t", "\ta", "a\t",
        "a' b", "a\" b", "'a' b", "\"a\" b", "a 'b", "a' ", "' a", "a ' b",
        "a'", "a\"", "''", "\"\"", "'a'", "\"a\"", "a'b'", "'a",
        "a'b\"", "'\"", "\"'", "\"a' b", " a'\"", "a'\" ", "'a' \"b\"", "#a'b\"", ";a'\"", "_a'\"",
        "", "..", "?y", ".5", "'.'", "\"?\"", ". ",
        "a\nb", "a\nb\nc", "a\nb\nc\nd", "\na", "a\n'b", "a\n\"b c", "é\n漢", "a\nb'c\"",
        "a\n b", "a\n\tb", "a \nb", "a\nb ", " a\nb", "a\n b ",
        "a\n\nb", "a\n", "\n", "a\n \nb", "\n\na", "a\n\n",
        "a\n#b", "a\n#", "a\n;b", "a\n;", "a\n;\nb", "a\n_b", "a\n_b.c", "a\n_", "a\nloop_", "a\nloop_x", "a\ndata_q", "a\ndata_",
        "a\nsave_", "a\nstop_", "a\nglobal_", "a\nLOOP_", "a\nDATA_q", "a\n ;b", "a\n #b", "a\n _b",
        "é", "µm", "漢字", "Å b", "naïve'", "😀",
        "_a' b", "_ '", "_a b'c", "_a\" b", "_a'b", "_a'\tb", "#a' b", ";a\" b", "$a' b",
        "a#b", "a;b", "a_b", "a$b", "x" * 90, "1.5", "-3", "#;", ";#", "#a b", ";a b", "data_x y", "loop_ y", "#a\tb",
    ]]
    for v in [".", "?"]:
        r += [(v, None), (v, PRESENT), (v, INAPPLICABLE), (v, MISSING)]
    r += [("abc", INAPPLICABLE), ("abc", MISSING), ("", INAPPLICABLE), ("a b", MISSING), ("a\nb", INAPPLICABLE)]
    return r


REPRESENTATIVES = _representatives()
_SHAPE_POS = [(nr, nc, r, c) for nr in (1, 2, 3) for nc in (1, 2, 3) for r in range(nr) for c in range(nc)]
ENUM_TOTAL = len(REPRESENTATIVES) * len(_SHAPE_POS)


def filler_table(rng, nrows, ncols, kind):
    t = []
    for i in range(nrows):
        row = []
        for j in range(ncols):
            if kind == "plain" or rng is None:
                row.append("f%d%d" % (i, j))
            elif kind == "quoted":
                row.append(pick(rng, ["f %d%d" % (i, j), "it's", 'say "x"', "f\t%d" % j, "_f%d" % i, ""]))
            elif kind == "textfield":
                row.append(pick(rng, ["l%d\nm%d" % (i, j), "a'b\"%d" % j, "p\nq\nr"]))
            elif kind == "masked":
                row.append(pick(rng, [".", "?", "f%d%d" % (i, j)]))
            else:
                row.append(pick(rng, ["f%d%d" % (i, j), "g h", "l\nm", ".", "?", "", "it's", "µ"]))
        t.append(row)
    return t


def table_model(table, masks, colnames):
    """masks[j] is None (inferred) or a list of states for column j."""
    cat = CatModel()
    cat.nrows = len(table)
    for j, name in enumerate(colnames):
        cat[name] = {"values": [row[j] for row in table], "mask": None if masks[j] is None else list(masks[j])}
    return cat


def place_and_check(ctx, table, r, c, v, st):
    """Copy of `table` with (v, st) at (r, c) -> (table, masks) or None when that place is quarantined."""
    nrows, ncols = len(table), len(table[0])
    t = [list(row) for row in table]
    t[r][c] = v
    masks = [None] * ncols
    if st is not None:
        col = infer_mask([row[c] for row in t])
        col[r] = st
        masks[c] = col
        if st == PRESENT and not allowed(ctx, T_LITERAL):
            ctx.note("position_skipped:" + T_LITERAL)
            return None
    looped = nrows > 1
    wr = [[written(t[i][j], None if masks[j] is None else masks[j][i]) for j in range(ncols)] for i in range(nrows)]
    for i in range(nrows):
        for j in range(ncols):
            tr = cell_triggers(wr[i][j], looped, j, j > 0 and is_textfield(wr[i][j - 1]))
            for tg in tr:
                if not allowed(ctx, tg):
                    ctx.note("position_skipped:" + tg)
                    return None
    return t, masks


def nontrivial_value(v, st):
    return st is not None or not (is_bare(v) and v[0] not in LEADS and "_" not in v)


def case_enum_pos(rng, ctx, index):
    k = index % ENUM_TOTAL
    variant = index // ENUM_TOTAL
    v, st = REPRESENTATIVES[k // len(_SHAPE_POS)]
    nrows, ncols, r, c = _SHAPE_POS[k % len(_SHAPE_POS)]
    if variant == 0:
        base = filler_table(None, nrows, ncols, "plain")
        bname, cname, cols = "blk", "cat", ["c%d" % j for j in range(ncols)]
        kind = "plain"
    else:
        kind = pick(rng, ["plain", "quoted", "textfield", "masked", "mixed"])
        base = filler_table(rng, nrows, ncols, kind)
        bname = gen_name(rng, ctx, set(), kind="block")
        cname = gen_name(rng, ctx, set())
        cols = []
        for _ in range(ncols):
            cols.append(gen_name(rng, ctx, set(cols), kind="col"))
    ctx.log("table", {"shape": [nrows, ncols], "pos": [r, c], "value": v, "maskstate": st, "fillers": kind,
                      "block": bname, "category": cname, "columns": cols, "base": base})
    placed = place_and_check(ctx, base, r, c, v, st)
    if placed is None:
        ctx.op("enum_case_quarantined")
        return
    t, masks = placed
    model = {bname: {cname: table_model(t, masks, cols)}}
    ctx.op("roundtrip_loop" if nrows > 1 else "roundtrip_keyvalue")
    text_roundtrip(ctx, model, style=index % 6)
    ctx.mark_nontrivial(nontrivial_value(v, st))
    ctx.state(["enum", k // len(_SHAPE_POS), nrows, ncols, r, c])


def case_table_pos(rng, ctx):
    nrows = int(rng.integers(1, 7))
    ncols = int(rng.integers(1, 6))
    kind = pick(rng, ["plain", "plain", "quoted", "textfield", "masked", "mixed"])
    base = filler_table(rng, nrows, ncols, kind)
    v, st = gen_value(rng)
    bname = gen_name(rng, ctx, set(), kind="block")
    cname = gen_name(rng, ctx, set())
    cols = []
    for _ in range(ncols):
        cols.append(gen_name(rng, ctx, set(cols), kind="col"))
    style = int(rng.integers(30))
    ctx.log("table_all_positions", {"shape": [nrows, ncols], "value": v, "maskstate": st, "fillers": kind, "block": bname,
                                    "category": cname, "columns": cols, "base": base, "style": style})
    done = 0
    for r in range(nrows):
        for c in range(ncols):
            placed = place_and_check(ctx, base, r, c, v, st)
            if placed is None:
                continue
            t, masks = placed
            model = {bname: {cname: table_model(t, masks, cols)}}
            ctx.op("roundtrip_loop" if nrows > 1 else "roundtrip_keyvalue")
            try:
                text_roundtrip(ctx, model, style=style, observe=(r == 0 and c == 0))
            except Exception:
                ctx.log("failing_position", [r, c])
                raise
            done += 1
    ctx.mark_nontrivial(done > 0 and nontrivial_value(v, st))
    ctx.state(["pos", nrows, ncols, sorted(cell_triggers(written(v, st), True, 0, True)), is_textfield(v), is_bare(v), st])


def gen_mixed_category(rng, ctx, nrows=None, ncols=None, binary=False, worst_case=False, canonical=False):
    """Category whose every cell comes from the grammar, gated by place.
    canonical: masks are always inferred (the data under a masked cell is '.'/'?')."""
    nrows = nrows or int(rng.integers(1, 7))
    ncols = ncols if ncols is not None else int(rng.integers(1, 6))
    looped = nrows > 1
    cols = []
    for _ in range(ncols):
        cols.append(gen_name(rng, ctx, set(cols), kind="col"))
    explicit = [(not canonical) and rng.random() < 0.35 for _ in range(ncols)]
    table = [[None] * ncols for _ in range(nrows)]
    states = [[None] * ncols for _ in range(nrows)]
    for i in range(nrows):
        for j in range(ncols):
            if rng.random() < 0.35:
                v, st = pick(rng, WORDS), None
            elif binary:
                v, st = gen_value(rng)
            else:
                prev_tf = j > 0 and is_textfield(written(table[i][j - 1], states[i][j - 1]))
                v, st = gen_safe_value(rng, ctx, looped or worst_case, 0 if worst_case else j, prev_tf or worst_case,
                                       allow_literal=explicit[j], no_unrepresentable=worst_case)
            if st is not None and not explicit[j]:
                # no explicit mask for this column: write the masked cell in its canonical form
                v, st = ("." if st == INAPPLICABLE else "?" if st == MISSING else v), None
            table[i][j], states[i][j] = v, st
    cat = CatModel()
    cat.nrows = nrows
    for j, name in enumerate(cols):
        vals = [table[i][j] for i in range(nrows)]
        if explicit[j]:
            inf = infer_mask(vals)
            mask = [inf[i] if states[i][j] is None else states[i][j] for i in range(nrows)]
            if not binary and not allowed(ctx, T_LITERAL):
                mask = [inf[i] if (mask[i] == PRESENT and vals[i] in (".", "?")) else mask[i] for i in range(nrows)]
        else:
            mask = None
        cat[name] = {"values": vals, "mask": mask}
    return cat


def case_table_mixed(rng, ctx):
    nb = int(rng.choice([1, 1, 2, 3]))
    model = {}
    for _ in range(nb):
        bname = gen_name(rng, ctx, set(model), kind="block")
        blk = {}
        for _ in range(int(rng.choice([1, 1, 2, 3]))):
            cname = gen_name(rng, ctx, set(blk))
            blk[cname] = gen_mixed_category(rng, ctx)
        model[bname] = blk
    style = int(rng.integers(30))
    ctx.log("style", style)
    ctx.log("file", model)
    ctx.op("roundtrip_file")
    text_roundtrip(ctx, model, style=style)
    if rng.random() < 0.4:
        # the same tables through the binary flavour (category names gated for the binary block)
        ok = all(not c.startswith("_") for blk in model.values() for c in blk) or allowed(ctx, T_BCIF_NAME)
        if ok:
            bcif_roundtrip(ctx, model, style=style)
    ctx.mark_nontrivial()
    ctx.state(["mixed", [[len(cat), cat.nrows] for blk in model.values() for cat in blk.values()]])


# ---------------------------------------------------------------------------------------------
# mapping histories
_SENTINEL = object()


class Hist:
    def __init__(self, ctx, rng, flv):
        self.ctx, self.rng, self.flv = ctx, rng, flv
        self.model = {}
        self.file = None
        self.mutated = False
        self.lazy_since = False     # a reparse happened and an operation ran afterwards
        self.reparsed = False

    # ---- generation of subtrees
    def gen_cat(self, nrows=None, allow_empty=True):
        rng, ctx = self.rng, self.ctx
        if allow_empty and rng.random() < 0.06:
            c = CatModel()
            c.nrows = None
            return c
        return gen_mixed_category(rng, ctx, nrows=nrows or int(rng.integers(1, 5)), ncols=int(rng.integers(1, 4)),
                                  binary=self.flv.binary, worst_case=True, canonical=True)

    def gen_col(self, nrows):
        cat = gen_mixed_category(self.rng, self.ctx, nrows=nrows, ncols=1, binary=self.flv.binary, worst_case=True, canonical=True)
        return next(iter(cat.values()))

    def gen_block(self):
        blk = {}
        for _ in range(int(self.rng.choice([0, 1, 1, 2, 3]))):
            blk[gen_name(self.rng, self.ctx, set(blk), binary_category=self.flv.binary)] = self.gen_cat()
        return blk

    def gen_child(self, level, parent_model):
        """level = level of the container that receives the child."""
        if level == 0:
            return self.gen_block()
        if level == 1:
            return self.gen_cat()
        n = parent_model.nrows
        if n is None:
            n = int(self.rng.integers(1, 5))
        return self.gen_col(n)

    def new_key(self, level, m):
        return gen_name(self.rng, self.ctx, set(m), binary_category=(self.flv.binary and level == 1),
                        kind=("block", "cat", "col")[level])

    # ---- checks
    def shallow(self, cont, m, where):
        ctx = self.ctx
        ctx.oracle("mapping_state_vs_dict")
        keys = list(cont)
        if len(cont) != len(m) or keys != list(m.keys()) or list(cont.keys()) != keys:
            ctx.fail("mapping_state_vs_dict", "%s: len %d keys %r, model %r" % (where, len(cont), keys, list(m.keys())))
        for k in keys[:3]:
            if k not in cont:
                ctx.fail("mapping_state_vs_dict", "%s: key %r is iterated but `in` says no" % (where, k))
        if "no such key" in cont:
            ctx.fail("mapping_state_vs_dict", "%s: absent key reported as contained" % where)

    def deep(self, real, m, level, where, oracle="deep_state_vs_dict"):
        self.ctx.oracle(oracle)
        compare_tree(self.ctx, real, m, level, where, oracle, oracle, oracle)

    def serialisable(self, m, level):
        if level == 2:
            return len(m) > 0
        return all(self.serialisable(s, level + 1) for s in m.values())

    def twin(self, m, level):
        return make(self.flv, m, level, int(self.rng.integers(12)))


def hist_expect(ctx, fn, classes, what):
    """fn must raise one of `classes`."""
    ctx.oracle("mapping_exception_vs_dict")
    try:
        res = fn()
    except classes as e:
        ctx.exc(e)
        return
    ctx.fail("mapping_exception_vs_dict", "%s returned %r instead of raising %s" % (what, repr(res)[:120], "/".join(c.__name__ for c in classes)))


def hist_step(H):
    ctx, rng, flv = H.ctx, H.rng, H.flv
    File, Block, Category, Column = flv.classes()
    # ---- choose the container
    level = int(rng.choice([0, 1, 2], p=[0.25, 0.35, 0.40]))
    cont, m, path = H.file, H.model, []
    for lv in range(level):
        if not m:
            level = lv
            break
        k = pick(rng, list(m.keys()))
        cont, m = cont[k], m[k]
        path.append(k)
    where = "file" + "".join("[%r]" % p for p in path)
    keys = list(m.keys())
    is_bin_block = flv.binary and level == 1
    is_text_cat = (not flv.binary) and level == 2
    ops = ["set_new", "set_new", "set_existing", "get", "get_missing", "delete", "delete_missing", "contains", "len_iter",
           "eq", "pop", "pop_default", "popitem", "update", "setdefault", "clear", "rename", "wrong_type",
           "reparse", "reparse", "get_method", "views", "resize_sole_column", "block_property", "set_serialized"]
    op = pick(rng, ops)
    if H.reparsed:
        H.lazy_since = True
    ctx.op("%s:%s" % (("file", "block", "category")[level], op))
    del_ok = not (is_bin_block and not allowed(ctx, T_BCIF_DEL))

    if op in ("set_new", "set_existing"):
        if op == "set_existing" and not keys:
            op = "set_new"
        key = pick(rng, keys) if op == "set_existing" else H.new_key(level, m)
        child = H.gen_child(level, m)
        ctx.log(op, path, key, child)
        raw = level == 2 and rng.random() < 0.3 and (not flv.binary or not any(infer_mask(child["values"])))
        cont[key] = list(child["values"]) if raw else make(flv, child, level + 1, int(rng.integers(12)))
        m[key] = child
        if level == 2 and m.nrows is None:
            m.nrows = len(child["values"])
        H.mutated = True
    elif op == "set_serialized":
        # the binary containers document that an element may be given in serialised (dict) form
        if not flv.binary:
            return
        key = pick(rng, keys) if keys and rng.random() < 0.3 else H.new_key(level, m)
        child = H.gen_child(level, m)
        if not H.serialisable(child, level + 1) if level < 2 else False:
            return
        ctx.log("set_serialized", path, key, child)
        cont[key] = make(flv, child, level + 1, int(rng.integers(12))).serialize()
        m[key] = child
        if level == 2 and m.nrows is None:
            m.nrows = len(child["values"])
        H.mutated = True
    elif op == "get":
        if not keys:
            return
        key = pick(rng, keys)
        ctx.log("get", path, key)
        ctx.oracle("mapping_result_vs_dict")
        H.deep(cont[key], m[key], level + 1, where + "[%r]" % key, "mapping_result_vs_dict")
    elif op == "get_missing":
        key = H.new_key(level, m)
        ctx.log("get_missing", path, key)
        hist_expect(ctx, lambda: cont[key], (KeyError,), "%s[%r]" % (where, key))
    elif op == "delete":
        if not keys or not del_ok:
            return
        key = pick(rng, keys)
        ctx.log("delete", path, key)
        if is_text_cat and len(m) == 1:
            hist_expect(ctx, lambda: cont.__delitem__(key), (ValueError,), "del of the last column")
            ctx.oracle("state_unchanged_after_reject")
        else:
            del cont[key]
            del m[key]
            H.mutated = True
    elif op == "delete_missing":
        if not del_ok:
            return
        key = H.new_key(level, m)
        ctx.log("delete_missing", path, key)
        classes = (KeyError, ValueError) if (is_text_cat and len(m) == 1) else (KeyError,)
        hist_expect(ctx, lambda: cont.__delitem__(key), classes, "del %s[%r]" % (where, key))
        ctx.oracle("state_unchanged_after_reject")
    elif op == "contains":
        key = pick(rng, keys) if keys and rng.random() < 0.6 else H.new_key(level, m)
        ctx.log("contains", path, key)
        ctx.check((key in cont) == (key in m), "mapping_result_vs_dict", "%r in %s is %s" % (key, where, key in cont))
    elif op == "len_iter":
        ctx.log("len_iter", path)
        ctx.check(len(cont) == len(m), "mapping_result_vs_dict", "len(%s) = %d, model %d" % (where, len(cont), len(m)))
        ctx.check(list(iter(cont)) == keys and [k for k, _ in cont.items()] == keys, "mapping_result_vs_dict",
                  "iteration of %s gives %r, model %r" % (where, list(iter(cont)), keys))
    elif op == "views":
        ctx.log("views", path)
        vals = list(cont.values())
        ctx.check(len(vals) == len(m), "mapping_result_vs_dict", "values() of %s has %d entries" % (where, len(vals)))
        for k, child in zip(keys, vals):
            H.deep(child, m[k], level + 1, where + ".values()[%r]" % k, "mapping_result_vs_dict")
    elif op == "get_method":
        key = pick(rng, keys) if keys and rng.random() < 0.5 else H.new_key(level, m)
        ctx.log("get_method", path, key)
        got = cont.get(key, _SENTINEL)
        if key in m:
            ctx.check(got is not _SENTINEL, "mapping_result_vs_dict", "%s.get(%r) returned the default" % (where, key))
            H.deep(got, m[key], level + 1, where + ".get(%r)" % key, "mapping_result_vs_dict")
        else:
            ctx.check(got is _SENTINEL, "mapping_result_vs_dict", "%s.get(%r) did not return the default" % (where, key))
    elif op == "eq":
        if not H.serialisable(m, level) and flv.binary and not allowed(ctx, T_BCIF_EQ):
            return
        ctx.log("eq", path)
        twin = H.twin(m, level)
        if flv.binary and not allowed(ctx, T_BCIF_EQ):
            # encoders fix their parameters at the first encode(): bring both sides into the same state
            cont.serialize()
            twin.serialize()
            ctx.note("eq_compared_after_serialize_on_both_sides")
        ctx.oracle("eq_reflects_content")
        if not (cont == twin) or not (twin == cont) or (cont != twin):
            ctx.fail("eq_reflects_content", "%s == container rebuilt from the model is False" % where)
        if cont == 5:
            ctx.fail("eq_reflects_content", "%s == 5" % where)
        if len(keys) > 1:
            # a mapping's equality does not depend on insertion order: same content, keys inserted in another order
            order = [keys[int(i)] for i in rng.permutation(len(keys))]
            sm = {k: m[k] for k in order}
            if level == 2:
                csm = CatModel(sm)
                csm.nrows = m.nrows
                sm = csm
            shuffled = make(flv, sm, level, int(rng.integers(12)))
            if flv.binary and not allowed(ctx, T_BCIF_EQ):
                shuffled.serialize()
            ctx.oracle("eq_reflects_content")
            if not (cont == shuffled) or not (shuffled == cont):
                ctx.fail("eq_reflects_content", "%s == container with the same content inserted in another key order is False" % where,
                         order=[str(k) for k in order])
            if not flv.binary and level in (0, 1):
                # the same comparison between two containers that were parsed from their texts and not touched yet
                # (their parts are still held as text): equality is a statement about content, not about layout or
                # about how much of the file has been looked at
                def _deep(mm, lv):
                    """same content, every category's columns in reverse order"""
                    if lv == 2:
                        out = CatModel((k_, mm[k_]) for k_ in reversed(list(mm.keys())))
                        out.nrows = getattr(mm, "nrows", None)
                        return out
                    return {k_: _deep(v_, lv + 1) for k_, v_ in mm.items()}
                try:
                    ta = cont.serialize()
                    tb = make(flv, _deep(sm, level), level, int(rng.integers(12))).serialize()
                except (SerializationError, ValueError) as e:
                    ctx.exc(e)
                else:
                    A, B = type(cont).deserialize(ta), type(cont).deserialize(tb)
                    ctx.op("eq_of_untouched_parsed_containers")
                    before = (A == B) and (B == A)
                    for x in (A, B):
                        for kk in list(x.keys()):
                            x[kk]                           # look at every part once
                    after = (A == B) and (B == A)
                    if not before or not after:
                        ctx.fail("eq_reflects_content", "%s: two containers parsed from texts with the same content in another key order compare "
                                 "%s before and %s after their parts were accessed" % (where, before, after), order=[str(k) for k in order])
        if level == 2 and keys:
            k = pick(rng, keys)
            col, tcol = cont[k], make(flv, m[k], 3, int(rng.integers(12)))
            pcol = make(flv, _perturb(m[k], 3), 3, int(rng.integers(12)))
            if flv.binary and not allowed(ctx, T_BCIF_EQ):
                col.serialize(), tcol.serialize(), pcol.serialize()
            ctx.oracle("eq_reflects_content")
            if not (col == tcol) or col != tcol or col == pcol or not (col != pcol) or col == "x":
                ctx.fail("eq_reflects_content", "column %s[%r]: == / != against an equal and a different column is wrong" % (where, k))
        # perturbed twin
        pm = {k: v for k, v in m.items()}
        kind = int(rng.integers(3))
        if kind == 0 or not keys:
            pm[H.new_key(level, m)] = H.gen_child(level, m)
        elif kind == 1:
            pm.pop(pick(rng, keys))
        else:
            k = pick(rng, keys)
            pm[k] = _perturb(m[k], level + 1)
            if pm[k] is None:
                pm.pop(k)
        if level == 2:
            cpm = CatModel(pm)
            cpm.nrows = m.nrows
            pm = cpm
        other = make(flv, pm, level, int(rng.integers(12)))
        if flv.binary and not allowed(ctx, T_BCIF_EQ) and H.serialisable(pm, level):
            other.serialize()
        if cont == other or other == cont or not (cont != other):
            ctx.fail("eq_reflects_content", "%s == container with different content is True" % where, model=m, other=pm)
    elif op in ("pop", "pop_default"):
        if op == "pop" and keys and del_ok:
            key = pick(rng, keys)
            ctx.log("pop", path, key)
            if is_text_cat and len(m) == 1:
                hist_expect(ctx, lambda: cont.pop(key), (ValueError,), "pop of the last column")
                ctx.oracle("state_unchanged_after_reject")
            else:
                got = cont.pop(key)
                ctx.oracle("mapping_result_vs_dict")
                H.deep(got, m[key], level + 1, where + ".pop(%r)" % key, "mapping_result_vs_dict")
                del m[key]
                H.mutated = True
        else:
            key = H.new_key(level, m)
            ctx.log("pop_default", path, key)
            if rng.random() < 0.5:
                ctx.check(cont.pop(key, _SENTINEL) is _SENTINEL, "mapping_result_vs_dict", "pop(missing, default) did not return the default")
            else:
                hist_expect(ctx, lambda: cont.pop(key), (KeyError,), "%s.pop(%r)" % (where, key))
            ctx.oracle("state_unchanged_after_reject")
    elif op == "popitem":
        if not del_ok:
            return
        ctx.log("popitem", path)
        if not keys:
            hist_expect(ctx, cont.popitem, (KeyError,), "popitem() on empty %s" % where)
        elif is_text_cat and len(m) == 1:
            hist_expect(ctx, cont.popitem, (ValueError,), "popitem() of the last column")
            ctx.oracle("state_unchanged_after_reject")
        else:
            k, got = cont.popitem()
            ctx.check(k in m, "mapping_result_vs_dict", "popitem() returned unknown key %r" % (k,))
            H.deep(got, m[k], level + 1, where + ".popitem()", "mapping_result_vs_dict")
            del m[k]
            H.mutated = True
    elif op == "update":
        new = {}
        for _ in range(int(rng.integers(1, 4))):
            key = pick(rng, keys) if keys and rng.random() < 0.3 else H.new_key(level, {**m, **new})
            new[key] = H.gen_child(level, m)
            if level == 2 and m.nrows is None:
                m.nrows = len(new[key]["values"])
        ctx.log("update", path, new)
        real_new = {k: make(flv, v, level + 1, int(rng.integers(12))) for k, v in new.items()}
        if rng.random() < 0.5:
            cont.update(real_new)
        else:
            cont.update(list(real_new.items()))
        m.update(new)
        H.mutated = True
    elif op == "setdefault":
        key = pick(rng, keys) if keys and rng.random() < 0.5 else H.new_key(level, m)
        child = H.gen_child(level, m)
        ctx.log("setdefault", path, key, child)
        got = cont.setdefault(key, make(flv, child, level + 1, int(rng.integers(12))))
        if key not in m:
            m[key] = child
            if level == 2 and m.nrows is None:
                m.nrows = len(child["values"])
            H.mutated = True
        H.deep(got, m[key], level + 1, where + ".setdefault(%r)" % key, "mapping_result_vs_dict")
    elif op == "clear":
        if not del_ok and keys:
            return
        ctx.log("clear", path)
        if is_text_cat and keys:
            # MutableMapping.clear() pops items until the documented refusal for the last column
            hist_expect(ctx, cont.clear, (ValueError,), "clear() of a CIFCategory")
            left = list(cont.keys())
            ctx.check(len(left) >= 1 and left == keys[len(keys) - len(left):] or set(left) <= set(keys) and len(left) == 1,
                      "mapping_state_vs_dict", "after refused clear(): keys %r of %r" % (left, keys))
            for k in keys:
                if k not in left:
                    del m[k]
                    H.mutated = True
        else:
            cont.clear()
            if keys:
                H.mutated = True
            m.clear()
    elif op == "rename":
        if not keys or not del_ok or (is_text_cat and len(m) == 1):
            return
        old = pick(rng, keys)
        new = H.new_key(level, m)
        ctx.log("rename", path, old, new)
        cont[new] = cont.pop(old)
        m[new] = m.pop(old)
        H.mutated = True
    elif op == "wrong_type":
        if level == 2:
            return
        key = pick(rng, keys) if keys and rng.random() < 0.5 else H.new_key(level, m)
        bad = pick(rng, ["samelevel", "str", "int", "sub2"])
        ctx.log("wrong_type", path, key, bad)
        if bad == "samelevel":
            val = (File, Block)[level]()
        elif bad == "str":
            val = "data_x\n#\n"
        elif bad == "int":
            val = 5
        else:
            val = Category() if level == 0 else Column(["a"])
        hist_expect(ctx, lambda: cont.__setitem__(key, val), (TypeError, DeserializationError),
                    "%s[%r] = %s" % (where, key, type(val).__name__))
        ctx.oracle("state_unchanged_after_reject")
    elif op == "resize_sole_column":
        if level != 2 or len(m) != 1 or not allowed(ctx, T_ROWCOUNT):
            return
        key = keys[0]
        n = m.nrows + 1 if rng.random() < 0.5 or m.nrows == 1 else m.nrows - 1
        child = H.gen_col(n)
        ctx.log("resize_sole_column", path, key, child)
        cont[key] = make(flv, child, 3, int(rng.integers(12)))
        m[key] = child
        m.nrows = n
        H.mutated = True
    elif op == "block_property":
        ctx.log("block_property")
        if len(H.model) == 1:
            b = next(iter(H.model))
            got = H.file.block
            H.shallow(got, H.model[b], "file.block")
        else:
            hist_expect(ctx, lambda: H.file.block, (ValueError, StopIteration), "file.block with %d blocks" % len(H.model))
    elif op == "reparse":
        ctx.log("reparse")
        ok = H.serialisable(H.model, 0)
        try:
            new = flv.reparse(H.file)
        except SerializationError as e:
            ctx.exc(e)
            ctx.check(not ok, "mapping_exception_vs_dict", "serialisation refused although every category has columns: %s" % e)
            flush_monitors(ctx)
            H.shallow(H.file, H.model, "file")
            return
        ctx.check(ok, "mapping_exception_vs_dict", "a file with a 0-column category was serialised")
        flush_monitors(ctx)
        H.file = new
        H.reparsed = True
        if rng.random() < 0.25:
            H.deep(H.file, H.model, 0, "reparsed file", "lazy_reparse_state")
    # ---- state after the step
    cont2, m2 = H.file, H.model
    H.shallow(cont2, m2, "file")
    for p in path:
        cont2, m2 = cont2[p], m2[p]
        H.shallow(cont2, m2, "file..[%r]" % p)
    ctx.state(model_key(H.model))


def _perturb(sub, level):
    """A model subtree that differs from `sub` in content (None = could not)."""
    if level == 3:
        vals = list(sub["values"])
        if len(vals) % 2 == 0:
            # the same data with another mask state for the first row (a column differs by its masks, too)
            if sub["mask"] is None:
                if not any(v in (".", "?") for v in vals):
                    return {"values": vals, "mask": [MISSING] + [PRESENT] * (len(vals) - 1)}
            else:
                mk = list(sub["mask"])
                mk[0] = MISSING if mk[0] == PRESENT else PRESENT
                return {"values": vals, "mask": mk}
        vals[0] = vals[0] + "~"
        return {"values": vals, "mask": sub["mask"]}
    if not sub:
        return None
    k = next(iter(sub))
    p = _perturb(sub[k], level + 1)
    if p is None:
        return None
    out = CatModel(sub) if isinstance(sub, CatModel) else dict(sub)
    if isinstance(sub, CatModel):
        out.nrows = sub.nrows
    out[k] = p
    return out


def case_hist(rng, ctx, flv):
    H = Hist(ctx, rng, flv)
    for _ in range(int(rng.choice([0, 1, 1, 2]))):
        H.model[gen_name(rng, ctx, set(H.model), kind="block")] = H.gen_block()
    ctx.log("initial", H.model)
    H.file = make(flv, H.model, 0, int(rng.integers(12)))
    if rng.random() < 0.5 and H.serialisable(H.model, 0):
        ctx.log("reparse")
        H.file = flv.reparse(H.file)
        H.reparsed = True
        flush_monitors(ctx)
    H.shallow(H.file, H.model, "file")
    nsteps = int(rng.integers(1, 16 if ctx.tier == "quick" else 31))
    for _ in range(nsteps):
        hist_step(H)
    H.deep(H.file, H.model, 0, "final file")
    if H.serialisable(H.model, 0):
        H.file = flv.reparse(H.file)
        flush_monitors(ctx)
        H.deep(H.file, H.model, 0, "final reparsed file", "lazy_reparse_state")
    ctx.mark_nontrivial(H.mutated and H.lazy_since)


def run_case(stratum, rng, ctx):
    del _PENDING[:]
    if stratum == "enum_pos":
        case_enum_pos(rng, ctx, ctx.index)
    elif stratum == "table_pos":
        case_table_pos(rng, ctx)
    elif stratum == "table_mixed":
        case_table_mixed(rng, ctx)
    elif stratum == "hist_text":
        case_hist(rng, ctx, Text)
    elif stratum == "hist_bin":
        case_hist(rng, ctx, Bin)
    else:
        raise KeyError(stratum)
    flush_monitors(ctx)


# ---------------------------------------------------------------------------------------------
# oracle audit
def selftest(ctx):
    from vf.core import Violation
    # expected text / masks for all mask states
    for v in (".", "?", "x", ""):
        inf = INAPPLICABLE if v == "." else MISSING if v == "?" else PRESENT
        assert expected_text({"values": [v], "mask": None}) == [v]
        assert expected_mask({"values": [v], "mask": None}) == [inf]
        for st, txt in ((PRESENT, v), (INAPPLICABLE, "."), (MISSING, "?")):
            assert expected_text({"values": [v], "mask": [st]}) == [txt]
            assert expected_mask({"values": [v], "mask": [st]}) == [st]
    # classification: literal expectations
    E = lambda v, looped=True, col=0, prev=False: cell_triggers(v, looped, col, prev)  # noqa: E731
    assert E("#x") == {T_HASH} and E("#x", col=1) == set() and E("#x", looped=False) == set() and E("#x y") == set()
    assert E(";x") == {T_SEMI} and E(";x", col=2) == set() and E(";x", col=2, prev=True) == {T_SEMI}
    assert E("data_x") == {T_DATA} and E("DATA_x") == set() and E("loop_") == {T_LOOP} and E("loop_", col=1) == set()
    assert E("_x") == set() and E("'#x") == set() and E("") == set() and E("save_") == set()
    assert E("a\nb") == set() and E("\na") == set() and E("a'b\"") == set() and E(" a'b\"") == set()
    assert E("a'b\" ") == {T_ML_BLANKS} and E("a\n b") == {T_ML_BLANKS} and E("a \nb") == {T_ML_BLANKS}
    assert E("a\n\nb") == {T_ML_BLANKLINE} and E("a\n") == {T_ML_BLANKLINE} and E("a\n \nb") == {T_ML_BLANKLINE}
    assert E("a\n#b") == {T_ML_HASH} and E("a\n;b") == {T_ML_SEMI} and E("a\n_b") == {T_ML_UNDERSCORE}
    assert E("a\nloop_") == {T_ML_LOOP} and E("a\ndata_x") == {T_ML_DATA} and E("a\n #b") == {T_ML_BLANKS}
    assert E("a\nb", looped=False) == set() and E("a\n#b", looped=False) == {T_ML_HASH}
    # exhaustive: every string of length <= 3 over a small alphabet is classified without error and
    # bare/text-field/quoted partition the strings
    alpha = ["a", " ", "'", '"', "#", ";", "_", "\n"]
    n = 0
    for l in range(0, 4):
        for idx in np.ndindex(*([len(alpha)] * l)):
            s = "".join(alpha[i] for i in idx)
            tr = worst_case_triggers(s)
            assert not (is_bare(s) and is_textfield(s))
            if "\n" not in s and not ("'" in s and '"' in s):
                assert not any(t.startswith("textfield") for t in tr)
            n += 1
    assert n == 1 + 8 + 64 + 512
    # strict reader on literal texts
    t = "data_b\n#\n_c.k   'a b'\n_c.l\n;x\ny\n;\n#\nloop_\n_d.p\n_d.q\n1 'it''s'\n\"q r\" .\n#\n"
    assert strict_read(t) == {"b": {"c": {"k": ["a b"], "l": ["x\ny"]}, "d": {"p": ["1", "q r"], "q": ["it''s", "."]}}}, strict_read(t)
    assert strict_read("data_b\nloop_\n_c.k\nx #y\nz\n") == {"b": {"c": {"k": ["x", "z"]}}}
    assert strict_read("data_b\n_c.k save_\n")[0] == "error" and strict_read("data_b\n_c.k $x\n")[0] == "error"
    assert strict_read("data_b\nloop_\n_c.k\n_c.l\nx\n")[0] == "error"
    # the comparison can fail: a deliberately wrong model must be flagged, a right one not
    model = {"b": {"c": table_model([["a", "."], ["b c", "d"]], [None, None], ["k", "l"])}}
    f = make(Text, model, 0, 0)
    compare_tree(ctx, f, model, 0)
    for wrong in (
        {"b": {"c": table_model([["a", "."], ["b c", "e"]], [None, None], ["k", "l"])}},
        {"b": {"c": table_model([["a", "."], ["b c", "d"]], [None, [0, 0]], ["k", "l"])}},
        {"b": {"c": table_model([["a", "."], ["b c", "d"]], [None, None], ["l", "k"])}},
        {"b": {"c": table_model([["a", "."]], [None, None], ["k", "l"])}},
        {"x": model["b"]},
    ):
        try:
            compare_tree(ctx, f, wrong, 0)
        except Violation:
            pass
        else:
            raise AssertionError("comparison accepted a wrong model: %r" % (wrong,))
    # the dict model is a dict: audit the only non-dict behaviours the driver models itself
    m = CatModel({"a": 1})
    m.nrows = 3
    assert list(m) == ["a"] and m.nrows == 3 and _perturb({"values": ["x"], "mask": None}, 3)["values"] == ["x~"]
    assert Hist(ctx, None, Text).serialisable({"b": {"c": CatModel()}}, 0) is False
    assert Hist(ctx, None, Text).serialisable({"b": {}}, 0) is True
    # the hook contracts are installed and fire
    n0 = ctx.oracles.get("escape_token_inverse", 0)
    make(Text, model, 0, 0).serialize()
    assert ctx.oracles.get("escape_token_inverse", 0) > n0 and ctx.oracles.get("category_serialize_inverse", 0) > 0
    assert not _PENDING, _PENDING
    assert len(REPRESENTATIVES) == len(set(REPRESENTATIVES)), "duplicate representative"
    assert ENUM_TOTAL <= STRATA["enum_pos"][0], (ENUM_TOTAL, "quick enum_pos must cover the complete product once")


# ---------------------------------------------------------------------------------------------
# probes: one trigger class each, minimal context
def _probe_tables(ctx, cases):
    """cases: (table rows, masks or None).  Every case is written and read in a one-block one-category file."""
    for table, masks in cases:
        ncols = len(table[0])
        cols = ["c%d" % j for j in range(ncols)]
        model = {"blk": {"cat": table_model(table, masks or [None] * ncols, cols)}}
        ctx.log("table", {"table": table, "masks": masks})
        ctx.op("probe_roundtrip")
        text_roundtrip(ctx, model, style=0, observe=False)
        del _PENDING[:]


def _at_first_column(vals, widths=(1, 3)):
    cases = []
    for v in vals:
        for nc in widths:
            for r in range(2):
                t = [["f%d%d" % (i, j) for j in range(nc)] for i in range(2)]
                t[r][0] = v
                cases.append((t, None))
    return cases


def _anywhere(vals):
    cases = []
    for v in vals:
        cases.append(([[v]], None))
        cases.append(([["f0", v, "f2"]], None))
        for r, c in ((0, 0), (1, 1), (1, 2)):
            t = [["f%d%d" % (i, j) for j in range(3)] for i in range(2)]
            t[r][c] = v
            cases.append((t, None))
    return cases


def _probe_hash(ctx):
    _probe_tables(ctx, _at_first_column(["#x", "#", "#1.5"]))


def _probe_semi(ctx):
    cases = _at_first_column([";x", ";"])
    cases.append(([["l\nm", ";x", "f"], ["g", "h", "i"]], None))      # first token on the line after a text field
    _probe_tables(ctx, cases)


def _probe_data(ctx):
    _probe_tables(ctx, _at_first_column(["data_x", "data_"]))


def _probe_loop(ctx):
    _probe_tables(ctx, _at_first_column(["loop_", "loop_x"]))


def _probe_ml_blanks(ctx):
    _probe_tables(ctx, _anywhere(["a\n b", "a\nb ", "a \nb", "a\n\tb", "a'b\" "]))


def _probe_ml_blankline(ctx):
    _probe_tables(ctx, _anywhere(["a\n\nb", "a\n", "\n", "a\n \nb"]))


def _probe_ml_hash(ctx):
    _probe_tables(ctx, _anywhere(["a\n#b", "a\n#"]))


def _probe_ml_semi(ctx):
    _probe_tables(ctx, _anywhere(["a\n;b", "a\n;", "a\n;\nb"]))


def _probe_ml_underscore(ctx):
    _probe_tables(ctx, _anywhere(["a\n_b", "a\n_b.c", "a\n_"]))


def _probe_ml_loop(ctx):
    _probe_tables(ctx, _anywhere(["a\nloop_", "a\nloop_x"]))


def _probe_ml_data(ctx):
    _probe_tables(ctx, _anywhere(["a\ndata_q", "a\ndata_"]))


def _probe_literal(ctx):
    cases = []
    for v in (".", "?"):
        cases.append(([[v]], [[PRESENT]]))
        cases.append(([["a", v], ["b", "c"]], [None, [PRESENT, PRESENT]]))
    _probe_tables(ctx, cases)


def _probe_bcif_del(ctx):
    File, Block, Category, Column = Bin.classes()
    for lazy in (False, True):
        model = {"b": {"c1": table_model([["x"]], [None], ["k"]), "c2": table_model([["y"]], [None], ["k"])}}
        f = make(Bin, model, 0, 0)
        if lazy:
            f = Bin.reparse(f)
        blk = f["b"]
        ctx.log("del block['c1']", {"lazy": lazy})
        ctx.op("probe_bcif_del")
        ctx.oracle("mapping_exception_vs_dict")
        try:
            del blk["c1"]
        except Exception as e:  # noqa: BLE001
            ctx.fail("mapping_exception_vs_dict", "del BinaryCIFBlock[key] raised %s: %s" % (type(e).__name__, e))
        del model["b"]["c1"]
        Hist(ctx, None, Bin).shallow(blk, model["b"], "block")
        hist_expect(ctx, lambda: blk.__delitem__("nope"), (KeyError,), "del block['nope']")
        got = blk.pop("c2")
        compare_tree(ctx, got, model["b"]["c2"], 2, "pop", "mapping_result_vs_dict", "mapping_result_vs_dict", "mapping_result_vs_dict")
        ctx.check(len(blk) == 0 and list(blk) == [], "mapping_state_vs_dict", "block not empty after pop")


def _probe_bcif_name(ctx):
    File, Block, Category, Column = Bin.classes()
    for name in ("_x", "__y", "_"):
        for lazy in (False, True):
            model = {"b": {name: table_model([["v"]], [None], ["k"])}}
            ctx.log("category name", name, {"lazy": lazy})
            ctx.op("probe_bcif_name")
            f = make(Bin, model, 0, 0)
            if lazy:
                f = Bin.reparse(f)
            Hist(ctx, None, Bin).shallow(f["b"], model["b"], "block with category %r" % name)
            compare_tree(ctx, f, model, 0, "file", "mapping_state_vs_dict", "mapping_state_vs_dict", "mapping_state_vs_dict")


def _probe_bcif_eq(ctx):
    for level in (3, 2, 1, 0):
        model = {"b": {"c": table_model([["x", "1"], ["y", "2"]], [None, None], ["k", "l"])}}
        sub = model if level == 0 else model["b"] if level == 1 else model["b"]["c"] if level == 2 else model["b"]["c"]["k"]
        a, b = make(Bin, sub, level, 0), make(Bin, sub, level, 0)
        ctx.log("eq after serialize", {"level": level})
        ctx.op("probe_bcif_eq")
        ctx.check(a == b and b == a, "eq_reflects_content", "fresh equal containers compare unequal (level %d)" % level)
        a.serialize()
        ctx.check(a == b and b == a, "eq_reflects_content",
                  "%s: a == b is True, after a.serialize() it is False (content unchanged)" % type(a).__name__)


def _probe_uscore_sq(ctx):
    _probe_tables(ctx, _anywhere(["_a' b", "_ '", "_a b'c"]))


def _probe_rowcount(ctx):
    for flv in (Text, Bin):
        File, Block, Category, Column = flv.classes()
        for how in ("serialize", "row_count"):
            model = {"b": {"c": table_model([["1"], ["2"]], [None], ["k"])}}
            f = make(flv, model, 0, 0)
            cat = f["b"]["c"]
            if how == "serialize":
                f.serialize()
            else:
                assert cat.row_count == 2
            new = {"values": ["1", "2", "3"], "mask": None}
            ctx.log("replace the only column by a longer one after " + how, flv.name)
            ctx.op("probe_rowcount")
            cat["k"] = make(flv, new, 3, 0)
            model["b"]["c"]["k"] = new
            ctx.oracle("mapping_exception_vs_dict")
            try:
                g = flv.reparse(f)
            except SerializationError as e:
                ctx.fail("mapping_exception_vs_dict", "%s with one 3-row column cannot be serialised (%s after %s): %s; cause: %s"
                         % (Category.__name__, "stale row_count", how, e, e.__context__))
            compare_tree(ctx, g, model, 0, "reparsed", "lazy_reparse_state", "lazy_reparse_state", "lazy_reparse_state")
            del _PENDING[:]


PROBES = {
    T_BCIF_DEL: _probe_bcif_del,
    T_HASH: _probe_hash,
    T_SEMI: _probe_semi,
    T_DATA: _probe_data,
    T_LOOP: _probe_loop,
    T_ML_BLANKS: _probe_ml_blanks,
    T_ML_BLANKLINE: _probe_ml_blankline,
    T_ML_HASH: _probe_ml_hash,
    T_ML_SEMI: _probe_ml_semi,
    T_ML_UNDERSCORE: _probe_ml_underscore,
    T_ML_LOOP: _probe_ml_loop,
    T_ML_DATA: _probe_ml_data,
    T_LITERAL: _probe_literal,
    T_BCIF_NAME: _probe_bcif_name,
    T_BCIF_EQ: _probe_bcif_eq,
    T_ROWCOUNT: _probe_rowcount,
    T_USCORE_SQ: _probe_uscore_sq,
}
