"""C18  Small molecules survive MOL/SDF files and the RDKit bridge.

Monitor: generated molecules are written with the real MOLFile / SDRecord /
SDFile / to_mol and read back; the result is compared field-wise with the
molecule that went in (atom order, element, coordinate to the F10.4 precision,
formal charge, typed bond set with the documented fallback for bond types the
target cannot express).  Every connection table biotite writes is also handed
to an independent CTfile checker (vf/models/c18_ctfile.py, no biotite import)
that slices V2000 text by the specified columns / tokenises V3000 blocks and
must recover the same molecule.  Counts or values that do not fit the V2000
columns must select V3000 or raise.  SDF: header fields, metadata keys/values,
record names and order are compared with plain dict/list models.  RDKit:
from_mol(to_mol(x)) against x (models <-> conformers, explicit hydrogens,
aromatic rings modulo the choice of Kekule structure, dative option, extra
annotations).
"""

import datetime
import io
import warnings

import numpy as np

ID = "C18"
FLAVOUR = "plain"
LEVEL = "exploration"
THOROUGH_MULT = 4.0       # deepens the sampled strata of the thorough tier (measured: about ten minutes on 16 cores)
RULE = (
    "seeded generator, one molecule / SD file / RDKit conversion per case.  Molecules: 1-1500 atoms (strata "
    "mol_limits forces atom and bond counts 997..1003 in every combination, plus <1000 atoms with >=1000 bonds), "
    "random bond graphs (tree + extra edges up to complete), all 10 BondTypes, charges -15..15 with and without the "
    "annotation, 1-2 letter elements, float32 coordinates incl. the largest values that fit F10.4 "
    "(99999.9922, -9999.9990), their float32 neighbours that do not, x.xxxx5 rounding ties and negative zero; "
    "version None/V2000/V3000, default_bond_type absent or any expressible type; written through MOLFile, "
    "SDRecord, SDFile and the convert wrappers, text passed through write()/read().  SD files: 1-6 records, names "
    "with blanks inside, '$$$', '>', 'M  END', up to 80 characters; header fields at their full widths, datetime/"
    "date/None; 0-5 metadata entries with str keys and Key(number/name/registry_internal/registry_external) "
    "in every combination, 1-4 line values from the SD grammar (non-empty stripped lines, not starting with '>' "
    "or '$$$$') with '>', '<', '$$$', 'M  END' inside.  RDKit: valence-complete molecules with explicit "
    "hydrogens, benzene/pyridine/pyrrole/furan/thiophene/naphthalene rings in Kekule form, charged N+/O-, "
    "1-4 models, and arbitrary typed graphs with add_hydrogen=False, kekulize and use_dative_bonds on/off, extra "
    "annotations of bool/int/float/str type.  A case is non-trivial when the molecule has a bond and at least "
    "one of: non-zero charge, inexpressible bond type, edge coordinate, >=998 atoms or bonds, multi-line or "
    "multi-part metadata, >=2 records, >=2 models, aromatic ring, extra annotation; distinct = distinct digest "
    "of the logged inputs."
)
STRATA = {
    "mol_small": (6000, 150000),
    "mol_limits": (600, 8000),
    "coord_edges": (2500, 60000),
    "sdf": (2500, 40000),
    "rdkit_chem": (2000, 40000),
    "rdkit_graph": (2000, 50000),
}
# functions that must leave their arguments untouched (vf.core.PurityMonitor; '!' = the object itself is watched too)
PURE = [
    "biotite.structure.io.mol.ctab:write_structure_to_ctab",
    "biotite.structure.io.mol.mol:MOLFile.set_structure",
    "biotite.structure.io.mol.sdf:SDRecord.set_structure",
    "biotite.interface.rdkit.mol:to_mol",
]
REQUIRED_ORACLES = [
    "atom_order_element", "coord_precision", "charge", "typed_bond_set",
    "v2000_columns", "v3000_text", "version_selection", "beyond_limit_raises",
    "header_fields", "header_text", "metadata", "record_names_order",
    "rdkit_atoms", "rdkit_bonds", "rdkit_conformers", "rdkit_std_annotations", "rdkit_extra_annotations",
]
_CTAB = "biotite.structure.io.mol.ctab:"
_SDF = "biotite.structure.io.mol.sdf:"
ANCHORS = [
    _CTAB + "write_structure_to_ctab", _CTAB + "read_structure_from_ctab",
    _CTAB + "_write_structure_to_ctab_v2000", _CTAB + "_write_structure_to_ctab_v3000",
    _CTAB + "_read_structure_from_ctab_v2000", _CTAB + "_read_structure_from_ctab_v3000",
    _CTAB + "_is_v2000_compatible", _CTAB + "_get_counts_v2000", _CTAB + "_get_block_v3000",
    "biotite.structure.io.util:number_of_integer_digits",
    _SDF + "Metadata.serialize", _SDF + "Metadata.deserialize",
    _SDF + "Metadata.Key.serialize", _SDF + "Metadata.Key.deserialize",
    _SDF + "SDRecord.serialize", _SDF + "SDRecord.deserialize",
    _SDF + "SDFile.serialize", _SDF + "SDFile.deserialize", _SDF + "_get_ctab_stop",
    "biotite.structure.io.mol.header:Header.serialize", "biotite.structure.io.mol.header:Header.deserialize",
    "biotite.structure.io.mol.mol:MOLFile.set_structure", "biotite.structure.io.mol.mol:MOLFile.get_structure",
    "biotite.structure.io.mol.mol:_get_ctab_lines",
    "biotite.structure.io.mol.convert:get_structure", "biotite.structure.io.mol.convert:set_structure",
    "biotite.interface.rdkit.mol:to_mol", "biotite.interface.rdkit.mol:from_mol",
    "biotite.interface.rdkit.mol:_set_property",
]
OPTIONAL_ANCHORS = []
ASSUMPTIONS = [
    "elements are upper-case 1-2 letter strings (biotite's convention; the reader upper-cases every symbol)",
    "AtomArray coordinates are float32 (the coord setter enforces it); a coordinate 'fits' V2000 when '%.4f' of "
    "the float32 value needs at most 10 characters; agreement is judged to 0.00005 plus half a float32 ulp",
    "no self bonds; a missing charge annotation means charge 0",
    "bond types without a CTAB counterpart (QUADRUPLE, AROMATIC_TRIPLE, COORDINATION) must come back as the "
    "given default_bond_type (ANY when absent); ANY may be written as CTfile type 5 or 8",
    "header and metadata strings are printable ASCII plus a few Latin-1 letters without leading/trailing blanks; "
    "lines never start with '$$$$', metadata value lines never start with '>' and are never blank (the SD "
    "format itself cannot carry those); Python-only line separators (\\x0b \\x0c \\x1c-\\x1e \\x85 \\u2028 "
    "\\u2029) are not generated",
    "header time has minute resolution and a year in 1969..2068 (two-digit year field); a date comes back as "
    "the datetime of its midnight; overlong fixed-width header fields are documented to be truncated",
    "metadata key numbers/internal registry numbers are non-negative ints, external registry strings match "
    "[A-Za-z0-9_.-]*, names match [A-Za-z0-9][A-Za-z0-9_.]*; the order of metadata entries is not judged",
    "RDKit: aromatic bond types are compared as a class (AROMATIC_SINGLE/DOUBLE/TRIPLE/AROMATIC) because "
    "RDKit has one aromatic type and from_mol re-kekulises; for valence-complete molecules the bond order sum "
    "of every atom must be preserved and no ring may fall back to generic AROMATIC; COORDINATION becomes "
    "SINGLE unless use_dative_bonds=True (documented)",
    "RDKit extra annotations are compared by value and kind (bool/int/float/str), not by dtype width; "
    "int values lie in the int32 range RDKit's SetIntProp accepts",
]
MIN_CASES_PER_WORKER = 20
MANIFEST = {
    "technique": "round-trip monitor on generated molecules through MOLFile/SDRecord/SDFile (V2000, V3000, auto) "
                 "and to_mol/from_mol, field-wise comparison with the input; independent CTfile column checker / "
                 "V3000 tokeniser on every written connection table; dict/list models for SD headers, metadata and "
                 "record order; header block sliced by the CTfile columns",
    "level_text": "Runtime monitoring: thousands of generated molecules (1-1500 atoms, dense at the 999/1000 "
                  "atom and bond limits, every bond type, charges -15..15, coordinates at the F10.4 limits) are "
                  "written and read back with the real biotite code; each result is compared field-wise with the "
                  "input and every written V2000 table is re-parsed by an independent column slicer.  "
                  "Held-on-what-was-observed, not a proof.",
    "level_note": "Trusts the driver's CTfile checker (audited in selftest on literal specification-conform and "
                  "deliberately shifted lines), numpy and RDKit itself.  Files written by other programs "
                  "(non-sequential V3000 indices, atom-block-only charges) are not part of the statement and not "
                  "generated.  Aromatic bonds through RDKit are compared modulo the Kekule structure chosen.",
    "design_ref": "DESIGN.md section 6, C18",
}

# BondType values (biotite.structure.BondType), fixed here so that the oracle does not read biotite's tables
ANY, SINGLE, DOUBLE, TRIPLE, QUADRUPLE, AROM_S, AROM_D, AROM_T, COORD, AROM = range(10)
ALL_TYPES = list(range(10))
AROMATIC_CLASS = {AROM_S, AROM_D, AROM_T, AROM}
CTAB_EXPRESSIBLE = {SINGLE, DOUBLE, TRIPLE, AROM, ANY, AROM_S, AROM_D}
# documented biotite <-> CTfile bond type codes (doc of io.mol: 1,2,3 orders, 4 aromatic, 5/8 any, 6/7 aromatic single/double)
CTAB_CODES = {SINGLE: {1}, DOUBLE: {2}, TRIPLE: {3}, AROM: {4}, ANY: {5, 8}, AROM_S: {6}, AROM_D: {7}}
NO_AROMATICITY = {AROM_S: SINGLE, AROM_D: DOUBLE, AROM_T: TRIPLE, AROM: ANY}
BOND_ORDER = {SINGLE: 1, DOUBLE: 2, TRIPLE: 3, QUADRUPLE: 4, AROM_S: 1, AROM_D: 2, AROM_T: 3}

F32 = np.float32
MAX_POS = float(np.nextafter(F32(100000.0), F32(0)))      # 99999.9921875  -> '99999.9922'
MAX_NEG = float(np.nextafter(F32(-10000.0), F32(0)))      # -9999.9990234375 -> '-9999.9990'

REAL_ELEMENTS = ["H", "C", "N", "O", "F", "P", "S", "CL", "BR", "I", "B", "SI", "SE", "NA", "K", "MG", "CA",
                 "FE", "ZN", "CU", "MN", "CO", "NI", "LI", "AL", "AS", "PT", "AU", "HG", "PB", "U", "W", "V", "Y"]

struc = None
mol = None
rd = None
Chem = None
ctf = None
BadStructureError = None
InvalidFileError = None
SerializationError = None
DeserializationError = None
LossyConversionWarning = None


def setup(ctx):
    global struc, mol, rd, Chem, ctf, BadStructureError, InvalidFileError, SerializationError
    global DeserializationError, LossyConversionWarning
    import biotite.structure as struc_
    import biotite.structure.io.mol as mol_
    import biotite.interface.rdkit as rd_
    from biotite.file import DeserializationError as De, InvalidFileError as Ife, SerializationError as Se
    from biotite.interface.warning import LossyConversionWarning as Lcw
    from rdkit import Chem as Chem_, RDLogger
    from vf.models import c18_ctfile
    RDLogger.DisableLog("rdApp.*")
    struc, mol, rd, Chem, ctf = struc_, mol_, rd_, Chem_, c18_ctfile
    BadStructureError = struc.BadStructureError
    InvalidFileError, SerializationError, DeserializationError, LossyConversionWarning = Ife, Se, De, Lcw
    assert [int(t) for t in struc.BondType] == ALL_TYPES and int(struc.BondType.COORDINATION) == COORD \
        and int(struc.BondType.AROMATIC) == AROM and int(struc.BondType.AROMATIC_SINGLE) == AROM_S


# =================================================================== molecule model
class Mol:
    """Reference molecule: python lists / dict, nothing from biotite."""

    def __init__(self, elem, coord, charge, bonds):
        self.elem = list(elem)
        self.coord = np.asarray(coord, dtype=F32).reshape(-1, 3)
        self.charge = None if charge is None else [int(c) for c in charge]
        self.bonds = dict(bonds)           # {(i<j): type}

    @property
    def n(self):
        return len(self.elem)

    def charges(self):
        return [0] * self.n if self.charge is None else self.charge

    def describe(self, limit=48):
        d = {"n": self.n, "n_bonds": len(self.bonds)}
        if self.n <= limit:
            d["elements"] = self.elem
            d["coord"] = [[float(v) for v in r] for r in self.coord]
            d["charge"] = self.charge
            d["bonds"] = sorted([i, j, t] for (i, j), t in self.bonds.items())
        else:
            d["elements_head"] = self.elem[:8]
            d["nonzero_charges"] = [[i, c] for i, c in enumerate(self.charges()) if c][:40]
            d["bond_type_histogram"] = {str(t): sum(1 for v in self.bonds.values() if v == t) for t in ALL_TYPES}
            d["coord_absmax"] = float(np.abs(self.coord).max()) if self.n else 0.0
        return d


def fits_f10_4(v):
    return len("%.4f" % float(v)) <= 10


def gen_pairs(rng, n, m):
    """m distinct unordered pairs (i<j) on n atoms: a random tree first, then random extra edges."""
    maxm = n * (n - 1) // 2
    m = min(m, maxm)
    pairs = set()
    if m == 0:
        return pairs
    if n <= 64 and m > maxm // 3:
        allp = [(i, j) for i in range(n) for j in range(i + 1, n)]
        for k in rng.choice(len(allp), size=m, replace=False):
            pairs.add(allp[int(k)])
        return pairs
    perm = rng.permutation(n)
    shape = rng.random()
    for k in range(1, n):
        if len(pairs) >= m:
            break
        p = k - 1 if shape < 0.4 else int(rng.integers(0, k))
        a, b = int(perm[p]), int(perm[k])
        pairs.add((min(a, b), max(a, b)))
    while len(pairs) < m:
        need = m - len(pairs)
        a = rng.integers(0, n, size=need + 8)
        b = rng.integers(0, n, size=need + 8)
        for i, j in zip(a.tolist(), b.tolist()):
            if i != j:
                pairs.add((min(i, j), max(i, j)))
                if len(pairs) >= m:
                    break
    return pairs


def gen_elements(rng, n, real=False):
    if real:
        p = rng.random()
        pool = REAL_ELEMENTS if p < 0.6 else REAL_ELEMENTS[:10]
        return [pool[int(k)] for k in rng.integers(0, len(pool), size=n)]
    mode = rng.random()
    if mode < 0.45:
        return [REAL_ELEMENTS[int(k)] for k in rng.integers(0, len(REAL_ELEMENTS), size=n)]
    out = []
    for _ in range(n):
        a = chr(65 + int(rng.integers(26)))
        if rng.random() < 0.5:
            a += chr(65 + int(rng.integers(26)))
        out.append(a)
    return out


def gen_charges(rng, n):
    mode = rng.random()
    if mode < 0.2:
        return None
    if mode < 0.3:
        return [0] * n
    pool = [0, 0, 0, 0, 1, -1, 2, -2, 3, -3, 4, -4, 7, -8, 15, -15, 14, -14]
    p_nonzero = rng.choice([0.05, 0.3, 1.0])
    ch = []
    for _ in range(n):
        if rng.random() < p_nonzero:
            ch.append(int(rng.integers(-15, 16)) if rng.random() < 0.3 else pool[int(rng.integers(len(pool)))])
        else:
            ch.append(0)
    return ch


_EDGE_OK = [MAX_POS, MAX_NEG, 9999.9999, -999.9999, 0.00005, -0.00005, 0.00004999, 1.23455, -1.23455, 0.99995,
            -0.99995, 9.99995, 99.99995, 999.99995, 9999.99995, -0.0, 0.0, 1e-30, -1e-30, 12345.6789, -1234.5678,
            99999.5, -9999.5, 0.5, 1.00005, 2.50005, 1e-5]


def gen_coord(rng, n, edges=False):
    scale = float(rng.choice([1.0, 10.0, 100.0, 1000.0]))
    c = (rng.standard_normal((n, 3)) * scale).astype(F32)
    mode = rng.random()
    if mode < 0.3:
        c = np.round(c.astype(np.float64), 3).astype(F32)
    elif mode < 0.4:
        c = np.round(c.astype(np.float64), 0).astype(F32)
    if edges:
        k = int(rng.integers(1, max(2, min(3 * n, 12)) + 1))
        for _ in range(k):
            c[int(rng.integers(n)), int(rng.integers(3))] = F32(_EDGE_OK[int(rng.integers(len(_EDGE_OK)))])
    c = np.clip(c, F32(MAX_NEG), F32(MAX_POS))
    return c


def gen_bond_types(rng, pairs):
    mode = rng.random()
    if mode < 0.5:
        pool = ALL_TYPES
    elif mode < 0.8:
        pool = [SINGLE, SINGLE, SINGLE, DOUBLE, TRIPLE, AROM_S, AROM_D, ANY, AROM]
    else:
        pool = [QUADRUPLE, AROM_T, COORD, SINGLE]
    ts = rng.integers(0, len(pool), size=len(pairs))
    return {p: pool[int(t)] for p, t in zip(sorted(pairs), ts)}


def gen_mol(rng, n, m, edges=False, real=False):
    pairs = gen_pairs(rng, n, m)
    return Mol(gen_elements(rng, n, real), gen_coord(rng, n, edges), gen_charges(rng, n), gen_bond_types(rng, pairs))


def build_atoms(rng, m, coord=None):
    """AtomArray for the model; bond rows in random order and orientation."""
    a = struc.AtomArray(m.n)
    a.coord = m.coord if coord is None else coord
    a.element[:] = m.elem
    if m.charge is not None:
        dt = str(rng.choice(["int64", "int32", "int8", "int64"]))
        if dt == "int8" and len(m.charge) and (min(m.charge) < -128 or max(m.charge) > 127):
            dt = "int32"
        a.set_annotation("charge", np.array(m.charge, dtype=dt))
    rows = [[i, j, t] for (i, j), t in m.bonds.items()]
    if rows:
        arr = np.array(rows, dtype=np.int64)
        arr = arr[rng.permutation(len(arr))]
        flip = rng.random(len(arr)) < 0.5
        arr[flip, 0], arr[flip, 1] = arr[flip, 1].copy(), arr[flip, 0].copy()
        a.bonds = struc.BondList(m.n, arr)
    else:
        a.bonds = struc.BondList(m.n)
    return a


def bond_set(bondlist):
    out = set()
    for i, j, t in bondlist.as_array().tolist():
        out.add((min(i, j), max(i, j), int(t)))
    return out


def ctab_expected_bonds(m, default):
    return {(i, j, t if t in CTAB_EXPRESSIBLE else default) for (i, j), t in m.bonds.items()}


def coord_tol(w):
    return 0.00005 * (1 + 1e-6) + abs(float(w)) * 2.0 ** -24 * 1.0001 + 1e-45


# =================================================================== oracles for one structure
def compare_structure(ctx, m, back, default, what):
    """Field-wise comparison of what biotite read back with the model."""
    ctx.oracle("atom_order_element")
    if not isinstance(back, struc.AtomArray) or back.array_length() != m.n:
        ctx.fail("atom_order_element", "%s: %d atoms written, read back %s with %s atoms"
                 % (what, m.n, type(back).__name__, getattr(back, "array_length", lambda: "?")()))
    got = [str(e) for e in back.element]
    if got != m.elem:
        k = next(i for i in range(m.n) if got[i] != m.elem[i])
        ctx.fail("atom_order_element", "%s: element of atom %d is %r, written %r" % (what, k, got[k], m.elem[k]))
    ctx.oracle("coord_precision")
    bc = np.asarray(back.coord, dtype=np.float64)
    mc = m.coord.astype(np.float64)
    tol = 0.00005 * (1 + 1e-6) + np.abs(mc) * (2.0 ** -24 * 1.0001) + 1e-45
    bad = ~(np.abs(bc - mc) <= tol)
    if bad.any():
        i, c = [int(v) for v in np.argwhere(bad)[0]]
        ctx.fail("coord_precision", "%s: coordinate [%d,%d] written %r read %r" % (what, i, c, mc[i, c], bc[i, c]))
    ctx.oracle("charge")
    if "charge" not in back.get_annotation_categories():
        ctx.fail("charge", "%s: structure read back has no charge annotation" % what)
    gc = [int(c) for c in back.charge]
    if gc != m.charges():
        k = next(i for i in range(m.n) if gc[i] != m.charges()[i])
        ctx.fail("charge", "%s: charge of atom %d is %d, written %d" % (what, k, gc[k], m.charges()[k]))
    ctx.oracle("typed_bond_set")
    if back.bonds is None:
        ctx.fail("typed_bond_set", "%s: no BondList read back" % what)
    got_b = bond_set(back.bonds)
    exp_b = ctab_expected_bonds(m, default)
    if got_b != exp_b or back.bonds.get_bond_count() != len(exp_b):
        ctx.fail("typed_bond_set", "%s: bond set differs" % what,
                 missing=sorted(exp_b - got_b)[:10], unexpected=sorted(got_b - exp_b)[:10])


def relabel_v3000(rng, text):
    """The V3000 text with its atom labels replaced by distinct unordered positive integers (bond lines rewritten)."""
    import re as _re
    lines = text.split("\n")
    block, natom = None, 0
    for l in lines:
        if l.startswith("M  V30 BEGIN ATOM"):
            block = "atom"
        elif l.startswith("M  V30 END"):
            block = None
        elif block == "atom" and _re.match(r"^M  V30 \d+ ", l):
            natom += 1
    if natom < 2:
        return None
    labels = [int(v) for v in rng.choice(np.arange(1, 5 * natom + 20), size=natom, replace=False)]
    new, out, block = {}, [], None
    for l in lines:
        if l.startswith("M  V30 BEGIN ATOM"):
            block = "atom"
        elif l.startswith("M  V30 BEGIN BOND"):
            block = "bond"
        elif l.startswith("M  V30 END"):
            block = None
        elif block == "atom":
            mm = _re.match(r"^(M  V30 )(\d+)( .*)$", l)
            if mm is None:
                return None
            new[int(mm.group(2))] = labels[len(new)]
            l = mm.group(1) + str(new[int(mm.group(2))]) + mm.group(3)
        elif block == "bond":
            mm = _re.match(r"^(M  V30 \d+ \d+ )(\d+) (\d+)(.*)$", l)
            if mm is None:
                return None
            l = mm.group(1) + "%d %d" % (new[int(mm.group(2))], new[int(mm.group(3))]) + mm.group(4)
        out.append(l)
    return "\n".join(out)


def check_ctab_text(ctx, m, lines, default, what):
    """Independent CTfile checker on the written text; returns the version found."""
    v3 = bool(lines) and len(lines[0]) >= 39 and lines[0][33:39] == " V3000"
    oid = "v3000_text" if v3 else "v2000_columns"
    ctx.oracle(oid)
    try:
        p = ctf.parse_v3000(lines) if v3 else ctf.parse_v2000(lines)
    except ctf.ColumnError as e:
        ctx.fail(oid, "%s: written table violates the CTfile layout: %s" % (what, e))
    if p["n_atoms"] != m.n or p["n_bonds"] != len(m.bonds):
        ctx.fail(oid, "%s: counts %d/%d in the text, molecule has %d/%d"
                 % (what, p["n_atoms"], p["n_bonds"], m.n, len(m.bonds)))
    if [s.upper() for s in p["symbols"]] != m.elem:
        ctx.fail(oid, "%s: symbols in the text differ from the elements written" % what,
                 text=p["symbols"][:12], written=m.elem[:12])
    for i in range(m.n):
        for c in range(3):
            w = float(m.coord[i, c])
            if not abs(float(p["coord_text"][i][c]) - w) <= 0.00005 * (1 + 1e-6) + 1e-12 * abs(w):
                ctx.fail(oid, "%s: coordinate [%d,%d] %r is %r in the text" % (what, i, c, w, p["coord_text"][i][c]))
    if p["charges"] != m.charges():
        k = next(i for i in range(m.n) if p["charges"][i] != m.charges()[i])
        ctx.fail(oid, "%s: text gives atom %d the charge %d, written %d"
                 % (what, k, p["charges"][k], m.charges()[k]))
    if p["atom_block_codes"] is not None:
        for i, code in enumerate(p["atom_block_codes"]):
            if code not in (0, ctf.ATOM_BLOCK_CODE.get(m.charges()[i], 0)):
                ctx.fail(oid, "%s: atom block charge code %d contradicts charge %d of atom %d"
                         % (what, code, m.charges()[i], i))
    exp = {}
    for (i, j), t in m.bonds.items():
        exp[(i, j)] = CTAB_CODES[t if t in CTAB_EXPRESSIBLE else default]
    seen = set()
    for a, b, code in p["bonds"]:
        key = (min(a, b) - 1, max(a, b) - 1)
        if a == b or key in seen or key not in exp or code not in exp[key]:
            ctx.fail(oid, "%s: bond line (%d,%d,type %d) does not belong to the molecule written "
                          "(expected codes %s)" % (what, a, b, code, sorted(exp.get(key, []))))
        seen.add(key)
    if len(seen) != len(exp):
        ctx.fail(oid, "%s: %d bonds in the text, %d written" % (what, len(seen), len(exp)))
    return "V3000" if v3 else "V2000"


def expected_write_outcome(m, version):
    """-> 'V2000' | 'V3000' | 'raise' | 'raise_or_v3000'."""
    counts_fit = m.n < 1000 and len(m.bonds) < 1000
    coords_fit = all(fits_f10_4(v) for v in m.coord.ravel())
    charges_fit = all(len("%d" % c) <= 3 for c in m.charges())      # ' aaa vvv' entries of M  CHG
    if version == "V3000":
        return "V3000" if coords_fit else "raise_or_v3000"
    if version == "V2000":
        return "V2000" if (counts_fit and coords_fit and charges_fit) else "raise"
    if not coords_fit or not charges_fit:
        return "raise_or_v3000"
    return "V2000" if counts_fit else "V3000"


DEFAULT_CHOICES = [None, None, ANY, SINGLE, DOUBLE, AROM, AROM_S, TRIPLE, AROM_D]


def write_kwargs(default, version):
    kw = {}
    if default is not None:
        kw["default_bond_type"] = struc.BondType(default)
    if version is not None:
        kw["version"] = version
    return kw


def judge_write(ctx, m, version, writer, what):
    """Run `writer()` (which writes the structure) and judge raise / version selection.
    Returns True when a table was written."""
    outcome = expected_write_outcome(m, version)
    try:
        with warnings.catch_warnings():
            warnings.simplefilter("ignore")
            writer()
    except (ValueError, BadStructureError) as e:
        ctx.exc(e)
        if outcome in ("raise", "raise_or_v3000"):
            ctx.oracle("beyond_limit_raises")
            return False
        ctx.fail("version_selection", "%s: refused a molecule that fits (%s): %s: %s"
                 % (what, outcome, type(e).__name__, e))
    if outcome == "raise":
        ctx.oracle("beyond_limit_raises")
    return True


def judge_version(ctx, m, version, found, what):
    outcome = expected_write_outcome(m, version)
    if outcome == "raise":
        ctx.fail("beyond_limit_raises", "%s: %d atoms / %d bonds / |coord| max %r do not fit V2000 but a %s "
                 "table was written without an error" % (what, m.n, len(m.bonds),
                                                         float(np.abs(m.coord).max()), found))
    if outcome == "raise_or_v3000":
        ctx.oracle("beyond_limit_raises")
        if found != "V3000":
            ctx.fail("beyond_limit_raises", "%s: coordinate beyond F10.4 written into a V2000 table" % what)
        return
    ctx.oracle("version_selection")
    if found != outcome:
        ctx.fail("version_selection", "%s: version=%r, %d atoms, %d bonds -> %s table, documented: %s"
                 % (what, version, m.n, len(m.bonds), found, outcome))


# =================================================================== text generators (header / metadata)
_WORD = "abcdefghijklmnopqrstuvwxyzABCDEFGHIJKLMNOPQRSTUVWXYZ0123456789"
_PUNCT = "!\"#%&'()*+,-./:;=?@[\\]^_`{|}~<>$"
_LATIN = "éßÅµ"
_AWKWARD = ["M  END", "$$$", ">", "<", "> <x>", "M  V30 END CTAB", "$$$$", "M  CHG", "  ", "V2000", "<a> (b)", "DT12"]


def gen_line(rng, maxlen, forbid=(), minlen=1, ascii_only=False):
    """One stripped, non-empty line of at most maxlen characters that starts with none of `forbid`."""
    for _ in range(50):
        n = int(rng.integers(minlen, maxlen + 1))
        parts = []
        while sum(len(p) for p in parts) < n:
            r = rng.random()
            if r < 0.12 and maxlen >= 8:
                parts.append(_AWKWARD[int(rng.integers(len(_AWKWARD)))])
            elif r < 0.25:
                parts.append(" ")
            elif r < 0.4:
                parts.append(_PUNCT[int(rng.integers(len(_PUNCT)))])
            elif r < 0.43 and not ascii_only:
                parts.append(_LATIN[int(rng.integers(len(_LATIN)))])
            else:
                parts.append(_WORD[int(rng.integers(len(_WORD)))])
        s = "".join(parts)[:n].strip()
        if len(s) >= minlen and s and not any(s.startswith(f) for f in forbid):
            return s
    return "x" * minlen


def gen_field(rng, width):
    r = rng.random()
    if r < 0.3:
        return ""
    if r < 0.55:
        return gen_line(rng, width, minlen=width)        # full width
    return gen_line(rng, width)


def gen_header(rng, name=None, for_molfile=False, ctx=None):
    """-> (kwargs for Header, expected dict after a round trip)."""
    forbid = ["$$$$"]
    if for_molfile and ctx is not None and not ctx.allowed("mol_header_line_m_end"):
        forbid.append("M  END")
    if name is None:
        name = "" if rng.random() < 0.15 else gen_line(rng, int(rng.choice([6, 20, 80])), forbid)
        if for_molfile and rng.random() < 0.04 and "M  END" not in forbid:
            name = "M  END" + name[:20].rstrip()
    kw = {"mol_name": name}
    exp = {"mol_name": name}
    for field, width in (("initials", 2), ("program", 8), ("dimensions", 2), ("scaling_factors", 12),
                         ("energy", 12), ("registry_number", 6)):
        v = gen_field(rng, width)
        if rng.random() < 0.8:
            kw[field] = v
        else:
            v = ""
        exp[field] = v
    if rng.random() < 0.05:
        # documented: "Shorter values are padded, longer values are truncated" - the neighbours must not move
        field, width = [("dimensions", 2), ("scaling_factors", 12), ("energy", 12), ("registry_number", 6)][int(rng.integers(4))]
        v = gen_line(rng, width + 6, minlen=width + 1)
        kw[field] = v
        exp[field] = v[:width].strip()
        exp["_truncated"] = field
    if (exp["initials"].rjust(2) + exp["program"].rjust(8)).startswith("$$$$"):
        # the second header line would begin with the SD record delimiter
        kw["initials"] = exp["initials"] = ""
    r = rng.random()
    if r < 0.35:
        exp["time"] = None
        if rng.random() < 0.5:
            kw["time"] = None
    else:
        year = int(rng.choice([1969, 1970, 1999, 2000, 2001, 2024, 2068, int(rng.integers(1969, 2069))]))
        month, day = int(rng.integers(1, 13)), int(rng.integers(1, 29))
        if r < 0.45:
            kw["time"] = datetime.date(year, month, day)
            exp["time"] = datetime.datetime(year, month, day, 0, 0)
        else:
            t = datetime.datetime(year, month, day, int(rng.integers(24)), int(rng.integers(60)))
            kw["time"] = exp["time"] = t
    if rng.random() < 0.7:
        c = "" if rng.random() < 0.2 else gen_line(rng, int(rng.choice([10, 60, 120])), forbid)
        if for_molfile and rng.random() < 0.03 and "M  END" not in forbid:
            c = "M  END"
        kw["comments"] = c
        exp["comments"] = c
    else:
        exp["comments"] = ""
    return kw, exp


HEADER_FIELDS = ["mol_name", "initials", "program", "time", "dimensions", "scaling_factors", "energy",
                 "registry_number", "comments"]


def compare_header(ctx, got, exp, what):
    ctx.oracle("header_fields")
    for f in HEADER_FIELDS:
        g = getattr(got, f)
        if g != exp[f] or (f == "time" and type(g) is not type(exp[f])):
            ctx.fail("header_fields", "%s: header field %s is %r, written %r" % (what, f, g, exp[f]))


def check_header_text(ctx, lines3, exp, what):
    """The three header lines as text, sliced by the CTfile layout
    IIPPPPPPPPMMDDYYHHmmddSSssssssssssEEEEEEEEEEEERRRRRR (independent of Header.deserialize)."""
    ctx.oracle("header_text")
    if len(lines3) != 3:
        ctx.fail("header_text", "%s: header block has %d lines" % (what, len(lines3)))
    l1, l2, l3 = lines3
    if l1.strip() != exp["mol_name"] or len(l1) > 80:
        ctx.fail("header_text", "%s: name line is %r, written %r" % (what, l1, exp["mol_name"]))
    if l3.strip() != exp["comments"]:
        ctx.fail("header_text", "%s: comment line is %r, written %r" % (what, l3, exp["comments"]))
    if len(l2) > 80:
        ctx.fail("header_text", "%s: second header line has %d characters" % (what, len(l2)))
    t = exp["time"]
    date = " " * 10 if t is None else "%02d%02d%02d%02d%02d" % (t.month, t.day, t.year % 100, t.hour, t.minute)
    for name, a, b, want in (("initials", 0, 2, exp["initials"]), ("program", 2, 10, exp["program"]),
                             ("date MMDDYYHHmm", 10, 20, date), ("dimensions", 20, 22, exp["dimensions"]),
                             ("scaling_factors", 22, 34, exp["scaling_factors"]), ("energy", 34, 46, exp["energy"]),
                             ("registry_number", 46, 52, exp["registry_number"])):
        got = l2[a:b]
        if (got.strip() != want.strip()) or (name.startswith("date") and got.ljust(10) != want):
            ctx.fail("header_text", "%s: columns %d-%d (%s) hold %r, written %r" % (what, a + 1, b, name, got, want))
    if l2[52:].strip():
        ctx.fail("header_text", "%s: text beyond column 52 of the second header line: %r" % (what, l2[52:]))


def header_log(kw):
    return {k: (v.isoformat() if hasattr(v, "isoformat") else v) for k, v in kw.items()}


_NAME_TAIL = _WORD + "_."


def gen_key(rng):
    """-> (key spec for the log, expected (number, name, registry_internal, registry_external))."""
    def name():
        n = int(rng.choice([1, 2, 5, 12, 30]))
        return _WORD[int(rng.integers(len(_WORD)))] + "".join(
            _NAME_TAIL[int(k)] for k in rng.integers(0, len(_NAME_TAIL), size=n - 1))
    if rng.random() < 0.35:
        nm = name()
        return ("str", nm), (None, nm, None, None)
    has_name = rng.random() < 0.75
    number = None if (has_name and rng.random() < 0.5) else int(rng.choice([0, 1, 7, 42, 999, 123456789, 10 ** 12]))
    nm = name() if has_name else None
    ri = int(rng.choice([0, 3, 77, 99999, 10 ** 10])) if rng.random() < 0.4 else None
    if rng.random() < 0.4:
        k = int(rng.choice([0, 1, 4, 12]))
        ext_chars = _WORD + "_.-"
        re_ = "".join(ext_chars[int(c)] for c in rng.integers(0, len(ext_chars), size=k))
    else:
        re_ = None
    return ("key", number, nm, ri, re_), (number, nm, ri, re_)


def gen_value(rng):
    nlines = int(rng.choice([1, 1, 2, 3, 4]))
    return "\n".join(gen_line(rng, int(rng.choice([3, 20, 70, 200])), (">", "$$$$")) for _ in range(nlines))


def gen_metadata(rng):
    """-> list of (keyspec, expected_key_tuple, value); expected keys are unique."""
    out, seen = [], set()
    for _ in range(int(rng.choice([0, 1, 1, 2, 3, 5]))):
        spec, exp = gen_key(rng)
        if exp in seen:
            continue
        seen.add(exp)
        out.append((spec, exp, gen_value(rng)))
    return out


def make_key(spec):
    if spec[0] == "str":
        return spec[1]
    _, number, nm, ri, re_ = spec
    kw = {}
    if number is not None:
        kw["number"] = number
    if nm is not None:
        kw["name"] = nm
    if ri is not None:
        kw["registry_internal"] = ri
    if re_ is not None:
        kw["registry_external"] = re_
    return mol.Metadata.Key(**kw)


def compare_metadata(ctx, got, entries, what):
    ctx.oracle("metadata")
    exp = {e[1]: e[2] for e in entries}
    try:
        items = [((k.number, k.name, k.registry_internal, k.registry_external), v) for k, v in got.items()]
    except (DeserializationError, ValueError) as e:
        ctx.exc(e)
        ctx.fail("metadata", "%s: metadata written by biotite cannot be parsed: %s: %s"
                 % (what, type(e).__name__, e), written=[[list(map(repr, e_[1])), e_[2]] for e_ in entries])
    gd = dict(items)
    if len(gd) != len(items) or gd != exp:
        ctx.fail("metadata", "%s: metadata differs" % what,
                 missing=[[repr(k), v] for k, v in exp.items() if gd.get(k) != v][:5],
                 unexpected=[[repr(k), v] for k, v in gd.items() if exp.get(k) != v][:5])
    for (k, v) in items:
        if k[0] is not None and type(k[0]) is not int or k[2] is not None and type(k[2]) is not int:
            ctx.fail("metadata", "%s: key %r has non-int number parts" % (what, k))
    if [k for k, _ in items] != [e[1] for e in entries]:
        ctx.note("metadata_order_changed")


# =================================================================== MOL / SDF cases
DEFAULT_HEADER = {"mol_name": "", "initials": "", "program": "", "time": None, "dimensions": "",
                  "scaling_factors": "", "energy": "", "registry_number": "", "comments": ""}


def abstract_state(m, version, default, found):
    ts = sorted(set(m.bonds.values()))
    ch = m.charges()
    return ("ctab", version, default, found, min(m.n, 1001) if m.n > 996 else (m.n if m.n < 4 else 4),
            min(len(m.bonds), 1001) if len(m.bonds) > 996 else min(len(m.bonds), 3), tuple(ts),
            m.charge is None, any(ch), any(abs(c) > 3 for c in ch))


def nontrivial_mol(m, edges=False):
    ch = m.charges()
    return bool(m.bonds) and (any(ch) or any(t not in CTAB_EXPRESSIBLE for t in m.bonds.values()) or edges
                              or m.n >= 998 or len(m.bonds) >= 998)


def roundtrip_mol(ctx, rng, m, version, default, container, edges=False, with_header=None):
    """Write model `m` through `container`, check the text, read back, compare."""
    atoms = build_atoms(rng, m)
    kw = write_kwargs(default, version)
    eff_default = ANY if default is None else default
    if with_header is None:
        with_header = rng.random() < 0.5
    hkw, hexp = (gen_header(rng, for_molfile=(container != "sdrecord"), ctx=ctx) if with_header
                 else ({}, dict(DEFAULT_HEADER)))
    ctx.log({"container": container, "version": version, "default_bond_type": default,
             "header": header_log(hkw) if with_header else None, "mol": m.describe()})
    ctx.op("write_" + container)
    ctx.op("version_%s" % version)
    what = "%s(version=%r)" % (container, version)
    if container in ("molfile", "convert_molfile"):
        f = mol.MOLFile()
        header_first = rng.random() < 0.5
        if with_header and ctx.index % 3 == 0:
            _ = f.header              # a file whose header was looked at before it is replaced
        if with_header and header_first:
            f.header = mol.Header(**hkw)
        if container == "molfile":
            wrote = judge_write(ctx, m, version, lambda: f.set_structure(atoms, **kw), what)
        else:
            wrote = judge_write(ctx, m, version, lambda: mol.set_structure(f, atoms, **kw), what)
        if not wrote:
            return None
        if with_header and not header_first:
            f.header = mol.Header(**hkw)
        if with_header:
            # the file object answers with the header it was given (no file round trip: the fields as assigned)
            given = mol.Header(**hkw)
            compare_header(ctx, f.header, {k: getattr(given, k) for k in HEADER_FIELDS},
                           what + ": header of the file object after assignment")
        reader = None
        if ctx.index % 4 == 1:
            from vf.core import through_disk
            reader, text = through_disk(ctx, f, mol.MOLFile, False, ".mol", as_pathlib=ctx.index % 8 == 1)
        else:
            buf = io.StringIO()
            f.write(buf)
            text = buf.getvalue()
        lines = text.split("\n")
        if lines[-1] != "":
            ctx.fail("v2000_columns", "%s: written text does not end with a line break" % what)
        ctab_lines = lines[3:-1]
        if reader is None:
            reader = mol.MOLFile.read(io.StringIO(text))
        get = (lambda: reader.get_structure()) if container == "molfile" else (lambda: mol.get_structure(reader))
        get_header = lambda: reader.header
    else:
        rec = mol.SDRecord(header=mol.Header(**hkw)) if with_header else mol.SDRecord()
        if container == "sdrecord":
            wrote = judge_write(ctx, m, version, lambda: rec.set_structure(atoms, **kw), what)
        else:
            wrote = judge_write(ctx, m, version, lambda: mol.set_structure(rec, atoms, **kw), what)
        if not wrote:
            return None
        text = rec.serialize()
        lines = text.split("\n")
        ctab_lines = lines[3:-1]
        reader = mol.SDRecord.deserialize(text)
        get = (lambda: reader.get_structure()) if container == "sdrecord" else (lambda: mol.get_structure(reader))
        get_header = lambda: reader.header
    found = check_ctab_text(ctx, m, ctab_lines, eff_default, what)
    judge_version(ctx, m, version, found, what)
    check_header_text(ctx, lines[:3], hexp, what)
    ctx.op("read_" + found)
    try:
        with warnings.catch_warnings(record=True) as wlist:
            warnings.simplefilter("always")
            back = get()
    except (InvalidFileError, DeserializationError) as e:
        ctx.exc(e)
        ctx.fail("atom_order_element", "%s: the file biotite wrote cannot be read back: %s: %s"
                 % (what, type(e).__name__, e))
    for w in wlist:
        ctx.note("read_warning:" + type(w.message).__name__)
    compare_structure(ctx, m, back, eff_default, what)
    if found == "V3000" and rng.random() < 0.5:
        # the same connection table with other atom labels: V3000 labels are arbitrary positive integers in any order,
        # bonds refer to atoms by label
        relab = relabel_v3000(rng, text)
        if relab is not None:
            ctx.op("read_V3000_relabelled")
            try:
                with warnings.catch_warnings():
                    warnings.simplefilter("ignore")
                    back2 = mol.MOLFile.read(io.StringIO(relab)).get_structure() if container in ("molfile", "convert_mol") or True else None
            except Exception as e:
                ctx.fail("atom_order_element", "%s: the same V3000 table with unordered atom labels cannot be read: %s: %s" % (what, type(e).__name__, e))
            compare_structure(ctx, m, back2, eff_default, what + " (atom labels replaced by unordered integers)")
    try:
        h = get_header()
    except DeserializationError as e:
        ctx.exc(e)
        ctx.fail("header_fields", "%s: header written by biotite cannot be parsed: %s" % (what, e))
    compare_header(ctx, h, hexp, what)
    ctx.state(abstract_state(m, version, default, found))
    ctx.mark_nontrivial(nontrivial_mol(m, edges))
    return found


def pick_version(rng):
    return [None, None, "V2000", "V3000"][int(rng.integers(4))]


def pick_default(rng):
    return DEFAULT_CHOICES[int(rng.integers(len(DEFAULT_CHOICES)))]


_CONTAINERS = ["molfile", "molfile", "molfile", "sdrecord", "convert_molfile", "convert_sdrecord"]


def case_mol_small(rng, ctx):
    big = ctx.tier != "quick" and rng.random() < 0.05
    n = int(rng.integers(41, 400)) if big else int(rng.choice([1, 2, 3, 4, 5, 6, 8, 10, 14, 20, 30, 40]))
    maxm = n * (n - 1) // 2
    r = rng.random()
    mb = 0 if r < 0.05 else (min(maxm, n - 1) if r < 0.4 else int(rng.integers(0, min(maxm, 3 * n) + 1)))
    if r > 0.97:
        mb = min(maxm, 999)
    m = gen_mol(rng, n, mb, edges=(rng.random() < 0.2))
    if rng.random() < 0.02:
        # invalid version string: documented values are V2000 / V3000
        atoms = build_atoms(rng, m)
        bad = str(rng.choice(["V1000", "v2000", "", "V2000 ", "2000"]))
        ctx.log({"invalid_version": bad, "mol": m.describe()})
        ctx.op("invalid_version")
        ctx.oracle("version_selection")
        try:
            mol.MOLFile().set_structure(atoms, version=bad)
        except ValueError as e:
            ctx.exc(e)
        else:
            ctx.fail("version_selection", "version=%r accepted" % bad)
        return
    roundtrip_mol(ctx, rng, m, pick_version(rng), pick_default(rng), _CONTAINERS[int(rng.integers(len(_CONTAINERS)))])


_EDGE_COUNTS = [997, 998, 999, 1000, 1001, 1002, 1003]


def case_mol_limits(rng, ctx):
    r = rng.random()
    e = lambda: int(_EDGE_COUNTS[int(rng.integers(len(_EDGE_COUNTS)))])
    if r < 0.45:
        n = e()
        mb = int(rng.choice([0, n - 1, e(), e(), 500, 1200]))
    elif r < 0.7:
        n = int(rng.integers(46, 400))
        mb = e()
    elif r < 0.9:
        n = int(rng.integers(1004, 1501))
        mb = int(rng.choice([n - 1, 0, 999, 1000, n + 50, 12]))
    else:
        n = int(rng.integers(500, 997))
        mb = int(rng.choice([n - 1, 998, 999, 1000]))
    m = gen_mol(rng, n, mb)
    roundtrip_mol(ctx, rng, m, pick_version(rng) if rng.random() < 0.7 else None, pick_default(rng),
                  ["molfile", "sdrecord"][int(rng.integers(2))], with_header=(rng.random() < 0.2))


_BEYOND = [100000.0, 99999.996, 99999.9999, -10000.0, -9999.9996, -9999.9999, 1e6, -1e5, 123456.7, 1e10, -1e10,
           3.4e38, -99999.5, 100000.5]
_WIDE_CHARGES = [-100, 1000, -999, 9999, -1000]


def case_coord_edges(rng, ctx):
    n = int(rng.integers(1, 7))
    maxm = n * (n - 1) // 2
    m = gen_mol(rng, n, int(rng.integers(0, maxm + 1)), edges=True)
    r = rng.random()
    if r < 0.3:
        for _ in range(int(rng.integers(1, 3))):
            m.coord[int(rng.integers(n)), int(rng.integers(3))] = F32(_BEYOND[int(rng.integers(len(_BEYOND)))])
        ctx.op("coordinate_beyond_f10_4")
    elif r < 0.4 and ctx.allowed("charge_wider_than_3_columns"):
        if m.charge is None:
            m.charge = [0] * n
        m.charge[int(rng.integers(n))] = _WIDE_CHARGES[int(rng.integers(len(_WIDE_CHARGES)))]
        ctx.op("charge_beyond_3_columns")
    elif r < 0.5:
        # every coordinate at a limit
        m.coord[:] = np.array([[MAX_POS, MAX_NEG, [MAX_POS, MAX_NEG, -0.0][int(rng.integers(3))]]] * n, dtype=F32)
    roundtrip_mol(ctx, rng, m, pick_version(rng), pick_default(rng), _CONTAINERS[int(rng.integers(len(_CONTAINERS)))],
                  edges=True, with_header=False)


_AWKWARD_NAMES = ["", "a b", "$$$x", "> <k>", "M  END", "M  END x", "0", "-1", "x" * 80, "$", "<>", "M  V30 BEGIN CTAB",
                  "name with  two blanks", ">", "999999 V2000", "é", "A", "a"]


def gen_record_names(rng, k):
    names = []
    while len(names) < k:
        nm = (_AWKWARD_NAMES[int(rng.integers(len(_AWKWARD_NAMES)))] if rng.random() < 0.5
              else gen_line(rng, int(rng.choice([4, 12, 80])), ("$$$$",)))
        if nm not in names:
            names.append(nm)
    return names


def case_sdf(rng, ctx):
    k = int(rng.choice([1, 1, 2, 3, 4, 6]))
    names = gen_record_names(rng, k)
    model = {}          # name -> dict(mol, header_exp, meta, default, version)
    recs = {}
    how = str(rng.choice(["setitem", "constructor"]))
    log = {"how": how, "records": []}
    for nm in names:
        n = int(rng.choice([1, 2, 3, 5, 8, 12])) if rng.random() < 0.97 else int(rng.integers(990, 1010))
        maxm = n * (n - 1) // 2
        m = gen_mol(rng, n, min(maxm, int(rng.integers(0, 2 * n + 1))), edges=(rng.random() < 0.1))
        version, default = pick_version(rng), pick_default(rng)
        if (m.n >= 1000 or len(m.bonds) >= 1000) and version == "V2000":
            version = None
        hkw, hexp = gen_header(rng, name=nm)
        meta = gen_metadata(rng)
        hkw_in = dict(hkw)
        if rng.random() < 0.5:
            # the file key overrides whatever name the header had
            hkw_in["mol_name"] = gen_line(rng, 10)
        meta_how = str(rng.choice(["ctor_metadata", "ctor_dict", "setitem", "setter"]))
        keyed = [(make_key(spec), val) for spec, _, val in meta]
        if meta_how == "ctor_metadata":
            rec = mol.SDRecord(header=mol.Header(**hkw_in), metadata=mol.Metadata(dict(keyed)))
        elif meta_how == "ctor_dict":
            rec = mol.SDRecord(header=mol.Header(**hkw_in), metadata=dict(keyed))
        elif meta_how == "setitem":
            rec = mol.SDRecord(header=mol.Header(**hkw_in))
            for key, val in keyed:
                rec.metadata[key] = val
        else:
            rec = mol.SDRecord(header=mol.Header(**hkw_in))
            rec.metadata = dict(keyed)
        rec.set_structure(build_atoms(rng, m), **write_kwargs(default, version))
        recs[nm] = rec
        model[nm] = {"mol": m, "header": hexp, "meta": meta, "default": ANY if default is None else default,
                     "version": version}
        log["records"].append({"name": nm, "header": header_log(hkw), "metadata_via": meta_how,
                               "metadata": [[list(spec), val] for spec, _, val in meta],
                               "version": version, "default_bond_type": default, "mol": m.describe(16)})
    if how == "setitem":
        sd = mol.SDFile()
        for nm in names:
            sd[nm] = recs[nm]
    else:
        sd = mol.SDFile(recs)
    # edits: delete and re-add (goes to the end), overwrite in place
    if k >= 2 and rng.random() < 0.3:
        nm = names[int(rng.integers(k))]
        ctx.op("sdfile_del_readd")
        log["del_readd"] = nm
        rec = sd[nm]
        del sd[nm]
        sd[nm] = rec
        model[nm] = model.pop(nm)
    ctx.log(log)
    ctx.op("sdfile_%d_records" % k)
    via = str(rng.choice(["serialize", "write_read"]))
    try:
        if via == "serialize":
            text = sd.serialize()
            sd2 = mol.SDFile.deserialize(text)
        elif ctx.index % 2 == 1:
            from vf.core import through_disk
            sd2, text = through_disk(ctx, sd, mol.SDFile, False, ".sdf", as_pathlib=ctx.index % 4 == 1)
        else:
            buf = io.StringIO()
            sd.write(buf)
            text = buf.getvalue()
            sd2 = mol.SDFile.read(io.StringIO(text))
    except SerializationError as e:
        ctx.exc(e)
        ctx.fail("record_names_order", "SD file of valid records refused: %s" % e)
    ctx.oracle("record_names_order")
    got_names = list(sd2.keys())
    if got_names != list(model.keys()) or len(sd2) != len(model):
        ctx.fail("record_names_order", "record names/order read back %r, written %r" % (got_names, list(model.keys())))
    # a file that is parsed and written again without looking at its records (they are still held as text) loses nothing
    ctx.op("SDFile.deserialize+serialize untouched")
    try:
        text2 = mol.SDFile.deserialize(text).serialize()
    except (SerializationError, DeserializationError) as e:
        ctx.exc(e)
        ctx.fail("record_names_order", "an untouched SD file cannot be written again: %s" % e)
    if text2 != text:
        ctx.fail("record_names_order", "an SD file parsed and serialised again without being touched differs from the text it was parsed from "
                 "(%d -> %d characters, %d -> %d record delimiters)" % (len(text), len(text2), text.count("$$$$"), text2.count("$$$$")))
    for nm, mm in model.items():
        what = "record %r" % nm
        try:
            rec2 = sd2[nm]
        except DeserializationError as e:
            ctx.exc(e)
            ctx.fail("record_names_order", "%s cannot be deserialised: %s" % (what, e))
        found = check_ctab_text(ctx, mm["mol"], rec2.ctab.split("\n")[:-1], mm["default"], what)
        judge_version(ctx, mm["mol"], mm["version"], found, what)
        compare_structure(ctx, mm["mol"], rec2.get_structure(), mm["default"], what)
        try:
            h = rec2.header
        except DeserializationError as e:
            ctx.exc(e)
            ctx.fail("header_fields", "%s: header cannot be parsed: %s" % (what, e))
        compare_header(ctx, h, mm["header"], what)
        check_header_text(ctx, sd[nm].serialize().split("\n")[:3], mm["header"], what)
        try:
            md = rec2.metadata
        except DeserializationError as e:
            ctx.exc(e)
            ctx.fail("metadata", "%s: metadata written by biotite cannot be parsed (%s)" % (what, e),
                     written=[[list(spec), val] for spec, _, val in mm["meta"]])
        compare_metadata(ctx, md, mm["meta"], what)
        ctx.state(("sdf", len(mm["meta"]), tuple(sorted(sum(1 for p in e_[1] if p is not None) for e_ in mm["meta"])),
                   max([v.count("\n") for _, _, v in mm["meta"]] or [0]), found))
    # the first record is also what a MOLFile sees in this text (documented use)
    first = next(iter(model))
    if ctx.allowed("mol_header_line_m_end") or not (
            first.startswith("M  END") or model[first]["header"]["comments"].startswith("M  END")
            or (model[first]["header"]["initials"].rjust(2) + model[first]["header"]["program"].rjust(8)).startswith("M  END")):
        ctx.op("molfile_reads_sdf")
        mf = mol.MOLFile.read(io.StringIO(text))
        try:
            back = mf.get_structure()
        except InvalidFileError as e:
            ctx.exc(e)
            ctx.fail("atom_order_element", "MOLFile cannot read the first record of the SD text: %s" % e)
        compare_structure(ctx, model[first]["mol"], back, model[first]["default"], "MOLFile.read(SD text)")
        compare_header(ctx, mf.header, model[first]["header"], "MOLFile.read(SD text)")
    # documented object equality after a round trip (Header == is field-wise; a date would come back as datetime)
    if all(not isinstance(r_.header.time, datetime.date) or isinstance(r_.header.time, datetime.datetime)
           for r_ in recs.values()) and not any("_truncated" in mm["header"] for mm in model.values()):
        ctx.oracle("sdfile_eq")
        if not (sd2 == sd):
            ctx.fail("sdfile_eq", "SDFile read back compares unequal to the file written")
    if k == 1:
        ctx.oracle("sdfile_single_record")
        if sd2.record is not sd2[names[0]]:
            ctx.fail("sdfile_single_record", ".record is not the only record")
        back = mol.get_structure(sd2)
        compare_structure(ctx, model[names[0]]["mol"], back, model[names[0]]["default"], "convert.get_structure(SDFile)")
    elif rng.random() < 0.5:
        nm = names[int(rng.integers(k))]
        back = mol.get_structure(sd2, record_name=nm)
        compare_structure(ctx, model[nm]["mol"], back, model[nm]["default"], "convert.get_structure(SDFile, %r)" % nm)
    ctx.mark_nontrivial(k >= 2 or any(any(v.count("\n") or sum(p is not None for p in e_) >= 2 for _, e_, v in mm["meta"])
                                      for mm in model.values()))
    if rng.random() < 0.02:
        # outside the statement (the documented key grammar has no line break): counted, not judged
        try:
            mol.Metadata.Key(name="abc\n")
            ctx.note("key_name_with_trailing_newline_accepted")
        except ValueError as e:
            ctx.exc(e)
    # over-long names must be refused, not written
    if rng.random() < 0.05:
        ctx.op("name_too_long")
        ctx.oracle("name_too_long_rejected")
        bad = mol.SDFile()
        r_ = mol.SDRecord()
        r_.set_structure(build_atoms(rng, model[first]["mol"]))
        bad["y" * int(rng.integers(81, 120))] = r_
        try:
            bad.serialize()
        except (SerializationError, ValueError) as e:
            ctx.exc(e)
        else:
            ctx.fail("name_too_long_rejected", "a molecule name of more than 80 characters was written")


# =================================================================== RDKit bridge
VALENCE = {"C": 4, "N": 3, "O": 2, "S": 2, "P": 3, "F": 1, "CL": 1, "BR": 1, "I": 1, "SI": 4, "B": 3}
_HEAVY_POOL = ["C", "C", "C", "C", "C", "N", "N", "O", "O", "S", "P", "F", "CL", "BR", "I", "SI", "B", "N+", "O-"]


class ChemBuilder:
    """Valence-complete molecules: every atom's bond order sum equals its valence."""

    def __init__(self):
        self.elem, self.charge, self.free, self.bonds = [], [], [], {}
        self.aromatic_rings = 0

    def atom(self, e):
        if e == "N+":
            self.elem.append("N"); self.charge.append(1); self.free.append(4)
        elif e == "O-":
            self.elem.append("O"); self.charge.append(-1); self.free.append(1)
        else:
            self.elem.append(e); self.charge.append(0); self.free.append(1 if e == "H" else VALENCE[e])
        return len(self.elem) - 1

    def bond(self, i, j, t):
        self.bonds[(min(i, j), max(i, j))] = t
        self.free[i] -= BOND_ORDER[t]
        self.free[j] -= BOND_ORDER[t]
        assert self.free[i] >= 0 and self.free[j] >= 0

    def ring(self, kind, phase):
        """Aromatic ring in Kekule form; returns its atom indices."""
        if kind == "naphthalene":
            idx = [self.atom("C") for _ in range(10)]
            doubles = {(0, 1), (2, 3), (4, 9), (5, 6), (7, 8)}
            edges = [(k, (k + 1) % 10) for k in range(10)] + [(4, 9)]
            for a, b in edges:
                d = (min(a, b), max(a, b)) in doubles
                self.bond(idx[a], idx[b], AROM_D if d else AROM_S)
        elif kind in ("benzene", "pyridine", "pyrimidine"):
            els = {"benzene": "CCCCCC", "pyridine": "NCCCCC", "pyrimidine": "NCNCCC"}[kind]
            idx = [self.atom(c) for c in els]
            for k in range(6):
                self.bond(idx[k], idx[(k + 1) % 6], AROM_D if (k + phase) % 2 == 0 else AROM_S)
        else:
            het = {"pyrrole": "N", "furan": "O", "thiophene": "S"}[kind]
            idx = [self.atom(het)] + [self.atom("C") for _ in range(4)]
            for k, t in enumerate([AROM_S, AROM_D, AROM_S, AROM_D, AROM_S]):
                self.bond(idx[k], idx[(k + 1) % 5], t)
        self.aromatic_rings += 1
        return idx


_RINGS = ["benzene", "benzene", "pyridine", "pyrimidine", "pyrrole", "furan", "thiophene", "naphthalene"]


def gen_chem(rng, nheavy, h_free=False):
    b = ChemBuilder()
    nrings = int(rng.choice([0, 0, 1, 1, 2]))
    for _ in range(nrings):
        kind = str(rng.choice(["benzene", "pyridine", "naphthalene"] if h_free else _RINGS))
        prev = [i for i in range(len(b.elem)) if b.free[i] > 0]
        idx = b.ring(kind, int(rng.integers(2)))
        mine = [i for i in idx if b.free[i] > 0]
        if prev and mine and rng.random() < 0.7:
            b.bond(prev[int(rng.integers(len(prev)))], mine[int(rng.integers(len(mine)))], SINGLE)
    for _ in range(nheavy):
        cand = [i for i in range(len(b.elem)) if b.free[i] > 0]
        e = _HEAVY_POOL[int(rng.integers(len(_HEAVY_POOL)))]
        j = b.atom(e)
        if not cand:
            continue
        i = cand[int(rng.integers(len(cand)))]
        order = SINGLE
        r = rng.random()
        if r < 0.05 and b.free[i] >= 3 and b.free[j] >= 3:
            order = TRIPLE
        elif r < 0.2 and b.free[i] >= 2 and b.free[j] >= 2:
            order = DOUBLE
        b.bond(i, j, order)
        if rng.random() < 0.2:
            cand = [k for k in range(len(b.elem)) if b.free[k] > 0]
            if len(cand) >= 2:
                p, q = [int(v) for v in rng.choice(len(cand), size=2, replace=False)]
                p, q = cand[p], cand[q]
                if (min(p, q), max(p, q)) not in b.bonds:
                    b.bond(p, q, SINGLE)
    if not b.elem:
        b.atom("C")
    for i in range(len(b.elem)):
        while b.free[i] > 0:
            j = b.atom(str(rng.choice(["F", "CL"])) if h_free else "H")
            b.bond(i, j, SINGLE)
    n = len(b.elem)
    if rng.random() < 0.5:
        perm = rng.permutation(n)                   # new index of old atom k is perm[k]
        elem, charge = [None] * n, [0] * n
        for k in range(n):
            elem[int(perm[k])] = b.elem[k]
            charge[int(perm[k])] = b.charge[k]
        bonds = {}
        for (i, j), t in b.bonds.items():
            a, c = int(perm[i]), int(perm[j])
            bonds[(min(a, c), max(a, c))] = t
    else:
        elem, charge, bonds = b.elem, b.charge, b.bonds
    ch = charge if (any(charge) or rng.random() < 0.6) else None
    return Mol(elem, np.zeros((n, 3), dtype=F32), ch, bonds), b.aromatic_rings


def order_sums(n, bonds):
    s = [0] * n
    for (i, j), t in bonds.items():
        s[i] += BOND_ORDER[t]
        s[j] += BOND_ORDER[t]
    return s


def gen_std_annotations(rng, n):
    d = {}
    if rng.random() < 0.3:
        return d

    def per_atom(pool):
        if rng.random() < 0.5:
            return [pool[int(rng.integers(len(pool)))]] * n
        return [pool[int(k)] for k in rng.integers(0, len(pool), size=n)]
    d["chain_id"] = per_atom(["", "A", "B", "AB", "ABCD", "z"])
    d["res_id"] = [int(v) for v in per_atom([0, 1, 2, 42, -5, 9999, 2 ** 31 - 1, -2 ** 31])]
    d["ins_code"] = per_atom(["", "A", "z"])
    d["res_name"] = per_atom(["", "LIG", "ABCDE", "HOH", "x y"])
    d["hetero"] = [bool(v) for v in per_atom([True, False])]
    d["atom_name"] = per_atom(["", "C1", "CA", "ABCDEF", "H 1", "O'"])
    if rng.random() < 0.4:
        d["b_factor"] = [float(v) for v in np.round(rng.random(n) * 100, 2)]
    if rng.random() < 0.4:
        d["occupancy"] = [float(v) for v in per_atom([1.0, 0.5, 0.0, 0.33])]
    if rng.random() < 0.3:
        d["label_alt_id"] = per_atom([".", "A", "B", ""])
    return d


_SAFE_START = "ghjklmopqrsuvwxyzGHJKLMOPQRSUVWXYZ_"
_NUMERIC_LOOKING = ["12", "3.50", "1e5", "007", "-4", "0", "1.0", "+7"]


def looks_numeric(s):
    try:
        float(s)
        return True
    except ValueError:
        return False


def gen_extra(rng, n, ctx):
    """-> {name: (kind, values)}."""
    out = {}
    names = ["tag", "idx", "weight", "flag", "my_annot", "x1"]
    for _ in range(int(rng.choice([0, 1, 1, 2, 3]))):
        name = names[int(rng.integers(len(names)))]
        kind = str(rng.choice(["bool", "int", "float", "str"]))
        if kind == "bool":
            vals = [bool(v) for v in rng.random(n) < 0.5]
        elif kind == "int":
            pool = [0, 1, -1, 255, 2 ** 31 - 1, -2 ** 31, 1000]
            vals = [int(pool[int(rng.integers(len(pool)))]) if rng.random() < 0.5 else int(rng.integers(-10 ** 6, 10 ** 6))
                    for _ in range(n)]
        elif kind == "float":
            pool = [0.0, -0.0, 1.5, -2.25, 1e300, 1e-300, 0.1, 3.0, 1e-45, 123456789.123456789]
            vals = [float(pool[int(rng.integers(len(pool)))]) if rng.random() < 0.5 else float(rng.standard_normal())
                    for _ in range(n)]
        else:
            vals = []
            # Extra annotations are not part of the property statement (elements, coordinates, charges, bonds,
            # conformers): RDKit's auto-conversion of numeric-looking strings is therefore not exercised.
            numeric_ok = False
            for _ in range(n):
                if numeric_ok and rng.random() < 0.7:
                    vals.append(_NUMERIC_LOOKING[int(rng.integers(len(_NUMERIC_LOOKING)))])
                else:
                    k = int(rng.integers(0, 8))
                    s = _SAFE_START[int(rng.integers(len(_SAFE_START)))] + "".join(
                        (_WORD + " .-")[int(c)] for c in rng.integers(0, len(_WORD) + 3, size=k))
                    vals.append(s.strip() if rng.random() < 0.8 else s)
            if all(v == vals[0] for v in vals) and rng.random() < 0.1:
                vals = [""] * n
        out[name] = (kind, vals)
    return out


def build_rdkit_input(rng, m, coords, std, extra, as_stack):
    """AtomArray (coords (n,3)) or AtomArrayStack (coords (k,n,3))."""
    depth = coords.shape[0]
    if as_stack:
        if rng.random() < 0.5:
            atoms = struc.AtomArrayStack(depth, m.n)
            atoms.coord = coords
        else:
            arrs = []
            for k in range(depth):
                a = struc.AtomArray(m.n)
                a.coord = coords[k]
                arrs.append(a)
            atoms = struc.stack(arrs)
    else:
        atoms = struc.AtomArray(m.n)
        atoms.coord = coords[0]
    atoms.element = np.array(m.elem, dtype="U2")
    if m.charge is not None:
        atoms.set_annotation("charge", np.array(m.charge, dtype=int))
    for name, vals in std.items():
        atoms.set_annotation(name, np.array(vals))
    for name, (kind, vals) in extra.items():
        if kind == "int":
            dt = np.int64 if rng.random() < 0.6 or min(vals) < -2 ** 31 + 1 else np.int32
            arr = np.array(vals, dtype=dt)
        elif kind == "float":
            arr = np.array(vals, dtype=np.float64)
        else:
            arr = np.array(vals)
        atoms.set_annotation(name, arr)
    rows = [[i, j, t] for (i, j), t in m.bonds.items()]
    if rows:
        arr = np.array(rows, dtype=np.int64)
        arr = arr[rng.permutation(len(arr))]
        atoms.bonds = struc.BondList(m.n, arr)
    else:
        atoms.bonds = struc.BondList(m.n)
    return atoms


def rdkit_expected_bonds(m, kekulize, dative):
    exp = {}
    for (i, j), t in m.bonds.items():
        if kekulize:
            t = NO_AROMATICITY.get(t, t)
        if t == COORD and not dative:
            t = SINGLE
        exp[(i, j)] = t
    return exp


def compare_rdkit(ctx, m, coords, y, as_array, exp_bonds, std, extra, chem, what):
    n = m.n
    ctx.oracle("rdkit_conformers")
    if as_array:
        if type(y) is not struc.AtomArray or y.coord.shape != (n, 3):
            ctx.fail("rdkit_conformers", "%s: expected an AtomArray of %d atoms, got %s %s"
                     % (what, n, type(y).__name__, getattr(y.coord, "shape", None)))
        ok = np.array_equal(y.coord, coords, equal_nan=True)
    else:
        if type(y) is not struc.AtomArrayStack or y.coord.shape != coords.shape:
            ctx.fail("rdkit_conformers", "%s: %d model(s) of %d atoms went in, %s with coord shape %s came back"
                     % (what, coords.shape[0], n, type(y).__name__, getattr(y.coord, "shape", None)))
        ok = np.array_equal(y.coord, coords, equal_nan=True)
    if not ok:
        d = np.argwhere(~(y.coord == coords))[0].tolist()
        ctx.fail("rdkit_conformers", "%s: coordinates differ at %r: %r -> %r"
                 % (what, d, float(coords[tuple(d)]), float(y.coord[tuple(d)])))
    ctx.oracle("rdkit_atoms")
    if [str(e) for e in y.element] != m.elem:
        ctx.fail("rdkit_atoms", "%s: elements differ: %r -> %r" % (what, m.elem[:20], [str(e) for e in y.element][:20]))
    if [int(c) for c in y.charge] != m.charges():
        ctx.fail("rdkit_atoms", "%s: charges differ: %r -> %r" % (what, m.charges()[:20], [int(c) for c in y.charge][:20]))
    ctx.oracle("rdkit_bonds")
    got = {(i, j): t for i, j, t in bond_set(y.bonds)}
    if set(got) != set(exp_bonds):
        ctx.fail("rdkit_bonds", "%s: bonded pairs differ" % what,
                 missing=sorted(set(exp_bonds) - set(got))[:10], unexpected=sorted(set(got) - set(exp_bonds))[:10])
    for k, t in exp_bonds.items():
        g = got[k]
        if t in AROMATIC_CLASS:
            if g not in AROMATIC_CLASS:
                ctx.fail("rdkit_bonds", "%s: aromatic bond %r (type %d) came back as type %d" % (what, k, t, g))
        elif g != t:
            ctx.fail("rdkit_bonds", "%s: bond %r of type %d came back as type %d" % (what, k, t, g))
    if chem:
        if any(t in (AROM, AROM_T) for t in got.values()):
            ctx.fail("rdkit_bonds", "%s: a ring given in Kekule form came back without bond orders" % what, got=sorted(
                [i, j, t] for (i, j), t in got.items() if t in AROMATIC_CLASS)[:12])
        if order_sums(n, got) != order_sums(n, exp_bonds):
            ctx.fail("rdkit_bonds", "%s: bond order sum of an atom changed (invalid Kekule structure)" % what,
                     before=order_sums(n, exp_bonds)[:30], after=order_sums(n, got)[:30])
    ctx.oracle("rdkit_std_annotations")
    for name, vals in std.items():
        if name not in y.get_annotation_categories():
            ctx.fail("rdkit_std_annotations", "%s: annotation %s missing" % (what, name))
        g = y.get_annotation(name).tolist()
        if g != vals:
            k = next(i for i in range(n) if g[i] != vals[i])
            ctx.fail("rdkit_std_annotations", "%s: %s[%d] = %r came back as %r" % (what, name, k, vals[k], g[k]))
    ctx.oracle("rdkit_extra_annotations")
    for name, (kind, vals) in extra.items():
        if name not in y.get_annotation_categories():
            ctx.fail("rdkit_extra_annotations", "%s: extra annotation %r is missing" % (what, name))
        arr = y.get_annotation(name)
        want_kind = {"bool": "b", "int": "iu", "float": "f", "str": "U"}[kind]
        g = arr.tolist()
        same = (len(g) == n and all((a == b) or (a != a and b != b) for a, b in zip(g, vals))
                and (kind != "float" or all(np.signbit(a) == np.signbit(b) for a, b in zip(g, vals) if a == 0)))
        if arr.dtype.kind not in want_kind or not same:
            ctx.fail("rdkit_extra_annotations", "%s: %s annotation %r = %r came back as %s %r"
                     % (what, kind, name, vals[:8], arr.dtype, g[:8]))


def rdkit_call(ctx, fn, what):
    with warnings.catch_warnings(record=True) as wl:
        warnings.simplefilter("always")
        res = fn()
    for w in wl:
        ctx.note("%s_warning:%s" % (what, type(w.message).__name__))
    return res, wl


def gen_models(rng, n, depth):
    scale = float(rng.choice([1.0, 30.0, 5000.0]))
    c = (rng.standard_normal((depth, n, 3)) * scale).astype(F32)
    if rng.random() < 0.2:
        c[0, 0, 0] = F32(rng.choice([1e-30, 1e30, -0.0, 99999.9921875, 3.4e38]))
    return c


def rdkit_roundtrip(ctx, rng, m, chem, n_rings=0):
    n = m.n
    depth = int(rng.choice([1, 1, 2, 3, 4]))
    as_stack = depth > 1 or rng.random() < 0.3
    coords = gen_models(rng, n, depth)
    std = gen_std_annotations(rng, n)
    extra = gen_extra(rng, n, ctx)
    has_h = "H" in m.elem
    has_coord_bond = COORD in m.bonds.values()
    kekulize = rng.random() < 0.25
    dative = rng.random() < 0.5
    if dative and has_coord_bond and not ctx.allowed("use_dative_bonds_true"):
        dative = False
    to_kw = {}
    if kekulize:
        to_kw["kekulize"] = True
    if dative or rng.random() < 0.2:
        to_kw["use_dative_bonds"] = dative
    if extra:
        to_kw["include_extra_annotations"] = list(extra) if rng.random() < 0.5 else tuple(extra)
    r = rng.random()
    if r < 0.15:
        to_kw["explicit_hydrogen"] = has_h
    from_kw = {}
    if chem:
        r = rng.random()
        if r < 0.2:
            from_kw["add_hydrogen"] = False
        elif r < 0.3:
            from_kw["add_hydrogen"] = True
    else:
        from_kw["add_hydrogen"] = False
    conf = None
    r = rng.random()
    if r < 0.25:
        conf = int(rng.integers(depth))
        if conf > 0 and not ctx.allowed("conformer_id_nonzero"):
            conf = 0
    elif r < 0.35:
        conf = "3D"
    if conf is not None:
        from_kw["conformer_id"] = conf
    atoms = build_rdkit_input(rng, m, coords, std, extra, as_stack)
    ctx.log({"mol": m.describe(40), "models": depth, "as_stack": as_stack, "to_mol": to_kw, "from_mol": from_kw,
             "coord": coords.tolist() if coords.size <= 90 else "standard_normal*scale (see generator)",
             "std_annotations": {k: v[:12] for k, v in std.items()},
             "extra_annotations": {k: [kind, v[:12]] for k, (kind, v) in extra.items()}})
    ctx.op("to_mol_%s" % ("stack" if as_stack else "array"))
    ctx.op("from_mol_conformer_%s" % ("int" if isinstance(conf, int) else conf))
    what = "from_mol(to_mol(x%s)%s)" % ("".join(", %s=%r" % kv for kv in to_kw.items() if kv[0] != "include_extra_annotations"),
                                        "".join(", %s=%r" % kv for kv in from_kw.items()))
    rdmol, _ = rdkit_call(ctx, lambda: rd.to_mol(atoms, **to_kw), "to_mol")
    ctx.oracle("rdkit_conformers")
    if rdmol.GetNumConformers() != depth or rdmol.GetNumAtoms() != n:
        ctx.fail("rdkit_conformers", "%s: %d models of %d atoms became %d conformers of %d atoms"
                 % (what, depth, n, rdmol.GetNumConformers(), rdmol.GetNumAtoms()))
    if ctx.allowed("conformer_id_nonzero"):
        ids = [c.GetId() for c in rdmol.GetConformers()]
        if ids != list(range(depth)):
            ctx.fail("rdkit_conformers", "%s: conformer ids are %r; documented: ids starting from 0, one per model"
                     % (what, ids))
    bonds_before = [(b.GetBeginAtomIdx(), b.GetEndAtomIdx(), str(b.GetBondType()), b.GetIsAromatic()) for b in rdmol.GetBonds()]
    try:
        y, wl = rdkit_call(ctx, lambda: rd.from_mol(rdmol, **from_kw), "from_mol")
    except ValueError as e:
        if isinstance(conf, int) and "Conformer" in str(e):
            ctx.exc(e)
            ctx.fail("rdkit_conformers", "%s: model %d of %d is not reachable as conformer %d: %s"
                     % (what, conf, depth, conf, e))
        raise
    lossy = [w for w in wl if issubclass(w.category, LossyConversionWarning)]
    if chem and lossy:
        ctx.fail("rdkit_bonds", "%s: lossy conversion reported for a valence-complete molecule: %s"
                 % (what, lossy[0].message))
    exp_bonds = rdkit_expected_bonds(m, kekulize, dative)
    as_array = isinstance(conf, int)
    want = coords[conf] if as_array else coords
    compare_rdkit(ctx, m, want, y, as_array, exp_bonds, std, extra, chem and not kekulize, what)
    # reading must not change the caller's Mol: a second read of the same Mol gives the same structure
    ctx.oracle("rdkit_mol_untouched")
    bonds_after = [(b.GetBeginAtomIdx(), b.GetEndAtomIdx(), str(b.GetBondType()), b.GetIsAromatic()) for b in rdmol.GetBonds()]
    if bonds_after != bonds_before:
        k = next(i for i in range(len(bonds_before)) if bonds_before[i] != bonds_after[i])
        ctx.fail("rdkit_mol_untouched", "%s changed the caller's Mol: bond %r became %r" % (what, bonds_before[k], bonds_after[k]))
    y2, _ = rdkit_call(ctx, lambda: rd.from_mol(rdmol, **from_kw), "from_mol")
    if not (y2 == y) or y2.bonds.as_set() != y.bonds.as_set():
        ctx.fail("rdkit_mol_untouched", "%s: reading the same Mol twice gives different structures" % what)
    if depth >= 3 and ctx.allowed("conformer_id_nonzero") and rng.random() < 0.5:
        # conformer_id is RDKit's conformer *id*: after a conformer was removed the remaining ones keep their ids
        gone = int(rng.integers(depth - 1))
        rdmol.RemoveConformer(gone)
        ctx.op("from_mol_after_RemoveConformer")
        kw2 = {k: v for k, v in from_kw.items() if k != "conformer_id"}
        for cid in [c for c in range(depth) if c != gone]:
            try:
                yk, _ = rdkit_call(ctx, lambda: rd.from_mol(rdmol, conformer_id=cid, **kw2), "from_mol")
            except (ValueError, IndexError) as e:
                ctx.fail("rdkit_conformers", "%s: after RemoveConformer(%d) conformer id %d cannot be read: %s: %s" % (what, gone, cid, type(e).__name__, e))
            got = np.asarray(yk.coord, dtype=np.float64)[:n]
            if got.shape != (n, 3) or not np.allclose(got, np.asarray(coords[cid], dtype=np.float64)[:n], atol=1e-3):
                ctx.fail("rdkit_conformers", "%s: after RemoveConformer(%d), from_mol(conformer_id=%d) does not return the coordinates of model %d"
                         % (what, gone, cid, cid))
    ctx.state(("rdkit", chem, depth, as_stack, kekulize, dative, str(conf), tuple(sorted(set(m.bonds.values()))),
               tuple(sorted(k for k, _ in extra.values())), bool(std), m.charge is None))
    ctx.mark_nontrivial(bool(m.bonds) and (depth >= 2 or n_rings > 0 or bool(extra) or (dative and has_coord_bond)
                                           or any(t in AROMATIC_CLASS for t in m.bonds.values())))


def case_rdkit_chem(rng, ctx):
    h_free = rng.random() < 0.1
    big = ctx.tier != "quick" and rng.random() < 0.03
    nheavy = int(rng.integers(100, 500)) if big else int(rng.choice([0, 1, 2, 3, 5, 8, 12, 20]))
    m, n_rings = gen_chem(rng, nheavy, h_free)
    ctx.op("chem_h_free" if h_free else "chem_explicit_h")
    rdkit_roundtrip(ctx, rng, m, chem=True, n_rings=n_rings)


def case_rdkit_graph(rng, ctx):
    r = rng.random()
    if r < 0.02:
        n = int(rng.integers(990, 1501))
    else:
        n = int(rng.choice([1, 2, 3, 4, 6, 8, 12, 20, 40]))
    maxm = n * (n - 1) // 2
    mb = min(maxm, int(rng.integers(0, 2 * n + 1)))
    m = gen_mol(rng, n, mb, real=True)
    if rng.random() < 0.06 and "H" in m.elem:
        # documented refusal: hydrogens present but explicit_hydrogen=False
        ctx.log({"explicit_hydrogen_false_with_H": m.describe(20)})
        ctx.op("explicit_hydrogen_false_with_H")
        ctx.oracle("rdkit_explicit_h_rejected")
        atoms = build_rdkit_input(rng, m, gen_models(rng, n, 1), {}, {}, False)
        try:
            rd.to_mol(atoms, explicit_hydrogen=False)
        except BadStructureError as e:
            ctx.exc(e)
        else:
            ctx.fail("rdkit_explicit_h_rejected", "to_mol(explicit_hydrogen=False) accepted explicit hydrogens")
        return
    rdkit_roundtrip(ctx, rng, m, chem=False)


CASES = {
    "mol_small": case_mol_small, "mol_limits": case_mol_limits, "coord_edges": case_coord_edges,
    "sdf": case_sdf, "rdkit_chem": case_rdkit_chem, "rdkit_graph": case_rdkit_graph,
}


def run_case(stratum, rng, ctx):
    CASES[stratum](rng, ctx)


# =================================================================== selftest (oracle audit)
_SPEC_ALANINE = """\
 13 12  0     0  0  0  0  0  0  1 V2000
   -0.9660    0.4930    1.5000 N   0  0  0  0  0  0  0  0  0  0  0  0
    0.2570    0.4180    0.6920 C   0  0  0  0  0  0  0  0  0  0  0  0
   -0.0940    0.0170   -0.7160 C   0  0  0  0  0  0  0  0  0  0  0  0
   -1.0560   -0.6820   -0.9230 O   0  0  0  0  0  0  0  0  0  0  0  0
    1.2040   -0.6200    1.2960 C   0  0  0  0  0  0  0  0  0  0  0  0
    0.6610    0.4390   -1.7420 O   0  5  0  0  0  0  0  0  0  0  0  0
   -1.3830   -0.4250    1.4820 H   0  0  0  0  0  0  0  0  0  0  0  0
   -0.6760    0.6610    2.4520 H   0  0  0  0  0  0  0  0  0  0  0  0
    0.7460    1.3920    0.6820 H   0  0  0  0  0  0  0  0  0  0  0  0
    1.4590   -0.3300    2.3160 H   0  0  0  0  0  0  0  0  0  0  0  0
    0.7150   -1.5940    1.3070 H   0  0  0  0  0  0  0  0  0  0  0  0
    2.1130   -0.6760    0.6970 H   0  0  0  0  0  0  0  0  0  0  0  0
99999.9922-9999.9990   -2.6470 Cl  0  0  0  0  0  0  0  0  0  0  0  0
  1  2  1  0  0  0  0
  1  7  1  0  0  0  0
  1  8  1  0  0  0  0
  2  3  1  0  0  0  0
  2  5  1  0  0  0  0
  2  9  1  0  0  0  0
  3  4  2  0  0  0  0
  3  6  1  0  0  0  0
  5 10  1  0  0  0  0
  5 11  1  0  0  0  0
  5 12  1  0  0  0  0
  6 13  8
M  CHG  2   6  -1  13 -15
M  END""".split("\n")

_SPEC_V3000 = """\
  0  0  0     0  0            999 V3000
M  V30 BEGIN CTAB
M  V30 COUNTS 3 2 0 0 0
M  V30 BEGIN ATOM
M  V30 1 C 1.5 -2.25 0 0
M  V30 7 "Cl" 0.0001 0 0 0 CHG=-3 MASS=35
M  V30 3 O 99999.9922 -9999.999 0 0 CHG=1
M  V30 END ATOM
M  V30 BEGIN BOND
M  V30 1 1 1 7
M  V30 2 8 7 3
M  V30 END BOND
M  V30 END CTAB
M  END""".split("\n")


def selftest(ctx):
    from vf.models import c18_ctfile as c
    # 1. literal, specification-conform V2000 text parses to the literal values
    p = c.parse_v2000(_SPEC_ALANINE)
    assert p["n_atoms"] == 13 and p["n_bonds"] == 12
    assert p["symbols"][:4] == ["N", "C", "C", "O"] and p["symbols"][12] == "Cl"
    assert p["coord_text"][0] == ("-0.9660", "0.4930", "1.5000")
    assert p["coord_text"][12] == ("99999.9922", "-9999.9990", "-2.6470")
    assert p["charges"] == [0, 0, 0, 0, 0, -1, 0, 0, 0, 0, 0, 0, -15] and p["atom_block_codes"][5] == 5
    assert p["bonds"][6] == (3, 4, 2) and p["bonds"][11] == (6, 13, 8)
    # without M  CHG the atom block codes decide
    q = c.parse_v2000([l for l in _SPEC_ALANINE if not l.startswith("M  CHG")])
    assert q["charges"][5] == -1 and q["charges"][12] == 0
    # 2. every single-column shift / overflow of a field is detected
    def bad(lines):
        try:
            c.parse_v2000(lines)
        except c.ColumnError:
            return True
        return False
    L = _SPEC_ALANINE
    mutants = [
        ["  13 12" + L[0][6:]] + L[1:],                                   # counts shifted right
        ["1000 12" + L[0][6:]] + L[1:],                                   # four-digit count
        [L[0][:33] + " V3000"] + L[1:],
        [L[0]] + [" " + L[1]] + L[2:],                                    # atom line shifted
        [L[0]] + ["  100000.0000" + L[1][10:]] + L[2:],                   # 11/12-character coordinate
        [L[0]] + [L[1][:10] + "-10000.0000" + L[1][20:]] + L[2:],
        [L[0]] + [L[1][:30] + "N    0  0" + L[1][39:]] + L[2:],           # symbol not in column 32
        [L[0]] + [L[1][:36] + "  8" + L[1][39:]] + L[2:],                 # charge code 8
        L[:14] + ["   1  2  1  0  0  0  0"] + L[15:],                     # bond line shifted
        L[:14] + ["  1 14  1  0  0  0  0"] + L[15:],                      # atom number beyond count
        L[:14] + ["  1  2  9  0  0  0  0"] + L[15:],                      # bond type 9
        L[:26] + ["M  CHG  2   6 -100  13 -15"] + L[27:],                 # four-character charge
        L[:26] + ["M  CHG  2   6  -1 1000   1"] + L[27:],                 # four-digit atom number
        L[:26] + ["M  CHG  3   6  -1  13 -15"] + L[27:],                  # wrong entry count
        L[:26] + ["M  CHG  2   6  -1  13 -15 "] + L[27:],
        L[:27],                                                           # M  END missing
        L + ["garbage"],
        L[:5] + L[6:],                                                    # one atom line missing
        [L[0]] + [L[1][:5] + "e" + L[1][6:]] + L[2:],
        [L[0]] + [L[1] + "  0  0"] + L[2:],                               # 75 columns
    ]
    for k, mlines in enumerate(mutants):
        assert bad(mlines), "column checker accepted mutant %d" % k
    assert not bad(L)
    # 3. V3000: non-sequential indices, quotes, extra properties
    v = c.parse_v3000(_SPEC_V3000)
    assert v["symbols"] == ["C", "Cl", "O"] and v["charges"] == [0, -3, 1]
    assert v["bonds"] == [(1, 2, 1), (2, 3, 8)] and v["coord_text"][2][0] == "99999.9922"
    for mlines in (
        _SPEC_V3000[:5] + ["M  V30 1 C 1.5 0 0 0"] + _SPEC_V3000[6:],          # repeated index
        _SPEC_V3000[:9] + ["M  V30 1 1 1 9"] + _SPEC_V3000[10:],               # unknown atom
        _SPEC_V3000[:2] + ["M  V30 COUNTS 4 2 0 0 0"] + _SPEC_V3000[3:],       # count mismatch
        _SPEC_V3000[:4] + ["M V30 1 C 1.5 -2.25 0 0"] + _SPEC_V3000[5:],       # prefix broken
        _SPEC_V3000[:4] + ["M  V30 1 C 1.5e0 -2.25 0 0"] + _SPEC_V3000[5:],
    ):
        try:
            c.parse_v3000(mlines)
        except c.ColumnError:
            pass
        else:
            raise AssertionError("V3000 checker accepted a broken table")
    # 3b. header text slicer: literal line, then the same line shifted by one column / with swapped date
    hexp = dict(DEFAULT_HEADER, mol_name="n", initials="AB", program="12345678",
                time=datetime.datetime(2020, 3, 4, 5, 6), dimensions="3D", scaling_factors="123456789012",
                energy="abcdefghijkl", registry_number="123456", comments="hello")
    good = ["n", "AB1234567803042005063D123456789012abcdefghijkl123456", "hello"]
    counted = dict(ctx.oracles)
    check_header_text(ctx, good, hexp, "selftest")
    for broken in (["n", " " + good[1], "hello"], ["n", good[1][:10] + "0403200506" + good[1][20:], "hello"],
                   ["n", good[1] + "x", "hello"], ["n", good[1], "hello", ""], ["m", good[1], "hello"]):
        try:
            check_header_text(ctx, broken, hexp, "selftest")
        except Exception as e:
            assert type(e).__name__ == "Violation"
        else:
            raise AssertionError("header slicer accepted %r" % (broken,))
    ctx.oracles.clear()
    ctx.oracles.update(counted)            # the audit itself is not an observation of biotite
    # 4. expectation helpers
    m = Mol(["C", "CL"], [[0, 0, 0], [1, 1, 1]], [0, -1], {(0, 1): QUADRUPLE})
    assert ctab_expected_bonds(m, ANY) == {(0, 1, ANY)} and ctab_expected_bonds(m, SINGLE) == {(0, 1, SINGLE)}
    assert expected_write_outcome(m, None) == "V2000" and expected_write_outcome(m, "V3000") == "V3000"
    m.coord[0, 0] = F32(100000.0)
    assert expected_write_outcome(m, None) == "raise_or_v3000" and expected_write_outcome(m, "V2000") == "raise"
    m.coord[0, 0] = F32(MAX_POS); m.coord[0, 1] = F32(MAX_NEG)
    assert expected_write_outcome(m, "V2000") == "V2000"
    assert "%.4f" % MAX_POS == "99999.9922" and "%.4f" % MAX_NEG == "-9999.9990"
    assert not fits_f10_4(np.nextafter(F32(MAX_POS), F32(np.inf))) and not fits_f10_4(np.nextafter(F32(MAX_NEG), F32(-np.inf)))
    big = Mol(["C"] * 1000, np.zeros((1000, 3)), None, {})
    assert expected_write_outcome(big, None) == "V3000" and expected_write_outcome(big, "V2000") == "raise"
    big = Mol(["C"] * 999, np.zeros((999, 3)), None, {})
    assert expected_write_outcome(big, None) == "V2000"
    dense = Mol(["C"] * 50, np.zeros((50, 3)), None, {p: 1 for p in gen_pairs(np.random.default_rng(0), 50, 1000)})
    assert len(dense.bonds) == 1000 and expected_write_outcome(dense, None) == "V3000"
    # 5. generators stay inside the grammar they claim
    rng = np.random.default_rng(5)
    for _ in range(300):
        v = gen_value(rng)
        for line in v.split("\n"):
            assert line and line == line.strip() and not line.startswith(">") and not line.startswith("$$$$")
            assert line.splitlines() == [line]
        spec, exp = gen_key(rng)
        assert exp[0] is not None or exp[1] is not None
        n = int(rng.integers(1, 30))
        mb = int(rng.integers(0, n * (n - 1) // 2 + 1))
        pairs = gen_pairs(rng, n, mb)
        assert len(pairs) == mb and all(0 <= i < j < n for i, j in pairs)
        c_ = gen_coord(rng, n, edges=True)
        assert c_.dtype == F32 and all(fits_f10_4(x) for x in c_.ravel())
    # 6. valence-complete builder: every atom saturated; both Kekule phases give equal order sums
    for s in range(40):
        mm, _ = gen_chem(np.random.default_rng(s), int(s % 9), h_free=(s % 7 == 0))
        sums = order_sums(mm.n, mm.bonds)
        for e, ch, v in zip(mm.elem, mm.charges(), sums):
            want = {"H": 1}.get(e, VALENCE.get(e, 0)) + (1 if (e, ch) == ("N", 1) else 0) - (1 if (e, ch) == ("O", -1) else 0)
            assert v == want, (e, ch, v)
    b1, b2 = ChemBuilder(), ChemBuilder()
    b1.ring("benzene", 0); b2.ring("benzene", 1)
    assert b1.bonds != b2.bonds and order_sums(6, b1.bonds) == order_sums(6, b2.bonds) == [3] * 6
    assert rdkit_expected_bonds(Mol(["C"] * 3, np.zeros((3, 3)), None, {(0, 1): COORD, (1, 2): AROM}), True, False) \
        == {(0, 1): SINGLE, (1, 2): ANY}


# =================================================================== probes (one mechanism each)
def _tiny(elems, bonds, charge=None, coord=None):
    m = Mol(elems, np.zeros((len(elems), 3)) if coord is None else coord, charge, bonds)
    return m


def _probe_dative(ctx):
    """to_mol(use_dative_bonds=True) must turn COORDINATION into a dative bond that from_mol maps back."""
    rng = np.random.default_rng(1)
    for elems, bonds in ((["FE", "N"], {(0, 1): COORD}), (["ZN", "O", "O", "N"], {(0, 1): COORD, (0, 2): SINGLE, (0, 3): COORD})):
        m = _tiny(elems, bonds)
        atoms = build_rdkit_input(rng, m, gen_models(rng, m.n, 1), {}, {}, False)
        ctx.log({"mol": m.describe(), "to_mol": {"use_dative_bonds": True}, "from_mol": {"add_hydrogen": False}})
        ctx.op("probe_dative")
        rdmol = rd.to_mol(atoms, use_dative_bonds=True)
        y = rd.from_mol(rdmol, add_hydrogen=False)
        compare_rdkit(ctx, m, atoms.coord[None], y, False, rdkit_expected_bonds(m, False, True), {}, {}, False,
                      "from_mol(to_mol(x, use_dative_bonds=True))")


def _probe_conformer_ids(ctx):
    """Every model of a stack must be addressable as the conformer with its index."""
    rng = np.random.default_rng(2)
    m = _tiny(["C", "O", "H", "H"], {(0, 1): DOUBLE, (0, 2): SINGLE, (0, 3): SINGLE})
    coords = gen_models(rng, m.n, 3)
    atoms = build_rdkit_input(rng, m, coords, {}, {}, True)
    ctx.log({"mol": m.describe(), "models": 3, "from_mol": {"conformer_id": [0, 1, 2]}})
    ctx.op("probe_conformer_ids")
    rdmol = rd.to_mol(atoms)
    ctx.oracle("rdkit_conformers")
    ids = [c.GetId() for c in rdmol.GetConformers()]
    if ids != [0, 1, 2]:
        ctx.fail("rdkit_conformers", "to_mol(stack of 3 models): conformer ids are %r; documented: ids starting from 0" % ids)
    for k in range(3):
        try:
            y = rd.from_mol(rdmol, conformer_id=k)
        except ValueError as e:
            ctx.fail("rdkit_conformers", "model %d is not reachable as conformer %d: %s" % (k, k, e))
        compare_rdkit(ctx, m, coords[k], y, True, rdkit_expected_bonds(m, False, False), {}, {}, True, "conformer %d" % k)


def _probe_numeric_strings(ctx):
    """A str annotation whose values look like numbers must come back as the same strings."""
    rng = np.random.default_rng(3)
    m = _tiny(["C", "H", "H", "H", "H"], {(0, k): SINGLE for k in range(1, 5)})
    for vals in (["12", "3", "4", "5", "6"], ["007", "1.0", "3.50", "1e5", "+7"], ["x", "1.50", "y", "z", "w"]):
        extra = {"tag": ("str", vals)}
        atoms = build_rdkit_input(rng, m, gen_models(rng, m.n, 1), {}, extra, False)
        ctx.log({"mol": m.describe(), "extra_annotations": {"tag": vals}})
        ctx.op("probe_numeric_strings")
        y = rd.from_mol(rd.to_mol(atoms, include_extra_annotations=["tag"]))
        compare_rdkit(ctx, m, atoms.coord[None], y, False, rdkit_expected_bonds(m, False, False), {}, extra, True,
                      "from_mol(to_mol(x, include_extra_annotations=['tag']))")


def _probe_m_end_header(ctx):
    """A MOL file whose name or comment line starts with 'M  END' must still be readable."""
    rng = np.random.default_rng(4)
    m = _tiny(["C", "O"], {(0, 1): DOUBLE}, [0, 0])
    for hkw in ({"mol_name": "M  END of the road"}, {"mol_name": "x", "comments": "M  END"}):
        f = mol.MOLFile()
        f.header = mol.Header(**hkw)
        f.set_structure(build_atoms(rng, m))
        buf = io.StringIO()
        f.write(buf)
        ctx.log({"container": "molfile", "header": hkw, "mol": m.describe()})
        ctx.op("probe_m_end_header")
        g = mol.MOLFile.read(io.StringIO(buf.getvalue()))
        ctx.oracle("atom_order_element")
        try:
            back = g.get_structure()
        except InvalidFileError as e:
            ctx.fail("atom_order_element", "header %r: the file biotite wrote cannot be read back: %s" % (hkw, e))
        compare_structure(ctx, m, back, ANY, "MOLFile with header %r" % hkw)
        exp = dict(DEFAULT_HEADER)
        exp.update(hkw)
        compare_header(ctx, g.header, exp, "MOLFile with header %r" % hkw)


def _probe_wide_charge(ctx):
    """Charges that need more than the 3 columns of an 'M  CHG' entry: V3000 or an error, never shifted columns."""
    rng = np.random.default_rng(5)
    for c in (-100, 1000):
        for version in (None, "V2000"):
            m = _tiny(["C", "N"], {(0, 1): SINGLE}, [c, 1])
            ctx.op("probe_wide_charge")
            roundtrip_mol(ctx, rng, m, version, None, "molfile", with_header=False)


def _probe_coord_rounding(ctx):
    """S13: number_of_integer_digits truncates.  AtomArray coordinates are float32 and no float32 lies in the
    gap (99999.99995 <= x < 100000, -10000 < x <= -9999.99995), so through the public coord setter the width
    check is exact for MOL files (first loop).  The second loop shows the mechanism inside
    write_structure_to_ctab by giving the array float64 coordinates (private attribute)."""
    rng = np.random.default_rng(6)
    for v in (MAX_POS, MAX_NEG, float(np.nextafter(F32(MAX_POS), F32(np.inf))), float(np.nextafter(F32(MAX_NEG), F32(-np.inf))),
              99999.99996, -9999.99996, 9999.99996):
        m = _tiny(["C", "N"], {(0, 1): SINGLE}, None, [[v, 0, 0], [0, v, 1]])
        ctx.op("probe_coord_float32")
        roundtrip_mol(ctx, rng, m, None, None, "molfile", edges=True, with_header=False)
    from biotite.structure.io.mol.ctab import write_structure_to_ctab
    for v in (99999.99996, -9999.99996):
        m = _tiny(["C", "N"], {(0, 1): SINGLE}, None)
        atoms = build_atoms(rng, m)
        c64 = np.array([[v, 0.0, 0.0], [0.0, v, 1.0]], dtype=np.float64)
        object.__setattr__(atoms, "_coord", c64)
        ctx.log({"float64_coord_injected": c64.tolist(), "version": None})
        ctx.op("probe_coord_float64")
        ctx.oracle("beyond_limit_raises")
        try:
            lines = write_structure_to_ctab(atoms)
        except (BadStructureError, ValueError) as e:
            ctx.exc(e)
            continue
        ctx.oracle("v2000_columns")
        try:
            ctf.parse_ctab(lines)
        except ctf.ColumnError as e:
            ctx.fail("v2000_columns", "coordinate %r passes the width check and is written as %r: %s"
                     % (v, lines[1][:32], e))


PROBES = {
    "use_dative_bonds_true": _probe_dative,
    "conformer_id_nonzero": _probe_conformer_ids,
    "mol_header_line_m_end": _probe_m_end_header,
    "charge_wider_than_3_columns": _probe_wide_charge,
    "coord_rounds_into_extra_column": _probe_coord_rounding,
}
