"""C09  Heuristic alignments are valid, honestly scored and never above optimal.

Monitor: every generated call of ``align_banded`` / ``align_local_gapped`` /
``align_local_ungapped`` is judged against the statement with the reference of
vf/models/align_ref.py (trace validity, independent re-scoring incl. semi-global
completion, C08 optimum / seed-anchored optimum as upper bound, equality when the
heuristic restriction cannot bind, band / seed / direction containment,
score_only consistency, MemoryError for table limits); ASan/UBSan and the
process-exit monitor watch banded.c, localgapped.c, localungapped.c, tracetable.c.
"""

import numpy as np

from vf.models import align_ref as R
from vf.props import C08 as G     # input generators (alphabets, matrices, codes, penalties) are shared with C08

ID = "C09"
FLAVOUR = "san"
LEVEL = "exploration"
THOROUGH_MULT = 2.5       # deepens the sampled strata of the thorough tier (measured: about ten minutes on 16 cores)
RULE = (
    "seeded generator, inputs as C08 (alphabets 1-6 and 300/70 000 symbols, separate alphabets per sequence, int matrices "
    "uniform/negative/zero/symmetric/identity/tie-forcing/|1000|, linear and affine penalties).  banded: lengths 0-30, two "
    "diagonals in [-len1-3, len2+3] in any order (narrow, partly outside, covering, no overlap), local x semi-global, "
    "max_number {1,2,5,1000}; banded_allbands: every ordered pair of diagonals in [-len1-2, len2+2] for one pair of "
    "length 1-5.  gapped/ungapped: lengths 1-30, random seed, threshold in {0,1,small,non-binding,2^30}, direction x "
    "max_number x score_only; *_allseeds: every seed x direction x 4 thresholds for one pair of length 1-5.  table_limit: "
    "homologous pairs of length 110-260 with max_table_size in {1..10^6}.  A case is non-trivial when at least one call "
    "returned an alignment with a column; distinct = distinct digest of the logged inputs."
)
STRATA = {
    "banded": (4500, 220000),
    "banded_allbands": (40, 1600),
    "gapped": (3200, 160000),
    "gapped_allseeds": (30, 1200),
    "ungapped": (2500, 120000),
    "ungapped_allseeds": (40, 1600),
    "table_limit": (40, 800),
    "declines": (300, 5000),
}
# functions that must leave their arguments untouched (vf.core.PurityMonitor; '!' = the object itself is watched too)
PURE = [
    "biotite.sequence.align.banded:align_banded",
    "biotite.sequence.align.localgapped:align_local_gapped",
    "biotite.sequence.align.localungapped:align_local_ungapped",
    "biotite.sequence.align.pairwise:align_optimal",
]
REQUIRED_ORACLES = [
    "trace_valid", "score_honest", "not_above_optimum", "optimum_when_unrestricted", "band_respected",
    "band_error_iff_no_overlap", "seed_contained", "direction_respected", "score_only_consistent",
    "max_number_respected", "table_limit_consistent", "memory_error_when_growth_exceeds_limit",
    "invalid_argument_rejected", "match_run_reached",
]
ANCHORS = [
    "biotite.sequence.align.matrix:SubstitutionMatrix.transpose",
    "biotite.sequence.align.alignment:Alignment.__init__",
]
ASSUMPTIONS = [
    "scoring model and optimum as in C08 (vf/models/align_ref.py); for a seeded call the reference optimum is the maximum over "
    "local alignments that contain the seed column and extend only in the requested direction (it is never larger than the "
    "unrestricted local optimum, so it is the tighter of the two upper bounds named in DESIGN C09)",
    "semi-global banded results are completed by the unaligned sequence ends (both orders where both sequences have an unaligned "
    "end on the same side) and re-scored with free terminal gaps; the best completion is compared with the reported score",
    "no banded DP model is imposed: inside a partial band only validity, honesty, band containment and the upper bound are judged",
    "equality with the optimum is only demanded when the band contains every diagonal of the table / the threshold is at least "
    "2*(len1+len2)*max|score|+1, and an optimal alignment pairs at least one position",
    "a threshold cannot bind = no partial score can fall that far; thresholds are <= 2^30 so threshold+1+score fits int32",
    "align_local_gapped documents gap penalties as strictly negative (ValueError for 0): counted as a decline",
    "max_table_size: only the necessary consequence of the documentation is judged (a returned alignment whose aligned region "
    "forces a table growth beyond the limit must have raised MemoryError; a MemoryError needs a region longer than the initial 100x100 table)",
    "the Cython entry points cannot be counted with sys.monitoring; they are counted at the call site (operation histogram)",
    "match_run_reached reads 'the threshold cannot bind' locally: along a run of matches that all score the matrix maximum the "
    "running score never lies below any other cell's score, so no X-drop rule with threshold >= 0 may stop inside the run "
    "(the statement names the global case; the local case is the same argument applied to the run through the seed)",
]
MIN_CASES_PER_WORKER = 10
MANIFEST = {
    "technique": "differential/relational oracle on every call: trace validity checker, independent re-scorer with semi-global "
                 "completion, C08 reference DP and seed-anchored DP as upper bound and (when the restriction cannot bind) exact value, "
                 "band/seed/direction containment, score_only and max_table_size relations; ASan/UBSan build of banded.c, localgapped.c, "
                 "localungapped.c, tracetable.c; process-exit monitor",
    "level_text": "Runtime monitoring: tens of thousands of generated calls of align_banded, align_local_gapped and align_local_ungapped "
                  "(all bands and all seeds for small pairs, random ones for pairs up to length 30, table limits on pairs up to 260) run on the "
                  "real code (ASan+UBSan build of the generated C).  Every returned alignment is checked for validity, re-scored independently "
                  "(semi-global results after completion by the unaligned ends), bounded by the independently computed optimum, required to "
                  "equal it when band/threshold cannot bind, and checked for band, seed and direction containment; score_only and "
                  "max_table_size behaviour are compared with the full call.  The reference DP is audited against exhaustive enumeration at "
                  "the start of every run.  Held-on-what-was-observed, not a proof.",
    "level_note": "Trusts the reference DPs (audited per run on exhaustive tiny cases), numpy, and that the generated C in the tree corresponds "
                  "to the .pyx (no Cython here).  Inside a binding band/threshold the heuristic's own optimum is not modelled.  Lengths <= 260, "
                  "|scores| <= 1000, thresholds <= 2^30.",
    "design_ref": "DESIGN.md section 6, C09",
}

seq = None
align = None


def setup(ctx):
    global seq, align
    G.setup(ctx)
    seq, align = G.seq, G.align


# ------------------------------------------------------------------ inputs
def gen_profile_pair(rng, profile, lo_len, hi_len):
    """Two input classes the uniform generator reaches too rarely:
    nuc_like - 4 letters, a match/mismatch matrix such as 5/-4, related sequences of length 12-60 and an affine penalty whose
               opening is much more expensive than its extension (gap states stay positive over several cells);
    tie_rich - 1-3 letters, 0/1 or match-only scores, cheap gaps: many cells share the maximum score and one call returns
               several alignments of different length."""
    if profile == "nuc_like":
        k = 4
        hit, miss = [(5, -4), (2, -3), (1, -1), (4, -5), (3, -2)][int(rng.integers(5))]
        matrix = np.full((k, k), miss, dtype=np.int64)
        np.fill_diagonal(matrix, hit)
        if rng.random() < 0.3:
            matrix[int(rng.integers(k)), int(rng.integers(k))] = int(rng.integers(-3, 3))       # one transition-like entry
        gp = [(-10, -1), (-8, -2), (-5, -1), (-12, -1), (-6, -3), (-3, -1)][int(rng.integers(6))]
        if rng.random() < 0.25:
            gp = int(rng.choice([-2, -4, -7]))
        n = int(rng.integers(max(lo_len, 12), max(hi_len, 60) + 1))
    else:
        k = int(rng.choice([1, 2, 2, 3]))
        mk = str(rng.choice(["ties01", "identity1", "ones"]))
        if mk == "ties01":
            matrix = rng.integers(0, 2, size=(k, k)).astype(np.int64)
        elif mk == "ones":
            matrix = np.ones((k, k), dtype=np.int64)
        else:
            matrix = np.full((k, k), -int(rng.integers(0, 3)), dtype=np.int64)
            np.fill_diagonal(matrix, int(rng.integers(1, 4)))
        gp = [-1, -2, (-1, -1), (-2, -1), (-3, -1), -5][int(rng.integers(6))]
        n = int(rng.integers(max(lo_len, 4), max(hi_len, 30) + 1))
    c1 = G.gen_codes(rng, n, k)
    c2 = list(c1)
    for _ in range(int(rng.integers(0, 3 + n // 6))):
        r = rng.random()
        pos = int(rng.integers(len(c2) + 1))
        if r < 0.45 and c2:
            c2[min(pos, len(c2) - 1)] = int(rng.integers(k))
        elif r < 0.7:
            ins = [int(rng.integers(k))] * int(rng.integers(1, 5))
            c2[pos:pos] = ins
        elif len(c2) > max(lo_len, 3):
            del c2[min(pos, len(c2) - 1):min(pos, len(c2) - 1) + int(rng.integers(1, 4))]
    if rng.random() < 0.2:
        c2 = G.gen_codes(rng, int(rng.integers(max(lo_len, 3), n + 1)), k)
    if rng.random() < 0.5:
        c1, c2 = c2, c1
    kind = "letter" if rng.random() < 0.5 else "int"
    a1 = G.alphabet(k, kind, 0)
    same = rng.random() < 0.5
    a2 = a1 if same else G.alphabet(k, kind, 1)
    return dict(k=(k, k), K=(k, k), akind=(kind, kind), same_alph=same, a=(a1, a2), A=(a1, a2), matrix=matrix,
                mkind=profile, mdtype=str(rng.choice(["int64", "int32", "int16"])), c1=[int(x) for x in c1], c2=[int(x) for x in c2], gp=gp)


def gen_pair(rng, ctx, lo_len=0, hi_len=30, small=False, wide_ok=True, need_negative_gap=False, profiles=False):
    """Sequences, matrix and penalty (same classes as C08)."""
    if profiles and not small and rng.random() < 0.35:
        profile = "nuc_like" if rng.random() < 0.5 else "tie_rich"
        ctx.op("input_profile_" + profile)
        return gen_profile_pair(rng, profile, lo_len, hi_len)
    wide = wide_ok and not small and rng.random() < 0.08
    if wide:
        k1, k2 = [(300, 300), (300, 4), (70000, 3), (5, 70000)][int(rng.integers(4))]
        K1, K2 = k1, k2
        kind1 = kind2 = "int"
        mkind = str(rng.choice(["uniform", "negative", "zero", "identity", "ties01", "ties101", "big", "positive"]))
    else:
        k1 = int(rng.integers(1, 7))
        k2 = int(rng.integers(1, 7)) if rng.random() < 0.6 else k1
        K1 = k1 + (int(rng.integers(0, 3)) if rng.random() < 0.2 else 0)
        K2 = k2 + (int(rng.integers(0, 3)) if rng.random() < 0.2 else 0)
        kind1 = "letter" if rng.random() < 0.25 else "int"
        kind2 = "letter" if rng.random() < 0.25 else "int"
        mkind = str(rng.choice(G.MATRIX_KINDS + ["identity", "identity"]))
    matrix = G.gen_matrix(rng, K1, K2, mkind)

    def length():
        if small:
            return int(rng.integers(max(lo_len, 1), 6))
        r = rng.random()
        if r < 0.03 and lo_len == 0:
            return 0
        if r < 0.10:
            return max(lo_len, 1)
        if r < 0.55:
            return int(rng.integers(max(lo_len, 2), 9))
        return int(rng.integers(max(lo_len, 2), hi_len + 1))

    n, m = length(), length()
    c1 = G.gen_codes(rng, n, k1)
    if k1 == k2 and n > 0 and rng.random() < 0.4:
        c2 = list(c1)
        for _ in range(int(rng.integers(0, 4))):
            r = rng.random()
            p = int(rng.integers(len(c2) + 1))
            if r < 0.4 and c2:
                c2[min(p, len(c2) - 1)] = int(rng.integers(k2))
            elif r < 0.7:
                c2.insert(p, int(rng.integers(k2)))
            elif len(c2) > max(lo_len, 1):
                del c2[min(p, len(c2) - 1)]
        c2 = c2[:max(hi_len, 5)]
    else:
        c2 = G.gen_codes(rng, m, k2)
    if wide:
        if c1 and k1 > 256:
            c1[int(rng.integers(len(c1)))] = k1 - 1
        if c2 and k2 > 256:
            c2[int(rng.integers(len(c2)))] = k2 - 1
    affine = bool(rng.random() < 0.5)
    gp = G.gen_penalty(rng, affine)
    if need_negative_gap:
        if affine:
            gp = (min(gp[0], -1), min(gp[1], -1)) if rng.random() < 0.97 else gp
        else:
            gp = min(gp, -1) if rng.random() < 0.97 else gp
    same_alph = (k1, kind1) == (k2, kind2) and K1 == k1 and K2 == k2 and rng.random() < 0.5
    a1 = G.alphabet(k1, kind1, 0)
    a2 = a1 if same_alph else G.alphabet(k2, kind2, 1)
    A1 = a1 if K1 == k1 else G.alphabet(K1, kind1, 2)
    A2 = a2 if K2 == k2 else G.alphabet(K2, kind2, 3)
    mdtype = str(rng.choice(["int64", "int32", "int16"]))
    if mkind == "huge" and mdtype == "int16":
        mdtype = "int32"          # the scores do not fit 16 bits
    return dict(k=(k1, k2), K=(K1, K2), akind=(kind1, kind2), same_alph=same_alph, a=(a1, a2), A=(A1, A2),
                matrix=matrix, mkind=mkind, mdtype=mdtype, c1=c1, c2=c2, gp=gp)


def log_pair(ctx, d):
    mat = d["matrix"]
    if mat.size <= 64:
        mdesc = mat.tolist()
    else:
        used1, used2 = sorted(set(d["c1"])), sorted(set(d["c2"]))
        if used1 and used2 and len(used1) * len(used2) <= 400:
            mdesc = {"rows": used1, "cols": used2, "entries": mat[np.ix_(used1, used2)].tolist()}
        else:
            mdesc = {"shape": list(mat.shape), "kind": d["mkind"]}
    ctx.log({"seq_alphabet_sizes": d["k"], "matrix_alphabet_sizes": d["K"], "alphabet_kinds": d["akind"],
             "shared_alphabet_object": d["same_alph"], "matrix_kind": d["mkind"], "matrix_dtype": d["mdtype"],
             "matrix": mdesc, "code1": d["c1"], "code2": d["c2"], "gap_penalty": d["gp"]})


class Pair:
    """Built biotite objects + cached reference values for one input pair."""

    def __init__(self, d):
        self.d = d
        self.c1, self.c2 = d["c1"], d["c2"]
        self.n, self.m = len(self.c1), len(self.c2)
        self.matrix = d["matrix"]
        self.gp = d["gp"]
        self.s1, self.s2, self.sm = G.build_objects(d)
        self.codes = [self.c1, self.c2]
        self._S = None
        self._opt = {}
        self._seeded = {}
        used = self.matrix[np.ix_(sorted(set(self.c1)), sorted(set(self.c2)))] if self.n and self.m else np.zeros((1, 1))
        go, ge, _ = R.penalties(self.gp)
        self.maxabs = max(int(np.abs(used).max()) if used.size else 0, abs(go), abs(ge), 1)

    @property
    def S(self):
        if self._S is None:
            self._S = R.pair_scores(self.c1, self.c2, self.matrix)
        return self._S

    def optimum(self, mode, allow_abut=None, require_pair=False):
        key = (mode, allow_abut, require_pair)
        if key not in self._opt:
            self._opt[key] = R.optimum(self.S, self.n, self.m, self.gp, mode, allow_abut, require_pair)
        return self._opt[key]

    def seeded(self, seed, direction, gapped):
        key = (tuple(seed), direction, gapped)
        if key not in self._seeded:
            self._seeded[key] = R.seeded_optimum(self.c1, self.c2, self.matrix, self.gp, seed, direction, gapped)
        return self._seeded[key]

    def nonbinding_threshold(self):
        return 2 * (self.n + self.m) * self.maxabs + 1


def rows_of(ali):
    tr = np.asarray(ali.trace)
    return R.trace_rows(tr) if tr.size else []


# ------------------------------------------------------------------ banded
def band_has_overlap(n, m, lo, hi):
    """Some position pair (i, j) has lo <= j-i <= hi."""
    return n > 0 and m > 0 and hi >= -(n - 1) and lo <= m - 1


def sentinel_underflow_class(P, local):
    """Trigger class `banded_affine_sentinel_underflow`: semi-global, affine, and
    |open-ext| + ext - min(0, min(matrix)) < 0 (the corrected INT32_MIN sentinel of
    banded.pyx underflows when a gap is extended from the band border)."""
    go, ge, affine = R.penalties(P.gp)
    if local or not affine:
        return False
    h = max(0, -int(P.matrix.min()))
    return abs(go - ge) + ge + h < 0


def first_step_gap_class(P, lo, hi, local):
    """Trigger class `banded_first_step_gap`: semi-global and some in-band pair of
    positions (0, j) or (i, 0) scores below max(gap open, gap extension), so the best
    banded DP path may open with a gap directly after the free terminal gaps (a
    necessary condition for the lost-gap-column mechanism to change a score)."""
    if local or not P.n or not P.m:
        return False
    go, ge, _ = R.penalties(P.gp)
    limit = max(go, ge)
    S = P.S
    for j in range(P.m):
        if lo <= j <= hi and S[0][j] < limit:
            return True
    for i in range(P.n):
        if lo <= -i <= hi and S[i][0] < limit:
            return True
    return False


def explained_by_first_step_gap(P, rows, reported):
    """The recorded mechanism: the banded traceback stops at the table border and so
    renders a path that *opened with a gap* (directly after the free terminal gaps)
    as if its first column paired the two positions.  True if replacing the first
    column (i0, j0) - one of i0, j0 is 0 - by the two gap columns it stands for
    reproduces the reported score."""
    if not rows:
        return False
    i0, j0 = rows[0]
    if i0 == -1 or j0 == -1 or (i0 != 0 and j0 != 0):
        return False
    for first in ([(-1, j0), (i0, -1)], [(i0, -1), (-1, j0)]):
        for t in R.complete_semiglobal(first + rows[1:], P.n, P.m):
            if R.check_trace(t, [P.n, P.m], end_to_end=True) is None and \
                    R.rescore(t, P.codes, P.matrix, P.gp, False) == reported:
                return True
    return False


def terminal_abut_class(P, local):
    """Trigger class `banded_affine_terminal_abut`: semi-global, affine, and allowing a
    gap to abut a gap of the other sequence changes the optimum."""
    if local or not isinstance(P.gp, tuple):
        return False
    return P.optimum("semiglobal", True) > P.optimum("semiglobal")


def call_banded(ctx, P, band, local, max_number, probe=False):
    """One call + all oracles.  Returns the number of non-empty alignments (or None if declined)."""
    n, m, gp = P.n, P.m, P.gp
    lo, hi = min(band), max(band)
    mode = "local" if local else "semiglobal"
    overlap = band_has_overlap(n, m, lo, hi)
    ctx.op("align_banded[%s,%s]" % (mode, "affine" if isinstance(gp, tuple) else "linear"))
    info = dict(band=list(band), local=local, max_number=max_number)
    try:
        from vf.core import drop_defaults
        res = align.align_banded(P.s1, P.s2, P.sm, band, **drop_defaults(ctx, dict(gap_penalty=gp, local=local, max_number=max_number),
                                                                          dict(gap_penalty=-10, local=False, max_number=1000)))
    except ValueError as e:
        ctx.exc(e)
        if n > 0 and m > 0:
            ctx.check(not overlap, "band_error_iff_no_overlap",
                      "ValueError(%s) although positions with %d <= j-i <= %d exist (lengths %d, %d)" % (e, lo, hi, n, m), **info)
        else:
            ctx.note("banded_declined_empty_sequence")
        return None
    if n > 0 and m > 0:
        ctx.check(overlap, "band_error_iff_no_overlap",
                  "band (%d, %d) has no position inside the %d x %d table but no ValueError was raised" % (lo, hi, n, m), **info)
    ctx.check(isinstance(res, list) and 1 <= len(res) <= max_number, "max_number_respected",
              "%d alignments returned for max_number=%d" % (len(res), max_number), **info)
    scores = {int(a.score) for a in res}
    ctx.check(len(scores) == 1, "score_honest", "alignments of one call report different scores %s" % sorted(scores), **info)
    reported = scores.pop()
    # while the finding is open, a mismatch inside its trigger class is accepted only if the
    # recorded mechanism explains it exactly (see explained_by_first_step_gap)
    lenient = (not probe) and (not ctx.allowed("banded_first_step_gap")) and first_step_gap_class(P, lo, hi, local)
    nonempty = 0
    for idx, ali in enumerate(res):
        rows = rows_of(ali)
        why = R.check_trace(rows, [n, m], end_to_end=False, contiguous=True)
        ctx.check(why is None, "trace_valid", "alignment %d: %s" % (idx, why), trace=rows, **info)
        ctx.check(len(ali.sequences) == 2 and ali.sequences[0] is P.s1 and ali.sequences[1] is P.s2, "trace_valid",
                  "alignment %d does not list the two inputs in input order" % idx, **info)
        bad = [(i, j) for i, j in R.paired_positions(rows) if not (lo <= j - i <= hi)]
        ctx.check(not bad, "band_respected",
                  "alignment %d pairs positions %s outside the band %d <= j-i <= %d" % (idx, bad[:4], lo, hi), trace=rows, **info)
        if rows:
            nonempty += 1
        if local:
            rs = R.rescore(rows, P.codes, P.matrix, gp, True)
        else:
            rs = max(R.rescore(t, P.codes, P.matrix, gp, False) for t in R.complete_semiglobal(rows, n, m))
        if rs != reported and lenient and explained_by_first_step_gap(P, rows, reported):
            ctx.oracle("score_honest")
            ctx.note("score_mismatch_explained(banded_first_step_gap quarantined)")
            continue
        ctx.check(rs == reported, "score_honest",
                  "alignment %d: trace%s re-scores to %d, reported %d"
                  % (idx, "" if local else " completed by the unaligned ends (free terminal gaps)", rs, reported),
                  trace=rows, mode=mode, **info)
    # upper bound that holds under every reading of the scoring model (abutting gaps allowed, each run opening)
    relaxed = P.optimum(mode, True)
    ctx.check(reported <= relaxed, "not_above_optimum",
              "reported %d exceeds even the %s optimum %d of the model that allows abutting gaps" % (reported, mode, relaxed),
              mode=mode, **info)
    if not (probe or ctx.allowed("banded_affine_terminal_abut")) and terminal_abut_class(P, local):
        # quarantined class: the upper bound is the relaxed one (above); a covering band must still reach the documented optimum
        ctx.note("restricted_upper_bound_skipped(banded_affine_terminal_abut quarantined)")
        if lo <= -(n - 1) and hi >= m - 1:
            opt_pair = P.optimum(mode, None, True)
            if opt_pair is not None and opt_pair == P.optimum(mode):
                ctx.check(reported >= opt_pair, "optimum_when_unrestricted",
                          "band covers the whole table but reported %d < optimum %d" % (reported, opt_pair), mode=mode, **info)
        return nonempty
    opt = P.optimum(mode)
    ctx.check(reported <= opt, "not_above_optimum",
              "reported %d exceeds the %s optimum %d of the unrestricted problem" % (reported, mode, opt), mode=mode, **info)
    if lo <= -(n - 1) and hi >= m - 1 and n > 0 and m > 0:
        opt_pair = P.optimum(mode, None, True)
        if opt_pair is not None and opt_pair == opt:
            ctx.check(reported == opt, "optimum_when_unrestricted",
                      "band covers the whole table but reported %d < optimum %d" % (reported, opt), mode=mode, **info)
        else:
            ctx.note("full_band_but_optimum_pairs_nothing")
    return nonempty


def gen_band(rng, n, m):
    r = rng.random()
    lo_lim, hi_lim = -n - 3, m + 3
    if r < 0.15:
        a, b = -n - int(rng.integers(0, 3)), m + int(rng.integers(0, 3))      # covering (or nearly)
    elif r < 0.30:
        a = int(rng.integers(lo_lim, hi_lim + 1))
        b = a + int(rng.integers(0, 2))                                       # narrow
    elif r < 0.36:
        a, b = -(n - 1), m - 1                                                # exactly the table
    else:
        a = int(rng.integers(lo_lim, hi_lim + 1))
        b = int(rng.integers(lo_lim, hi_lim + 1))
    if rng.random() < 0.3:
        a, b = b, a
    return (int(a), int(b))


def case_banded(rng, ctx, allbands):
    d = gen_pair(rng, ctx, lo_len=1 if allbands else 0, small=allbands, profiles=True)
    local = bool(rng.random() < 0.5)
    if not ctx.allowed("banded_affine_sentinel_underflow") and isinstance(d["gp"], tuple) and not local:
        # quarantined class: keep the penalty pair, but only where the sentinel cannot underflow
        go, ge = d["gp"]
        h = max(0, -int(d["matrix"].min()))
        if abs(go - ge) + ge + h < 0:
            ctx.note("penalty_changed(banded_affine_sentinel_underflow quarantined)")
            d["gp"] = (min(go, 2 * ge + h), ge) if go <= ge else (max(go, -h), ge)
            assert abs(d["gp"][0] - ge) + ge + h >= 0
    log_pair(ctx, d)
    P = Pair(d)
    n, m = P.n, P.m
    ctx.op("codes_%sx%s" % (P.s1.code.dtype, P.s2.code.dtype))
    total_nonempty = 0
    if allbands:
        max_number = int(rng.choice([1, 2, 1000]))
        ctx.log({"all_bands_in": [-n - 2, m + 2], "local": local, "max_number": max_number})
        for a in range(-n - 2, m + 3):
            for b in range(-n - 2, m + 3):
                ne = call_banded(ctx, P, (a, b), local, max_number)
                total_nonempty += ne or 0
    else:
        max_number = int(rng.choice([1, 2, 5, 1000]))
        band = gen_band(rng, n, m)
        ctx.log({"band": list(band), "local": local, "max_number": max_number})
        ne = call_banded(ctx, P, band, local, max_number)
        total_nonempty += ne or 0
        lo, hi = min(band), max(band)
        ctx.state(["banded", local, isinstance(P.gp, tuple), n > m, min(n, 6), min(m, 6),
                   "none" if ne is None else min(ne, 3), lo <= -(n - 1) and hi >= m - 1, lo == hi])
    ctx.mark_nontrivial(total_nonempty > 0)


# ------------------------------------------------------------------ seeded
DIRECTIONS = ("both", "upstream", "downstream")


def gen_threshold(rng, P):
    r = rng.random()
    if r < 0.15:
        return 0
    if r < 0.25:
        return 1
    if r < 0.60:
        return int(rng.integers(2, 40))
    if r < 0.90:
        return P.nonbinding_threshold() + int(rng.integers(0, 50))
    return 2**30


def judge_seeded(ctx, P, ali_list, seed, threshold, direction, gapped, info):
    """Oracles common to align_local_gapped (list) and align_local_ungapped (single)."""
    n, m, gp = P.n, P.m, P.gp
    scores = {int(a.score) for a in ali_list}
    ctx.check(len(scores) == 1, "score_honest", "alignments of one call report different scores %s" % sorted(scores), **info)
    reported = scores.pop()
    seed = (int(seed[0]), int(seed[1]))
    for idx, ali in enumerate(ali_list):
        rows = rows_of(ali)
        why = R.check_trace(rows, [n, m], end_to_end=False, contiguous=True)
        ctx.check(why is None, "trace_valid", "alignment %d: %s" % (idx, why), trace=rows, **info)
        ctx.check(len(ali.sequences) == 2 and ali.sequences[0] is P.s1 and ali.sequences[1] is P.s2, "trace_valid",
                  "alignment %d does not list the two inputs in input order" % idx, **info)
        if not gapped:
            ctx.check(all(i != -1 and j != -1 for i, j in rows), "trace_valid",
                      "ungapped alignment contains a gap", trace=rows, **info)
        ctx.check(seed in rows, "seed_contained", "alignment %d does not contain the seed column %r" % (idx, seed),
                  trace=rows, **info)
        if direction == "upstream":
            ctx.check(rows[-1] == seed, "direction_respected",
                      "direction='upstream' but the alignment continues behind the seed", trace=rows, **info)
        elif direction == "downstream":
            ctx.check(rows[0] == seed, "direction_respected",
                      "direction='downstream' but the alignment starts before the seed", trace=rows, **info)
        else:
            ctx.oracle("direction_respected")
        rs = R.rescore(rows, P.codes, P.matrix, gp if gapped else -10**9, True)
        ctx.check(rs == reported, "score_honest",
                  "alignment %d: trace re-scores to %d, reported %d" % (idx, rs, reported), trace=rows, **info)
    # X-drop lower bound that holds for every threshold >= 0: when all matches score the maximum entry M > 0 of the matrix,
    # no cell can lead the run of matches on the seed diagonal by anything (every pair step adds at most M, gaps add <= 0),
    # so that run is never dropped and the reported score is at least M * (length of the run in the allowed directions)
    mat = np.asarray(P.matrix)
    M = int(mat.max()) if mat.size else 0
    i0, j0 = seed
    if (threshold >= 0 and M > 0 and mat.shape[0] == mat.shape[1] and all(int(mat[t, t]) == M for t in range(mat.shape[0]))
            and P.c1[i0] == P.c2[j0]):
        up = 0
        while i0 - up - 1 >= 0 and j0 - up - 1 >= 0 and P.c1[i0 - up - 1] == P.c2[j0 - up - 1]:
            up += 1
        down = 0
        while i0 + down + 1 < n and j0 + down + 1 < m and P.c1[i0 + down + 1] == P.c2[j0 + down + 1]:
            down += 1
        run = 1 + (up if direction in ("both", "upstream") else 0) + (down if direction in ("both", "downstream") else 0)
        ctx.check(reported >= M * run, "match_run_reached",
                  "the seed lies in a run of %d matches (each scoring the matrix maximum %d) in the allowed direction(s), but the reported score is %d"
                  % (run, M, reported), **info)
    opt = P.seeded(seed, direction, gapped)
    ctx.check(reported <= opt, "not_above_optimum",
              "reported %d exceeds the optimum %d over alignments through the seed (direction %s)" % (reported, opt, direction), **info)
    if threshold >= P.nonbinding_threshold():
        ctx.check(reported == opt, "optimum_when_unrestricted",
                  "threshold %d cannot bind but reported %d < optimum %d over alignments through the seed (direction %s)"
                  % (threshold, reported, opt, direction), **info)
    return reported


def call_gapped(ctx, P, seed, threshold, direction, max_number, max_table_size=None, judge=True):
    """Full call + score_only call of align_local_gapped with all oracles; returns the list (or raises MemoryError)."""
    gp = P.gp
    info = dict(seed=list(seed), threshold=threshold, direction=direction, max_number=max_number, max_table_size=max_table_size)
    ctx.op("align_local_gapped[%s,%s]" % (direction, "affine" if isinstance(gp, tuple) else "linear"))
    kw = dict(gap_penalty=gp, max_number=max_number, direction=direction)
    from vf.core import drop_defaults
    kw = drop_defaults(ctx, kw, dict(gap_penalty=-10, max_number=1, direction="both"))
    if max_table_size is not None:
        kw["max_table_size"] = max_table_size
    res = align.align_local_gapped(P.s1, P.s2, P.sm, seed, threshold, **kw)
    ctx.check(isinstance(res, list) and 1 <= len(res) <= max_number, "max_number_respected",
              "%d alignments returned for max_number=%d" % (len(res), max_number), **info)
    reported = judge_seeded(ctx, P, res, seed, threshold, direction, True, info)
    ctx.op("align_local_gapped[score_only]")
    so = align.align_local_gapped(P.s1, P.s2, P.sm, seed, threshold, score_only=True, **kw)
    ctx.check(isinstance(so, (int, np.integer)) and int(so) == reported, "score_only_consistent",
              "score_only=True returns %r, the full call reports %d" % (so, reported), **info)
    return res


def gapped_declined(P):
    go, ge, _ = R.penalties(P.gp)
    return go >= 0 or ge >= 0


def expect_gap_decline(ctx, P, seed, threshold):
    """align_local_gapped documents strictly negative penalties."""
    ctx.op("align_local_gapped[decline:zero_penalty]")
    ctx.oracle("invalid_argument_rejected")
    try:
        align.align_local_gapped(P.s1, P.s2, P.sm, seed, threshold, gap_penalty=P.gp)
    except ValueError as e:
        ctx.exc(e)
    else:
        ctx.fail("invalid_argument_rejected", "gap penalty %r accepted by align_local_gapped (documented: must be negative)" % (P.gp,))


def case_gapped_growth(rng, ctx):
    """Both extension regions are longer than the 100 x 100 table the implementation starts with, and the best path runs
    along the edge of that table (a long insertion right behind the seed): the tables have to grow in both dimensions."""
    k = 4
    hit, miss = [(5, -4), (2, -3), (3, -2)][int(rng.integers(3))]
    matrix = np.full((k, k), miss, dtype=np.int64)
    np.fill_diagonal(matrix, hit)
    pre = [int(x) for x in rng.integers(0, k, size=int(rng.integers(1, 6)))]
    ins = [int(x) for x in rng.integers(0, k, size=int(rng.choice([99, 100, 101, 104, 120])))]
    tail = [int(x) for x in rng.integers(0, k, size=int(rng.integers(101, 140)))]
    c1, c2 = pre + tail, pre + ins + tail
    if rng.random() < 0.5:
        c1, c2 = c2, c1
    a1 = G.alphabet(k, "int", 0)
    d = dict(k=(k, k), K=(k, k), akind=("int", "int"), same_alph=True, a=(a1, a1), A=(a1, a1), matrix=matrix, mkind="table_growth",
             mdtype="int32", c1=c1, c2=c2, gp=int(rng.choice([-1, -1, -2])) if rng.random() < 0.7 else (-3, -1))
    log_pair(ctx, d)
    P = Pair(d)
    ctx.op("input_profile_table_growth")
    seed = (len(pre) - 1, len(pre) - 1)
    direction = str(rng.choice(["downstream", "both"]))
    threshold = P.nonbinding_threshold()
    ctx.log({"seed": list(seed), "threshold": threshold, "direction": direction, "max_number": 1})
    call_gapped(ctx, P, seed, threshold, direction, 1)
    ctx.mark_nontrivial()


def case_gapped(rng, ctx, allseeds):
    if not allseeds and ctx.index % 40 == 11:
        return case_gapped_growth(rng, ctx)
    d = gen_pair(rng, ctx, lo_len=1, small=allseeds, need_negative_gap=True, profiles=True)
    log_pair(ctx, d)
    P = Pair(d)
    n, m = P.n, P.m
    ctx.op("codes_%sx%s" % (P.s1.code.dtype, P.s2.code.dtype))
    if gapped_declined(P):
        seed = (int(rng.integers(n)), int(rng.integers(m)))
        ctx.log({"seed": list(seed), "threshold": 5})
        expect_gap_decline(ctx, P, seed, 5)
        ctx.mark_nontrivial()
        return
    if allseeds:
        max_number = int(rng.choice([1, 2, 1000]))
        thresholds = [0, 1, int(rng.integers(2, 30)), P.nonbinding_threshold()]
        ctx.log({"all_seeds": True, "thresholds": thresholds, "max_number": max_number})
        for i in range(n):
            for j in range(m):
                for direction in DIRECTIONS:
                    for t in thresholds:
                        call_gapped(ctx, P, (i, j), t, direction, max_number)
    else:
        seed = (int(rng.integers(n)), int(rng.integers(m)))
        if rng.random() < 0.3:
            # a seed on a good position: the best-scoring pair
            S = np.array(P.S)
            i, j = np.unravel_index(int(np.argmax(S)), S.shape)
            seed = (int(i), int(j))
        threshold = gen_threshold(rng, P)
        direction = DIRECTIONS[int(rng.integers(3))]
        max_number = int(rng.choice([1, 1, 2, 5, 1000]))
        seed_obj = seed if rng.random() < 0.7 else np.array(seed)
        ctx.log({"seed": list(seed), "threshold": threshold, "direction": direction, "max_number": max_number,
                 "seed_type": type(seed_obj).__name__})
        res = call_gapped(ctx, P, seed_obj, threshold, direction, max_number)
        ctx.state(["gapped", direction, isinstance(P.gp, tuple), min(threshold, 3), min(len(res), 3),
                   min(len(rows_of(res[0])), 6), seed[0] == 0 or seed[1] == 0, seed[0] == n - 1 or seed[1] == m - 1])
    ctx.mark_nontrivial()


def call_ungapped(ctx, P, seed, threshold, direction):
    info = dict(seed=list(seed), threshold=threshold, direction=direction)
    ctx.op("align_local_ungapped[%s]" % direction)
    if direction == "both" and ctx.index % 2 == 0:
        ali = align.align_local_ungapped(P.s1, P.s2, P.sm, seed, threshold)          # documented default direction
    else:
        ali = align.align_local_ungapped(P.s1, P.s2, P.sm, seed, threshold, direction)
    ctx.check(isinstance(ali, align.Alignment), "trace_valid", "align_local_ungapped returned %s" % type(ali).__name__, **info)
    reported = judge_seeded(ctx, P, [ali], seed, threshold, direction, False, info)
    ctx.op("align_local_ungapped[score_only]")
    so = align.align_local_ungapped(P.s1, P.s2, P.sm, seed, threshold, direction, score_only=True)
    ctx.check(isinstance(so, (int, np.integer)) and int(so) == reported, "score_only_consistent",
              "score_only=True returns %r, the full call reports %d" % (so, reported), **info)
    return ali


def case_ungapped(rng, ctx, allseeds):
    d = gen_pair(rng, ctx, lo_len=1, small=allseeds)
    d["gp"] = -1            # unused by the function; the reference forbids gaps
    log_pair(ctx, d)
    P = Pair(d)
    n, m = P.n, P.m
    ctx.op("codes_%sx%s" % (P.s1.code.dtype, P.s2.code.dtype))
    if allseeds:
        thresholds = [0, 1, int(rng.integers(2, 30)), P.nonbinding_threshold()]
        ctx.log({"all_seeds": True, "thresholds": thresholds})
        for i in range(n):
            for j in range(m):
                for direction in DIRECTIONS:
                    for t in thresholds:
                        call_ungapped(ctx, P, (i, j), t, direction)
    else:
        seed = (int(rng.integers(n)), int(rng.integers(m)))
        threshold = gen_threshold(rng, P)
        direction = DIRECTIONS[int(rng.integers(3))]
        ctx.log({"seed": list(seed), "threshold": threshold, "direction": direction})
        ali = call_ungapped(ctx, P, seed, threshold, direction)
        ctx.state(["ungapped", direction, min(threshold, 3), min(len(rows_of(ali)), 6), str(P.s1.code.dtype), str(P.s2.code.dtype)])
    ctx.mark_nontrivial()


# ------------------------------------------------------------------ table limit
INIT_SIZE = 100      # documented in localgapped.pyx: the table starts at min(len+1, 100) per dimension and doubles


def region_growth_bound(rows, seed, n, m):
    """Lower bound on the largest number of cells a table extension must have asked
    for, derived from the returned trace (0 if no extension was necessary)."""
    seed = (int(seed[0]), int(seed[1]))
    k = rows.index(seed)
    need = 0
    for part, l1, l2 in ((rows[:k], seed[0], seed[1]), (rows[k + 1:], n - seed[0] - 1, m - seed[1] - 1)):
        e1 = sum(1 for i, _ in part if i != -1)
        e2 = sum(1 for _, j in part if j != -1)
        final = [min(l1 + 1, INIT_SIZE), min(l2 + 1, INIT_SIZE)]
        grown = False
        for dim, e in ((0, e1), (1, e2)):
            while final[dim] <= e:          # index e must exist
                final[dim] *= 2
                grown = True
        if grown:
            # the table that holds the end of the region has at least this shape in both dimensions, and it was
            # created by an extension step, which is where the limit is compared with the new number of cells
            need = max(need, final[0] * final[1])
    return need


def case_table_limit(rng, ctx):
    k = int(rng.integers(2, 6))
    n = int(rng.integers(110, 261))
    c1 = [int(x) for x in rng.integers(0, k, size=n)]
    c2 = list(c1)
    for _ in range(int(rng.integers(0, 6))):
        r = rng.random()
        p = int(rng.integers(len(c2)))
        if r < 0.5:
            c2[p] = int(rng.integers(k))
        elif r < 0.75:
            c2.insert(p, int(rng.integers(k)))
        else:
            del c2[p]
    if rng.random() < 0.2:
        c2 = c2[: int(rng.integers(20, 99))]       # short second sequence: one dimension never grows
    hit, miss = int(rng.integers(3, 11)), -int(rng.integers(1, 11))
    matrix = np.full((k, k), miss, dtype=np.int64)
    np.fill_diagonal(matrix, hit)
    affine = bool(rng.random() < 0.5)
    gp = (-int(rng.integers(2, 12)), -int(rng.integers(1, 5))) if affine else -int(rng.integers(2, 12))
    a = G.alphabet(k, "int", 0)
    d = dict(k=(k, k), K=(k, k), akind=("int", "int"), same_alph=True, a=(a, a), A=(a, a), matrix=matrix,
             mkind="identity", mdtype="int32", c1=c1, c2=c2, gp=gp)
    log_pair(ctx, d)
    P = Pair(d)
    m = P.m
    pos = int(rng.choice([0, min(n, m) // 2, min(n, m) - 1, int(rng.integers(min(n, m)))]))
    seed = (pos, pos)
    threshold = int(rng.choice([10, 30, 100, P.nonbinding_threshold()]))
    direction = DIRECTIONS[int(rng.integers(3))]
    limit = int(rng.choice([1, 99, 5000, 10000, 19999, 20000, 39999, 40000, 79999, 80000, 10**6]))
    ctx.log({"seed": list(seed), "threshold": threshold, "direction": direction, "max_table_size": limit})
    info = dict(seed=list(seed), threshold=threshold, direction=direction, max_table_size=limit)
    # (1) without limit: the ordinary oracles
    res0 = call_gapped(ctx, P, seed, threshold, direction, 1)
    rows0 = rows_of(res0[0])
    need = region_growth_bound(rows0, seed, P.n, P.m)
    # (2) with limit
    ctx.op("align_local_gapped[max_table_size]")
    try:
        res1 = call_gapped(ctx, P, seed, threshold, direction, 1, max_table_size=limit)
    except MemoryError as e:
        ctx.exc(e)
        longest = max(seed[0], seed[1], P.n - seed[0] - 1, P.m - seed[1] - 1)
        ctx.check(longest + 1 > INIT_SIZE, "table_limit_consistent",
                  "MemoryError although no region is longer than the initial %d x %d table" % (INIT_SIZE, INIT_SIZE), **info)
        ctx.note("memory_error_observed")
        if need > limit:
            ctx.oracle("memory_error_when_growth_exceeds_limit")
        ctx.state(["table_limit", "MemoryError", limit, direction])
    else:
        rows1 = rows_of(res1[0])
        ctx.check(int(res1[0].score) == int(res0[0].score), "table_limit_consistent",
                  "result with max_table_size=%d scores %d, without limit %d" % (limit, res1[0].score, res0[0].score), **info)
        need1 = region_growth_bound(rows1, seed, P.n, P.m)
        ctx.check(need1 <= limit, "memory_error_when_growth_exceeds_limit",
                  "returned alignment needs a table extension to >= %d cells but max_table_size=%d raised no MemoryError"
                  % (need1, limit), **info)
        ctx.oracle("table_limit_consistent")
        if limit < min(P.n, INIT_SIZE) * min(P.m, INIT_SIZE) and need1 == 0:
            ctx.note("limit_below_initial_table_not_enforced")
        ctx.state(["table_limit", "returned", limit, direction, need1 > 0])
    ctx.mark_nontrivial()


# ------------------------------------------------------------------ declines
def case_declines(rng, ctx):
    d = gen_pair(rng, ctx, lo_len=1, small=True, need_negative_gap=True)
    if gapped_declined(Pair(d)):
        d["gp"] = -3
    kind = str(rng.choice([
        "banded_positive_gap", "banded_max_number_0", "gapped_zero_gap", "gapped_positive_gap", "gapped_max_number_0",
        "threshold_negative", "threshold_overflow", "seed_negative", "seed_out_of_range", "direction_invalid",
        "table_size_nonpositive", "alphabet_misfit", "penalty_type",
    ]))
    log_pair(ctx, d)
    ctx.log("decline", kind)
    P = Pair(d)
    n, m = P.n, P.m
    seed = (int(rng.integers(n)), int(rng.integers(m)))
    fn = str(rng.choice(["gapped", "ungapped"]))
    expect = (ValueError,)
    s1 = P.s1

    def banded(**kw):
        args = dict(gap_penalty=P.gp, local=bool(rng.random() < 0.5), max_number=2)
        args.update(kw)
        return align.align_banded(s1, P.s2, P.sm, (-n, m), **args)

    def gapped(seed=seed, threshold=5, **kw):
        args = dict(gap_penalty=P.gp)
        args.update(kw)
        return align.align_local_gapped(s1, P.s2, P.sm, seed, threshold, **args)

    def ungapped(seed=seed, threshold=5, **kw):
        return align.align_local_ungapped(s1, P.s2, P.sm, seed, threshold, **kw)

    if kind == "banded_positive_gap":
        call = lambda: banded(gap_penalty=(int(rng.integers(1, 5)) if rng.random() < 0.5 else (-2, int(rng.integers(1, 5)))))
    elif kind == "banded_max_number_0":
        call = lambda: banded(max_number=0)
    elif kind == "gapped_zero_gap":
        call = lambda: gapped(gap_penalty=(0 if rng.random() < 0.4 else ((0, -2) if rng.random() < 0.5 else (-2, 0))))
    elif kind == "gapped_positive_gap":
        call = lambda: gapped(gap_penalty=int(rng.integers(1, 5)))
    elif kind == "gapped_max_number_0":
        call = lambda: gapped(max_number=0)
    elif kind == "threshold_negative":
        t = -int(rng.integers(1, 10))
        call = (lambda: gapped(threshold=t)) if fn == "gapped" else (lambda: ungapped(threshold=t))
    elif kind == "threshold_overflow":
        t = int(rng.choice([2**31 - 1, 2**31, 2**40]))
        if fn == "ungapped" and t == 2**31 - 1:
            t = 2**31        # INT32_MAX itself is a valid threshold for the ungapped kernel
        call = (lambda: gapped(threshold=t)) if fn == "gapped" else (lambda: ungapped(threshold=t))
        expect = (OverflowError,)
    elif kind == "seed_negative":
        sd = (-1 - int(rng.integers(3)), seed[1]) if rng.random() < 0.5 else (seed[0], -1 - int(rng.integers(3)))
        call = (lambda: gapped(seed=sd)) if fn == "gapped" else (lambda: ungapped(seed=sd))
        expect = (IndexError,)
    elif kind == "seed_out_of_range":
        sd = (n + int(rng.integers(3)), seed[1]) if rng.random() < 0.5 else (seed[0], m + int(rng.integers(3)))
        call = (lambda: gapped(seed=sd)) if fn == "gapped" else (lambda: ungapped(seed=sd))
        expect = (IndexError,)
    elif kind == "direction_invalid":
        call = (lambda: gapped(direction="sideways")) if fn == "gapped" else (lambda: ungapped(direction="sideways"))
    elif kind == "table_size_nonpositive":
        call = lambda: gapped(max_table_size=int(rng.choice([0, -1])))
    elif kind == "alphabet_misfit":
        s1 = G.make_sequence(G.alphabet(d["K"][0] + 1, d["akind"][0], 5), d["c1"])
        which = str(rng.choice(["banded", "gapped", "ungapped"]))
        call = {"banded": banded, "gapped": gapped, "ungapped": ungapped}[which]
    else:  # penalty_type
        bad = [-3, -1] if rng.random() < 0.5 else -2.0
        call = (lambda: banded(gap_penalty=bad)) if rng.random() < 0.5 else (lambda: gapped(gap_penalty=bad))
        expect = (TypeError,)
    ctx.op("decline:%s" % kind)
    ctx.oracle("invalid_argument_rejected")
    try:
        res = call()
    except expect as e:
        ctx.exc(e)
    else:
        ctx.fail("invalid_argument_rejected", "%s accepted: returned %s" % (kind, type(res).__name__))
    ctx.mark_nontrivial()


# ------------------------------------------------------------------ dispatch
def run_case(stratum, rng, ctx):
    if stratum == "banded":
        return case_banded(rng, ctx, False)
    if stratum == "banded_allbands":
        return case_banded(rng, ctx, True)
    if stratum == "gapped":
        return case_gapped(rng, ctx, False)
    if stratum == "gapped_allseeds":
        return case_gapped(rng, ctx, True)
    if stratum == "ungapped":
        return case_ungapped(rng, ctx, False)
    if stratum == "ungapped_allseeds":
        return case_ungapped(rng, ctx, True)
    if stratum == "table_limit":
        return case_table_limit(rng, ctx)
    if stratum == "declines":
        return case_declines(rng, ctx)
    raise ValueError(stratum)


# ------------------------------------------------------------------ self-test
def selftest(ctx):
    """Oracle audit: the shared reference (DP, seed-anchored DP, re-scorer, validity,
    completion) against exhaustive enumeration, plus the driver's own helpers on literals."""
    checked = R.selftest(max_len=4, rounds=30, seed=20260928)
    assert checked > 400
    assert band_has_overlap(3, 4, -2, -2) and not band_has_overlap(3, 4, -3, -3)
    assert band_has_overlap(3, 4, 3, 9) and not band_has_overlap(3, 4, 4, 9)
    assert not band_has_overlap(0, 4, -5, 5)
    # seeded optimum on a literal: AAB / AB with +5/-3, gap -2
    mat = np.array([[5, -3], [-3, 5]])
    assert R.seeded_optimum([0, 0, 1], [0, 1], mat, -2, (1, 0), "both", True) == 10
    assert R.seeded_optimum([0, 0, 1], [0, 1], mat, -2, (0, 0), "both", True) == 8
    assert R.seeded_optimum([0, 0, 1], [0, 1], mat, -2, (0, 0), "upstream", True) == 5
    assert R.seeded_optimum([0, 0, 1], [0, 1], mat, -2, (0, 0), "both", False) == 5
    assert R.seeded_optimum([0, 0, 1], [0, 1], mat, -2, (2, 1), "upstream", False) == 10
    assert R.seeded_optimum([0, 0, 1], [0, 1], mat, -2, (2, 0), "both", True) == -3
    # growth bound: a downstream part with 120 seq1 symbols and 90 seq2 symbols from seed (0, 0)
    rows = [(0, 0)] + [(i, i) for i in range(1, 91)] + [(i, -1) for i in range(91, 121)]
    assert region_growth_bound(rows, (0, 0), 200, 95) == 200 * 95
    assert region_growth_bound(rows[:50], (0, 0), 200, 95) == 0
    assert region_growth_bound(rows, (0, 0), 200, 300) == 200 * 100


# ------------------------------------------------------------------ probes
def _mini_pair(c1, c2, matrix, gp):
    k1, k2 = matrix.shape
    a1, a2 = G.alphabet(k1, "int", 0), G.alphabet(k2, "int", 1)
    d = dict(k=(k1, k2), K=(k1, k2), akind=("int", "int"), same_alph=False, a=(a1, a2), A=(a1, a2),
             matrix=np.asarray(matrix, dtype=np.int64), mkind="literal", mdtype="int32", c1=list(c1), c2=list(c2), gp=gp)
    return d


def _probe_first_step_gap(ctx):
    """Trigger class: semi-global banded, a first-row/first-column pair scores below the gap penalty."""
    mat = np.array([[4, -11], [-11, 4]])
    for c1, c2, band, gp in (
        ([0, 0], [1], (-1, 3), -9),
        ([1], [0, 0, 0], (-3, 1), -9),
        ([0, 1, 1, 0], [1, 1, 1, 0], (-3, 3), -2),
        ([0, 1, 1, 0], [1, 1, 1, 0], (-3, 3), (-2, -2)),
    ):
        d = _mini_pair(c1, c2, mat, gp)
        log_pair(ctx, d)
        ctx.log({"band": list(band), "local": False, "max_number": 5})
        call_banded(ctx, Pair(d), band, False, 5, probe=True)


def _probe_sentinel_underflow(ctx):
    """Trigger class: semi-global banded, affine, |open-ext| + ext - min(0, min(matrix)) < 0."""
    mat = np.array([[5, -4], [-4, 5]])
    for gp in ((-5, -5), (-1, -6), (-6, -12)):
        d = _mini_pair([0, 1, 0, 0, 1, 1, 0], [0, 1, 0, 1, 1, 0], mat, gp)
        log_pair(ctx, d)
        ctx.log({"band": [-20, 20], "local": False, "max_number": 5})
        call_banded(ctx, Pair(d), (-20, 20), False, 5, probe=True)


def _probe_terminal_abut(ctx):
    """Trigger class: semi-global banded, affine, abutting gaps change the optimum
    (inputs outside the first-step-gap class, so the returned trace is honest)."""
    mat = np.array([[-9, 10, -20], [-9, 0, -9], [-20, 0, -9]])
    d = _mini_pair([0, 1], [1, 0], mat, (-5, -2))
    log_pair(ctx, d)
    for band in ((-2, 0), (-5, 5)):
        ctx.log({"band": list(band), "local": False, "max_number": 5})
        P = Pair(d)
        assert not first_step_gap_class(P, min(band), max(band), False) and terminal_abut_class(P, False)
        call_banded(ctx, P, band, False, 5, probe=True)


PROBES = {
    "banded_first_step_gap": _probe_first_step_gap,
    "banded_affine_sentinel_underflow": _probe_sentinel_underflow,
    "banded_affine_terminal_abut": _probe_terminal_abut,
}
