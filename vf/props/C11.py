"""C11  Alignments keep valid traces through every conversion; MSAs align the inputs.

Monitors
* invariant at a hook: ``Alignment.__init__`` is wrapped at class level, so the
  trace invariant (2-D trace with one column per sequence, indices in range,
  strictly increasing per sequence ignoring -1, no all-gap column) is evaluated
  for EVERY ``Alignment`` created anywhere during the workload - by the driver,
  by the pairwise aligners, by ``align_multiple``, by the CIGAR/FASTA readers and
  by the slicing done inside the helper functions.
* round-trip / differential oracles written in this file in plain Python lists:
  gapped strings <-> trace, code and symbol matrices, FASTA, CIGAR (whole option
  grid), gap/terminal-gap helpers, identities, score, slicing.
* contract check on every ``align_multiple`` result.
* ASan/UBSan build of multiple.c / pairwise.c / banded.c / localgapped.c and the
  process-exit monitor.
"""

import io

import numpy as np

ID = "C11"
FLAVOUR = "san"
LEVEL = "exploration"
THOROUGH_MULT = 3.0       # deepens the sampled strata of the thorough tier (measured: about ten minutes on 16 cores)
RULE = (
    "seeded generator.  Traces: 2-6 sequences (protein / nucleotide / ambiguous nucleotide / general letter, char, int and "
    "300-symbol alphabets), length 1-12 (thorough 1-30), optional unaligned prefix/suffix per sequence (clipped ends, reference "
    "offsets), columns drawn as random non-empty subsets of the still unfinished sequences with inclusion probability "
    "0.35-0.95 (forces leading/trailing gaps, insertion next to deletion, single-symbol sequences); pairwise CIGAR traces are "
    "drawn as runs of M/I/D of length 1-4 in any order.  Every CIGAR case runs the full grid distinguish_matches x hard_clip x "
    "include_terminal_gaps x introns(none/valid) x as_string (32 write/read cycles) plus invalid introns and both index orders.  "
    "MSA: 2-8 sequences, length 1-25, identical / mutated / unrelated, protein, nucleotide, general alphabets (2-12 symbols, 255 "
    "and 300 symbols), linear and affine penalties, terminal_penalty, default distances or explicit distances and guide trees "
    "(binary and multifurcating).  Pairwise: align_optimal (global, semi-global, local), align_banded, align_local_gapped, "
    "align_local_ungapped, align_ungapped, EValueEstimator sampling - every result is passed through the invariant and the "
    "conversions.  A case is non-trivial when the alignment under test has at least two columns and at least one gap (MSA: a "
    "result with >= 2 rows was returned and judged); distinct = digest of the logged inputs."
)
STRATA = {
    "conv": (2600, 110000),
    "cigar": (1500, 60000),
    "helpers": (2200, 90000),
    "slicing": (2200, 90000),
    "msa": (1500, 60000),
    "pairwise": (1000, 40000),
}
# functions that must leave their arguments untouched (vf.core.PurityMonitor; '!' = the object itself is watched too)
PURE = [
    "biotite.sequence.align.alignment:Alignment.__getitem__!",
    "biotite.sequence.align.alignment:get_codes",
    "biotite.sequence.align.alignment:get_symbols",
    "biotite.sequence.align.alignment:remove_gaps",
    "biotite.sequence.align.alignment:remove_terminal_gaps",
    "biotite.sequence.align.alignment:find_terminal_gaps",
    "biotite.sequence.align.alignment:get_sequence_identity",
    "biotite.sequence.align.alignment:get_pairwise_sequence_identity",
    "biotite.sequence.align.alignment:score",
    "biotite.sequence.align.cigar:write_alignment_to_cigar",
    "biotite.sequence.io.fasta.convert:set_alignment",
    "biotite.sequence.align.multiple:align_multiple",
]
REQUIRED_ORACLES = [
    "invariant_hook", "produced_alignment_valid",
    "strings_vs_model", "strings_roundtrip", "codes_vs_model", "symbols_vs_model", "fasta_roundtrip",
    "cigar_roundtrip", "cigar_ops_vs_model", "cigar_rejects_invalid",
    "remove_gaps_vs_model", "terminal_gaps_vs_model", "identity_vs_model", "pairwise_identity_vs_model",
    "score_vs_model", "getitem_vs_model",
    "msa_rows_equal_inputs", "msa_order_permutation", "msa_tree_leaves", "msa_inputs_untouched",
]
ANCHORS = [
    "biotite.sequence.align.alignment:Alignment.__init__",
    "biotite.sequence.align.alignment:Alignment.__getitem__",
    "biotite.sequence.align.alignment:Alignment.trace_from_strings",
    "biotite.sequence.align.alignment:Alignment.get_gapped_sequences",
    "biotite.sequence.align.alignment:get_codes",
    "biotite.sequence.align.alignment:get_symbols",
    "biotite.sequence.align.alignment:get_sequence_identity",
    "biotite.sequence.align.alignment:get_pairwise_sequence_identity",
    "biotite.sequence.align.alignment:score",
    "biotite.sequence.align.alignment:find_terminal_gaps",
    "biotite.sequence.align.alignment:remove_terminal_gaps",
    "biotite.sequence.align.alignment:remove_gaps",
    "biotite.sequence.align.cigar:read_alignment_from_cigar",
    "biotite.sequence.align.cigar:write_alignment_to_cigar",
    "biotite.sequence.align.cigar:_aggregate_consecutive",
    "biotite.sequence.align.cigar:_find_clipped_bases",
    "biotite.sequence.io.fasta.convert:get_alignment",
    "biotite.sequence.io.fasta.convert:set_alignment",
    "biotite.sequence.align.statistics:EValueEstimator.from_samples",
]
OPTIONAL_ANCHORS = []
ASSUMPTIONS = [
    "generated traces give every sequence at least one aligned symbol and have at least one column (an alignment with an "
    "unaligned row or no column has no terminal-gap range and no CIGAR; zero-column local results are only passed through the invariant)",
    "Alignment[...] is a selection the caller asks for: a row index that reorders or repeats columns (negative step, unsorted or "
    "repeated index array) is judged against the list model only, and selecting a subset of the sequences may leave all-gap "
    "columns - the strict-increase / no-all-gap clauses are applied to what the library itself produces or parses and to "
    "order-preserving row selections",
    "trace_from_strings / FASTA can only number the symbols that are shown: the expected trace is the rank-renumbered trace and "
    "the expected sequences are the displayed symbols (documented: the strings represent the aligned sequences)",
    "CIGAR: without include_terminal_gaps the terminal gaps of the segment are documented to be omitted, so the round trip is "
    "compared on the columns between the first and last aligned segment base; `position` is the first reference index of the "
    "written columns; for hard clips the segment is trimmed before reading (SAM semantics, documented in read_alignment_from_cigar)",
    "FASTA with seq_type=None is documented as a guess: the sequences are compared only when the guessed class is the original one",
    "score(terminal_penalty=False) on more than two sequences: whether a gap run that straddles the start of the non-terminal "
    "window counts as opening or extension is not documented; both are accepted (counted as observation)",
    "align_multiple with the default distances may decline with the documented ValueError (distance not computable for unrelated "
    "sequences: randomized score better, infinite/negative/NaN distance); a decline is counted and the same sequence set is "
    "re-run with explicit distances, where it must succeed",
    "identity helpers compare symbol codes; all sequences of such a case share one alphabet",
    "the Cython entry points (align_multiple, align_optimal, ...) cannot be counted with sys.monitoring; they are counted in the operation histogram",
]
MIN_CASES_PER_WORKER = 40
MANIFEST = {
    "technique": "invariant at a hook (class-level wrapper on Alignment.__init__, evaluated for every Alignment created anywhere, "
                 "also inside biotite) + round-trip/differential oracles in plain Python (gapped strings, code/symbol matrices, FASTA, "
                 "CIGAR option grid, gap/terminal-gap helpers, identities, score, slicing) + contract check on every align_multiple "
                 "result; ASan/UBSan build of multiple.c, pairwise.c, banded.c, localgapped.c; process-exit monitor",
    "level_text": "Runtime monitoring: thousands of generated traces and sequence sets are pushed through the real Alignment class, "
                  "the CIGAR and FASTA converters, the helper functions and align_multiple (ASan+UBSan build of the generated C).  "
                  "A wrapper on Alignment.__init__ evaluates the trace invariant for every alignment object that comes into "
                  "existence during the workload (tens of thousands per run, also those created inside biotite); every conversion is "
                  "compared on trace and sequences with a list-based recomputation written in the driver; every align_multiple "
                  "result is checked for one row per input in input order, gap-stripped rows equal to the saved inputs, a "
                  "permutation as order and a guide tree with every index exactly once.  Held-on-what-was-observed, not a proof.",
    "level_note": "Trusts the list models (audited in selftest against numpy indexing, docstring CIGAR examples and hand-computed "
                  "scores), numpy, and that the generated C corresponds to the .pyx (no Cython here).  Lengths <= 30, <= 8 "
                  "sequences.  Reordering selections and sequence sub-selections are judged by the selection model only.  Findings "
                  "are quarantined as triggers with probes: align_multiple on pairs with S_max == S_rand (ZeroDivisionError), matrix "
                  "alphabets >= 256 symbols with 8-bit codes, mixed code dtypes, Alignment[int] and Alignment[array, array], and "
                  "(found by UBSan, mechanism belongs to C09) semi-global align_banded with an affine penalty.",
    "design_ref": "DESIGN.md section 6, C11",
}

seq = None
align = None
fasta = None
phylo = None
Alignment = None

HOOK = [0]
_hook_failures = []
_GETITEM = []          # stack of index objects of Alignment.__getitem__ calls in progress
_ALPH = {}


# ===================================================================== invariant
def trace_problem(trace, seqlens, strict=True, allgap=True):
    """Message if `trace` breaks the trace invariant for sequences of the given lengths, else None."""
    if not isinstance(trace, np.ndarray):
        return "trace is %s, not an ndarray" % type(trace).__name__
    if trace.ndim != 2:
        return "trace has %d dimension(s), shape %s" % (trace.ndim, trace.shape)
    if trace.shape[1] != len(seqlens):
        return "trace has %d columns for %d sequences" % (trace.shape[1], len(seqlens))
    if trace.dtype.kind not in "iu":
        return "trace dtype %s is not an integer type" % trace.dtype
    if trace.size == 0:
        return None
    if trace.min() < -1:
        return "trace contains index %d < -1" % int(trace.min())
    for j, ln in enumerate(seqlens):
        col = trace[:, j]
        col = col[col != -1]
        if len(col) == 0:
            continue
        if int(col.max()) >= ln:
            return "sequence %d: index %d >= length %d" % (j, int(col.max()), ln)
        if strict and len(col) > 1 and bool((col[1:] <= col[:-1]).any()):
            return "sequence %d: indices not strictly increasing: %s" % (j, col.tolist()[:40])
    if allgap and bool((trace == -1).all(axis=1).any()):
        return "column %d consists of gaps only" % int(np.nonzero((trace == -1).all(axis=1))[0][0])
    return None


def _order_preserving(ix):
    if isinstance(ix, slice):
        return ix.step is None or ix.step > 0
    if isinstance(ix, np.ndarray) and ix.dtype == bool:
        return True
    if ix is Ellipsis:
        return True
    return False


def _post_init(res, args, kwargs):
    HOOK[0] += 1
    self = args[0]
    strict, allgap = True, True
    if _GETITEM:
        ix = _GETITEM[-1]
        if isinstance(ix, tuple):
            allgap = False
            strict = len(ix) > 0 and _order_preserving(ix[0])
        else:
            strict = _order_preserving(ix)
    try:
        lens = [len(s) for s in self.sequences]
        msg = trace_problem(self.trace, lens, strict, allgap)
    except Exception as e:  # the monitor must never break the call it observes
        msg = "invariant not evaluable: %s: %s" % (type(e).__name__, e)
    if msg:
        if _GETITEM:
            msg = "inside Alignment.__getitem__(%s): %s" % (_short(_GETITEM[-1]), msg)
        _hook_failures.append(msg)


def flush_hook(ctx):
    ctx.oracles["invariant_hook"] = HOOK[0]
    if _hook_failures:
        msg = _hook_failures[0]
        n = len(_hook_failures)
        del _hook_failures[:]
        ctx.fail("invariant_hook", "trace invariant broken for an Alignment created during this case (%d): %s" % (n, msg))


def _short(x):
    r = repr(x)
    return r if len(r) < 160 else r[:160] + "..."


def setup(ctx):
    global seq, align, fasta, phylo, Alignment
    import biotite.sequence as seq_
    import biotite.sequence.align as align_
    import biotite.sequence.align.alignment as alimod
    import biotite.sequence.io.fasta as fasta_
    import biotite.sequence.phylo as phylo_
    from vf.core import wrap_method
    seq, align, fasta, phylo = seq_, align_, fasta_, phylo_
    Alignment = alimod.Alignment
    if getattr(Alignment, "_c11_wrapped", False):
        return
    wrap_method(Alignment, "__init__", post=_post_init)
    orig_getitem = Alignment.__dict__["__getitem__"]

    def getitem(self, index):
        _GETITEM.append(index)
        try:
            return orig_getitem(self, index)
        finally:
            _GETITEM.pop()

    getitem.__name__ = "__getitem__"
    getitem.__qualname__ = orig_getitem.__qualname__
    getitem.__wrapped__ = orig_getitem
    Alignment.__getitem__ = getitem
    Alignment._c11_wrapped = True


# ===================================================================== inputs
KINDS = ["protein", "nuc", "nuc_amb", "gen_letter", "gen_char", "gen_int", "gen_wide"]
_LETTERS = "xyzwvutsrq"
_CHARS = "#@!%&+=?$^"


def alphabet_for(kind, size=None):
    """Cached alphabet object of a kind (general alphabets: `size` symbols)."""
    key = (kind, size)
    if key in _ALPH:
        return _ALPH[key]
    if kind == "protein":
        a = seq.ProteinSequence.alphabet
    elif kind == "nuc":
        a = seq.NucleotideSequence.alphabet_unamb
    elif kind == "nuc_amb":
        a = seq.NucleotideSequence.alphabet_amb
    elif kind == "gen_letter":
        a = seq.LetterAlphabet(list(_LETTERS[:size]))
    elif kind == "gen_char":
        a = seq.Alphabet(list(_CHARS[:size]))
    elif kind == "gen_int":
        a = seq.Alphabet(list(range(size)))
    elif kind in ("gen_wide", "gen_huge"):
        a = seq.Alphabet(list(range(size)))
    else:
        raise KeyError(kind)
    _ALPH[key] = a
    return a


def pick_kind(rng, kinds=None):
    kind = str(rng.choice(kinds or KINDS))
    size = None
    if kind in ("gen_letter", "gen_char", "gen_int"):
        size = int(rng.integers(2, 11))
    elif kind == "gen_wide":
        size = 300
    return kind, size


def make_seq(kind, size, codes):
    codes = np.asarray(codes, dtype=np.int64)
    if kind == "protein":
        s = seq.ProteinSequence()
    elif kind == "nuc":
        s = seq.NucleotideSequence(ambiguous=False)
    elif kind == "nuc_amb":
        s = seq.NucleotideSequence(ambiguous=True)
    else:
        s = seq.GeneralSequence(alphabet_for(kind, size))
    s.code = codes
    return s


def rand_codes(rng, kind, size, length):
    n = len(alphabet_for(kind, size))
    if kind == "gen_wide":
        # codes on both sides of the uint8 boundary
        pool = np.array([0, 1, 2, 254, 255, 256, 257, n - 1])
        return pool[rng.integers(0, len(pool), length)]
    if kind == "gen_huge":
        # codes on both sides of the int16 / uint16 boundaries
        pool = np.array([0, 1, 255, 256, 32767, 32768, 32769, 65535, 65536, n - 1])
        return pool[rng.integers(0, len(pool), length)]
    if rng.random() < 0.3:
        n = min(n, 3)        # few distinct symbols: many matches
    return rng.integers(0, n, length)


def sym_strs(s):
    """str() of every symbol of a sequence, via the alphabet's symbol tuple (independent of Alignment)."""
    symbols = s.get_alphabet().get_symbols()
    return [str(symbols[int(c)]) for c in s.code]


def rand_len(rng, ctx, lo=1):
    hi = 12 if ctx.tier == "quick" else 30
    r = rng.random()
    if r < 0.12:
        return lo
    if r < 0.8:
        return int(rng.integers(lo, min(hi, 9) + 1))
    return int(rng.integers(lo, hi + 1))


def gen_trace(rng, lens, clip=True):
    """Random valid trace (list of rows) over sequences of the given lengths; every sequence gets >= 1 column.
    Returns (rows, features)."""
    n = len(lens)
    starts, ends = [], []
    for ln in lens:
        s0 = int(rng.integers(0, ln)) if clip and rng.random() < 0.25 else 0
        e0 = int(rng.integers(s0 + 1, ln + 1)) if clip and rng.random() < 0.25 else ln
        starts.append(s0)
        ends.append(e0)
    p = float(rng.choice([0.35, 0.6, 0.8, 0.95]))
    pos = list(starts)
    rows = []
    while True:
        active = [i for i in range(n) if pos[i] < ends[i]]
        if not active:
            break
        chosen = [i for i in active if rng.random() < p]
        if not chosen:
            chosen = [active[int(rng.integers(len(active)))]]
        row = [-1] * n
        for i in chosen:
            row[i] = pos[i]
            pos[i] += 1
        rows.append(row)
    return rows, trace_features(rows, lens)


def trace_features(rows, lens):
    n = len(lens)
    f = set()
    if any(x == -1 for x in rows[0]):
        f.add("leading_gap")
    if any(x == -1 for x in rows[-1]):
        f.add("trailing_gap")
    if any(ln == 1 for ln in lens):
        f.add("length_1")
    for a, b in zip(rows, rows[1:]):
        for i in range(n):
            for j in range(n):
                if i != j and a[i] != -1 and a[j] == -1 and b[i] == -1 and b[j] != -1:
                    f.add("insertion_next_to_deletion")
    for i in range(n):
        col = [r[i] for r in rows if r[i] != -1]
        if col[0] > 0:
            f.add("clipped_start")
        if col[-1] < lens[i] - 1:
            f.add("clipped_end")
    if any(-1 in r for r in rows):
        f.add("gap")
    return f


def gen_pair_trace(rng, ctx):
    """Pairwise (reference, segment) trace as runs of M/I/D; returns (rows, ref_len, seg_len)."""
    nruns = int(rng.integers(1, 8))
    ops = []
    last = None
    for _ in range(nruns):
        op = str(rng.choice(["M", "M", "M", "I", "D"]))
        if op == last:
            op = "M" if op != "M" else str(rng.choice(["I", "D"]))
        ops.append((op, int(rng.integers(1, 5))))
        last = op
    if rng.random() < 0.05:
        # one run of 255 or more equal operations (run lengths beyond 8 bits)
        k_ = int(rng.integers(len(ops)))
        ops[k_] = (ops[k_][0], int(rng.choice([255, 256, 257, 300, 700])))
    if not any(o == "M" for o, _ in ops):
        # both sequences need an aligned symbol
        ops.insert(int(rng.integers(0, len(ops) + 1)), ("M", int(rng.integers(1, 4))))
    r0 = int(rng.integers(0, 4)) if rng.random() < 0.5 else 0       # reference offset
    s0 = int(rng.integers(1, 4)) if rng.random() < 0.4 else 0       # clipped segment start
    r, s = r0, s0
    rows = []
    for op, ln in ops:
        for _ in range(ln):
            if op == "M":
                rows.append([r, s]); r += 1; s += 1
            elif op == "I":
                rows.append([-1, s]); s += 1
            else:
                rows.append([r, -1]); r += 1
    r_tail = int(rng.integers(0, 4)) if rng.random() < 0.5 else 0
    s_tail = int(rng.integers(1, 4)) if rng.random() < 0.4 else 0
    return rows, r + r_tail, s + s_tail


def build_alignment(ctx, rng, kinds=None, nmin=2, nmax=6, same_alphabet=False, pair=False, huge_ok=False):
    """Generate sequences + trace, log them, return (alignment, rows, seqs, meta)."""
    if pair:
        rows, lr, ls = gen_pair_trace(rng, ctx)
        lens = [lr, ls]
        feats = trace_features(rows, lens)
    else:
        n = int(rng.integers(nmin, nmax + 1))
        lens = [rand_len(rng, ctx) for _ in range(n)]
        rows, feats = gen_trace(rng, lens)
    n = len(lens)
    kind, size = pick_kind(rng, kinds)
    if huge_ok and rng.random() < 0.05:
        kind, size, same_alphabet = "gen_huge", 70000, True      # codes beyond 16 bits
        ctx.op("alphabet_beyond_16_bit_codes")
    kinds_used = []
    seqs = []
    for i in range(n):
        if i and not same_alphabet and rng.random() < 0.15:
            kind, size = pick_kind(rng, kinds)       # mixed sequence types in one alignment
        kinds_used.append((kind, size))
        seqs.append(make_seq(kind, size, rand_codes(rng, kind, size, lens[i])))
    if len(seqs) > 1 and rng.random() < 0.3 and kinds_used[0] == kinds_used[1]:
        # related rows: copy what fits from the first sequence
        m = min(lens[0], lens[1])
        c = seqs[1].code.copy()
        c[:m] = seqs[0].code[:m]
        seqs[1].code = c
    dt = "int64" if rng.random() < 0.85 else "int32"
    score = None if rng.random() < 0.5 else int(rng.integers(-50, 50))
    ctx.log("alignment", {"kinds": kinds_used, "codes": [s.code.tolist() for s in seqs], "trace": rows, "dtype": dt, "score": score})
    for f in feats:
        ctx.op("trace_feature:" + f)
    ali = Alignment(seqs, np.array(rows, dtype=dt).reshape(len(rows), n), score)
    ctx.mark_nontrivial(len(rows) >= 2 and "gap" in feats)
    ctx.state((n, rows))
    return ali, rows, seqs, {"kinds": kinds_used, "features": feats, "score": score}


# ===================================================================== list models
def rows_of(ali):
    return [[int(x) for x in r] for r in ali.trace]


def model_gapped(rows, symstrs):
    n = len(symstrs)
    return ["".join(symstrs[i][r[i]] if r[i] != -1 else "-" for r in rows) for i in range(n)]


def model_renumber(rows, n):
    """Trace with the k-th shown symbol of each sequence numbered k (what strings can express)."""
    cnt = [0] * n
    out = []
    for r in rows:
        o = []
        for i in range(n):
            if r[i] == -1:
                o.append(-1)
            else:
                o.append(cnt[i]); cnt[i] += 1
        out.append(o)
    return out


def model_terminal(rows, n):
    firsts, lasts = [], []
    for i in range(n):
        pos = [k for k, r in enumerate(rows) if r[i] != -1]
        firsts.append(pos[0]); lasts.append(pos[-1])
    return max(firsts), min(lasts) + 1


def model_score(rows, codes, M, gap_penalty, terminal_penalty, straddle_is_open=True):
    """Column-by-column sum of pair scores + gap penalties (documented model of align.score)."""
    n = len(codes)
    total = 0
    for r in rows:
        for i in range(n):
            for j in range(i + 1, n):
                if r[i] != -1 and r[j] != -1:
                    total += int(M[int(codes[i][r[i]])][int(codes[j][r[j]])])
    if isinstance(gap_penalty, (tuple, list)):
        g_open, g_ext = gap_penalty
    else:
        g_open = g_ext = gap_penalty
    if terminal_penalty:
        start, stop = 0, len(rows)
    else:
        start, stop = model_terminal(rows, n)
    for i in range(n):
        for k in range(start, stop):
            if rows[k][i] == -1:
                prev_gap = k > 0 and rows[k - 1][i] == -1
                if k == start and straddle_is_open:
                    prev_gap = False
                total += g_ext if prev_gap else g_open
    return total


def model_identity(rows, codes, lens, mode):
    n = len(codes)
    matches = 0
    for r in rows:
        if -1 in r:
            continue
        c = {int(codes[i][r[i]]) for i in range(n)}
        if len(c) == 1:
            matches += 1
    if mode == "all":
        length = len(rows)
    elif mode == "not_terminal":
        start, stop = model_terminal(rows, n)
        if stop <= start:
            return None
        length = stop - start
    else:
        length = min(lens)
    return matches / length


def model_pairwise_identity(rows, codes, lens, mode):
    n = len(codes)
    out = [[0.0] * n for _ in range(n)]
    for i in range(n):
        for j in range(n):
            matches = sum(1 for r in rows if r[i] != -1 and r[j] != -1 and int(codes[i][r[i]]) == int(codes[j][r[j]]))
            if mode == "all":
                length = len(rows)
            elif mode == "not_terminal":
                start, stop = model_terminal([[r[i], r[j]] for r in rows], 2)
                if stop <= start:
                    return None
                length = stop - start
            else:
                length = min(lens[i], lens[j])
            out[i][j] = matches / length
    return out


class ModelReject(Exception):
    pass


def model_cigar(rows2, ref_codes, seg_codes, seg_len, introns, dm, hc, itg):
    """SAM semantics of write_alignment_to_cigar.  rows2: list of [ref_index, seg_index].
    Returns (op tuples [(symbol, count)], written columns, start_clip, end_clip)."""
    for a, b in introns:
        if a >= b or a < 0:
            raise ModelReject("bad intron")
    segpos = [k for k, r in enumerate(rows2) if r[1] != -1]
    first, last = segpos[0], segpos[-1]
    cols = rows2 if itg else rows2[first:last + 1]
    ops = []
    for r, s in cols:
        if r == -1 and s == -1:
            raise ModelReject("insertion and deletion in one column")
    for r, s in cols:
        in_intron = r != -1 and any(a <= r < b for a, b in introns)
        if r == -1:
            ops.append("I")
        elif s == -1:
            ops.append("N" if in_intron else "D")
        else:
            if in_intron:
                raise ModelReject("intron covers an aligned reference base")
            if dm:
                ops.append("=" if int(ref_codes[r]) == int(seg_codes[s]) else "X")
            else:
                ops.append("M")
    start_clip = rows2[first][1]
    end_clip = seg_len - rows2[last][1] - 1
    tuples = []
    for o in ops:
        if tuples and tuples[-1][0] == o:
            tuples[-1][1] += 1
        else:
            tuples.append([o, 1])
    clip = "H" if hc else "S"
    if start_clip:
        tuples.insert(0, [clip, start_clip])
    if end_clip:
        tuples.append([clip, end_clip])
    return [(o, c) for o, c in tuples], [list(c) for c in cols], start_clip, end_clip


_CIGAR_CODE = {"M": 0, "I": 1, "D": 2, "N": 3, "S": 4, "H": 5, "P": 6, "=": 7, "X": 8, "B": 9}


def py_index(lst, ix):
    """Python-list model of one index object applied along one axis; raises IndexError like numpy."""
    if isinstance(ix, slice):
        return lst[ix]
    if ix is Ellipsis:
        return list(lst)
    if isinstance(ix, np.ndarray) and ix.dtype == bool:
        if len(ix) != len(lst):
            raise IndexError("mask length")
        return [x for x, m in zip(lst, ix) if m]
    out = []
    for i in ix:
        i = int(i)
        if i < -len(lst) or i >= len(lst):
            raise IndexError(i)
        out.append(lst[i])
    return out


# ===================================================================== direct checks
def check_valid(ctx, ali, what, lens=None):
    """Direct evaluation of the invariant on an alignment the library produced or parsed."""
    ctx.oracle("produced_alignment_valid")
    msg = trace_problem(ali.trace, [len(s) for s in ali.sequences] if lens is None else lens)
    if msg:
        ctx.fail("produced_alignment_valid", "%s: %s" % (what, msg), trace=ali.trace.tolist() if isinstance(ali.trace, np.ndarray) else repr(ali.trace))


_SINGLE = {}


def _single_char(alphabet):
    k = id(alphabet)
    if k not in _SINGLE:
        _SINGLE[k] = (alphabet, all(len(str(x)) == 1 for x in alphabet.get_symbols()))
    return _SINGLE[k][1]


def check_conversions(ctx, rng, ali, rows, seqs, do_fasta=True):
    """Gapped strings, trace_from_strings, get_codes, get_symbols, str(), FASTA against the list models."""
    n = len(seqs)
    m = len(rows)
    symstrs = [sym_strs(s) for s in seqs]
    single = all(_single_char(s.get_alphabet()) for s in seqs)
    exp_gapped = model_gapped(rows, symstrs)

    ctx.op("get_gapped_sequences")
    got = ali.get_gapped_sequences()
    ctx.check(list(got) == exp_gapped, "strings_vs_model", "get_gapped_sequences differs from the column-wise model",
              got=got, expected=exp_gapped)

    ren = model_renumber(rows, n)
    if single and m > 0 and n >= 2:      # fewer than two strings are documented to be refused
        ctx.op("trace_from_strings")
        t2 = Alignment.trace_from_strings(got)
        ok = isinstance(t2, np.ndarray) and t2.dtype.kind in "iu" and t2.shape == (m, n) and t2.tolist() == ren
        ctx.check(ok, "strings_roundtrip", "trace_from_strings(get_gapped_sequences()) is not the (renumbered) trace",
                  got=t2.tolist() if isinstance(t2, np.ndarray) else repr(t2), expected=ren)
        # the parsed trace with the displayed symbols gives the same strings again
        shown = []
        for i in range(n):
            idx = [r[i] for r in rows if r[i] != -1]
            shown.append(seqs[i].copy(seqs[i].code[np.array(idx, dtype=np.int64)]))
        again = Alignment(shown, t2).get_gapped_sequences()
        ctx.check(list(again) == exp_gapped, "strings_roundtrip", "re-created alignment prints differently",
                  got=again, expected=exp_gapped)

    ctx.op("get_codes")
    codes = align.get_codes(ali)
    exp_codes = [[int(seqs[i].code[r[i]]) if r[i] != -1 else -1 for r in rows] for i in range(n)]
    ok = isinstance(codes, np.ndarray) and codes.shape == (n, m) and codes.dtype.kind == "i" and codes.tolist() == exp_codes
    ctx.check(ok, "codes_vs_model", "get_codes differs from the model", got=codes.tolist(), expected=exp_codes)

    ctx.op("get_symbols")
    symbols = align.get_symbols(ali)
    exp_sym = []
    for i in range(n):
        alph = seqs[i].get_alphabet().get_symbols()
        exp_sym.append([alph[int(seqs[i].code[r[i]])] if r[i] != -1 else None for r in rows])
    ok = len(symbols) == n and all(list(a) == b for a, b in zip(symbols, exp_sym))
    ctx.check(ok, "symbols_vs_model", "get_symbols differs from the model", got=symbols, expected=exp_sym)

    if single:
        ctx.op("str")
        lines = str(ali).split("\n")
        blocks = [[] for _ in range(n)]
        k = 0
        for ln in lines:
            if ln == "":
                continue
            blocks[k % n].append(ln)
            k += 1
        ctx.check(["".join(b) for b in blocks] == exp_gapped or m == 0, "str_vs_model",
                  "str(alignment) does not spell the gapped sequences", got=lines, expected=exp_gapped)

    if do_fasta and m > 0:
        classes = []
        for s in seqs:
            if isinstance(s, seq.ProteinSequence):
                classes.append(seq.ProteinSequence)
            elif isinstance(s, seq.NucleotideSequence):
                classes.append(seq.NucleotideSequence)
            else:
                classes.append(None)
        if None not in classes:
            check_fasta(ctx, rng, ali, rows, seqs, classes, exp_gapped, ren)


def check_fasta(ctx, rng, ali, rows, seqs, classes, exp_gapped, ren):
    n = len(seqs)
    names = ["seq%d" % i for i in range(n)]
    if rng.random() < 0.3:
        names = ["%s|%d some description" % ("xyz"[i % 3], i) for i in range(n)]
    cpl = int(rng.choice([80, 80, 1, 3, 7, 60]))
    through_text = rng.random() < 0.6
    same_class = len(set(classes)) == 1
    seq_type = classes[0] if (same_class and rng.random() < 0.75) else None
    ctx.log("fasta", {"names": names, "chars_per_line": cpl, "text": bool(through_text), "seq_type": seq_type.__name__ if seq_type else None})
    ctx.op("fasta.set_alignment")
    f = fasta.FastaFile(chars_per_line=cpl)
    if rng.random() < 0.1:
        ctx.oracle("fasta_name_count_checked")
        try:
            fasta.set_alignment(f, ali, names[:-1])
        except ValueError as e:
            ctx.exc(e)
        else:
            ctx.fail("fasta_name_count_checked", "set_alignment accepted %d names for %d sequences" % (n - 1, n))
        f = fasta.FastaFile(chars_per_line=cpl)
    fasta.set_alignment(f, ali, names)
    if through_text:
        buf = io.StringIO()
        f.write(buf)
        f = fasta.FastaFile.read(io.StringIO(buf.getvalue()))
    ctx.op("fasta.get_alignment")
    try:
        back = fasta.get_alignment(f, seq_type=seq_type) if (seq_type is not None or rng.random() < 0.5) \
            else fasta.get_alignment(f)
    except ValueError as e:
        # only the guessing path may give up (mixed protein rows that fit neither alphabet cannot occur here)
        ctx.exc(e)
        ctx.fail("fasta_roundtrip", "get_alignment raised %r" % (e,))
    ctx.oracle("fasta_roundtrip")
    if list(f.keys()) != names:
        ctx.fail("fasta_roundtrip", "FASTA headers %r != names %r" % (list(f.keys()), names))
    if not (isinstance(back.trace, np.ndarray) and back.trace.tolist() == ren):
        ctx.fail("fasta_roundtrip", "trace after FASTA round trip differs", got=np.asarray(back.trace).tolist(), expected=ren)
    if back.score is not None:
        ctx.fail("fasta_roundtrip", "score %r invented by get_alignment" % (back.score,))
    for i in range(n):
        shown = exp_gapped[i].replace("-", "")
        b = back.sequences[i]
        if seq_type is None and not isinstance(b, classes[i]):
            ctx.note("fasta_guess_gave_other_class")      # documented guess
            continue
        if not isinstance(b, classes[i]) or str(b) != shown:
            ctx.fail("fasta_roundtrip", "sequence %d after FASTA round trip: %r, displayed symbols %r" % (i, b, shown))
    check_valid(ctx, back, "fasta.get_alignment result")
    # other gap characters in the file (several at once): the same alignment must come back
    if rng.random() < 0.35:
        chars = [("_", "."), (".", "_"), ("_",), (".", "~", "_")][int(rng.integers(4))]
        f2 = fasta.FastaFile(chars_per_line=cpl)
        for k, (name, row) in enumerate(f.items()):
            f2[name] = "".join((chars[(k + j) % len(chars)] if ch == "-" and (k + j) % 3 else ch) for j, ch in enumerate(row))
        agc = chars if rng.random() < 0.5 else "".join(chars)
        ctx.log("fasta_additional_gap_chars", list(chars))
        ctx.op("fasta.get_alignment[additional_gap_chars]")
        try:
            back2 = fasta.get_alignment(f2, additional_gap_chars=agc, seq_type=seq_type) if seq_type is not None \
                else fasta.get_alignment(f2, additional_gap_chars=agc)
        except ValueError as e:
            ctx.fail("fasta_roundtrip", "get_alignment(additional_gap_chars=%r) raised %r" % (agc, e))
        ctx.oracle("fasta_roundtrip")
        if not (isinstance(back2.trace, np.ndarray) and back2.trace.tolist() == ren):
            ctx.fail("fasta_roundtrip", "trace differs when gaps are written with additional gap characters %r" % (agc,),
                     got=np.asarray(back2.trace).tolist(), expected=ren)


def case_conv(rng, ctx):
    ali, rows, seqs, meta = build_alignment(ctx, rng, huge_ok=True)
    check_valid(ctx, ali, "driver-built alignment (generator audit)")
    check_conversions(ctx, rng, ali, rows, seqs)
    # an alignment owns its list of sequences: neither the list passed by the caller nor the list of an
    # alignment derived from it (slice, gap removal) may be the same object
    if rng.random() < 0.4:
        ctx.oracle("sequence_list_not_shared")
        ctx.op("alignment_list_independence")
        given = list(seqs)
        a1 = align.Alignment(given, np.asarray(ali.trace).copy())
        before = [str(x) if all(isinstance(y, str) for y in x.symbols) else list(x.symbols) for x in a1.sequences]
        shown = a1.get_gapped_sequences() if all(_single_char(x.get_alphabet()) for x in seqs) else None
        given.reverse()
        given.pop()
        sub = a1[:max(1, len(a1.trace) // 2)]
        if len(sub.sequences) == len(a1.sequences) and len(a1.sequences) > 0:
            sub.sequences[0] = sub.sequences[-1]
        # gap removal of an alignment that has no gap column is a derivation like any other
        nog = a1[(np.asarray(a1.trace) != -1).all(axis=1)]
        rg = align.remove_gaps(nog)
        nog_before = (list(nog.sequences), np.asarray(nog.trace).copy(), nog.score)
        if len(rg.sequences) > 1:
            rg.sequences[0] = rg.sequences[-1]
        rg.score = -12345
        if [x is y for x, y in zip(nog.sequences, nog_before[0])] != [True] * len(nog_before[0]) or nog.score != nog_before[2] \
                or not np.array_equal(nog.trace, nog_before[1]):
            ctx.fail("sequence_list_not_shared", "editing the result of remove_gaps() on a gap-free alignment changed the alignment it was derived from")
        after = [str(x) if all(isinstance(y, str) for y in x.symbols) else list(x.symbols) for x in a1.sequences]
        if after != before or (shown is not None and a1.get_gapped_sequences() != shown):
            ctx.fail("sequence_list_not_shared", "changing the list passed to Alignment() / the sequence list of a slice changed the alignment",
                     before=before, after=after)


# ===================================================================== CIGAR
def deletion_runs(rows2):
    """Maximal runs of reference indices whose segment entry is a gap: list of (first_ref, last_ref)."""
    runs, cur = [], None
    for r, s in rows2:
        if s == -1 and r != -1:
            if cur is not None and cur[1] == r - 1:
                cur[1] = r
            else:
                if cur is not None:
                    runs.append(tuple(cur))
                cur = [r, r]
        else:
            if cur is not None:
                runs.append(tuple(cur))
                cur = None
    if cur is not None:
        runs.append(tuple(cur))
    return runs


def gen_introns(rng, rows2):
    runs = deletion_runs(rows2)
    introns = []
    for a, b in runs:
        if rng.random() < 0.7:
            x = int(rng.integers(a, b + 1))
            y = int(rng.integers(x + 1, b + 2))
            introns.append((x, y))
    return introns


def cigar_cycle(ctx, ali, rows2, ref, seg, ri, si, introns, dm, hc, itg, as_string, introns_arg):
    """One write/read cycle of the CIGAR converter against the model."""
    try:
        exp_ops, cols, c0, c1 = model_cigar(rows2, ref.code, seg.code, len(seg), introns, dm, hc, itg)
        reject = None
    except ModelReject as e:
        reject = str(e)
    ctx.op("write_alignment_to_cigar")
    kwargs = dict(reference_index=ri, segment_index=si, introns=introns_arg, distinguish_matches=dm,
                  hard_clip=hc, include_terminal_gaps=itg, as_string=as_string)
    from vf.core import drop_defaults
    kwargs = drop_defaults(ctx, kwargs, dict(reference_index=0, segment_index=1, introns=(), distinguish_matches=False,
                                             hard_clip=False, include_terminal_gaps=False, as_string=True))
    if reject is not None:
        ctx.oracle("cigar_rejects_invalid")
        try:
            res = align.write_alignment_to_cigar(ali, **kwargs)
        except ValueError as e:
            ctx.exc(e)
            return
        ctx.fail("cigar_rejects_invalid", "write_alignment_to_cigar accepted an input the documentation rejects (%s): %s"
                 % (reject, _short(res)), options={k: _short(v) for k, v in kwargs.items()})
    cigar = align.write_alignment_to_cigar(ali, **kwargs)
    ctx.oracle("cigar_ops_vs_model")
    if as_string:
        exp = "".join("%d%s" % (c, o) for o, c in exp_ops)
        if not isinstance(cigar, str) or cigar != exp:
            ctx.fail("cigar_ops_vs_model", "CIGAR %r, column-wise model %r" % (cigar, exp), options=_short(kwargs))
    else:
        exp = [[_CIGAR_CODE[o], c] for o, c in exp_ops]
        arr = np.asarray(cigar)
        if arr.ndim != 2 or arr.shape[1] != 2 or arr.tolist() != exp:
            ctx.fail("cigar_ops_vs_model", "CIGAR tuples %s, column-wise model %s" % (arr.tolist(), exp), options=_short(kwargs))
    # ---- read back
    position = next((r for r, s in cols if r != -1), 0)
    if hc:
        seg_read = seg[c0:len(seg) - c1]
        shift = c0
    else:
        seg_read, shift = seg, 0
    exp_trace = [[r, (s - shift) if s != -1 else -1] for r, s in cols]
    ctx.op("read_alignment_from_cigar")
    back = align.read_alignment_from_cigar(cigar, position, ref, seg_read)
    ctx.oracle("cigar_roundtrip")
    bt = back.trace
    if not (isinstance(bt, np.ndarray) and bt.ndim == 2 and bt.tolist() == exp_trace):
        ctx.fail("cigar_roundtrip", "trace after CIGAR %s round trip differs" % _short(cigar),
                 got=np.asarray(bt).tolist(), expected=exp_trace, position=position, options=_short(kwargs))
    if as_string and not hc and (c0 >= 2 or c1 >= 2) and isinstance(cigar, str):
        # the same alignment as a SAM record would carry it when the outer part of each clipped end was hard clipped and the
        # inner part soft clipped (e.g. 4H3S10M2S5H): the hard-clipped bases are not in the sequence that is given
        import re as _re
        h0 = (1 + (c0 + len(cols)) % (c0 - 1)) if c0 >= 2 else 0
        h1 = (1 + (c1 + 2 * len(cols)) % (c1 - 1)) if c1 >= 2 else 0
        body = cigar
        if c0 > 0:
            body = _re.sub(r"^%dS" % c0, ("%dH" % h0 if h0 else "") + "%dS" % (c0 - h0), body)
        if c1 > 0:
            body = _re.sub(r"%dS$" % c1, "%dS" % (c1 - h1) + ("%dH" % h1 if h1 else ""), body)
        seg_mixed = seg[h0:len(seg) - h1]
        ctx.op("read_alignment_from_cigar[hard+soft clip]")
        back2 = align.read_alignment_from_cigar(body, position, ref, seg_mixed)
        exp2 = [[r, (s_ - h0) if s_ != -1 else -1] for r, s_ in cols]
        if np.asarray(back2.trace).tolist() != exp2:
            ctx.fail("cigar_roundtrip", "trace read from %s (hard and soft clips at one end) differs from the one read from %s"
                     % (_short(body), _short(cigar)), got=np.asarray(back2.trace).tolist(), expected=exp2)
    if len(back.sequences) != 2 or back.sequences[0] is not ref and not (back.sequences[0] == ref):
        ctx.fail("cigar_roundtrip", "reference sequence changed by the CIGAR reader")
    if not np.array_equal(back.sequences[1].code, seg_read.code):
        ctx.fail("cigar_roundtrip", "segment sequence changed by the CIGAR reader")
    # the aligned symbols are the same as in the source alignment
    src = [(int(ref.code[r]) if r != -1 else -1, int(seg.code[s]) if s != -1 else -1) for r, s in cols]
    got = [(int(ref.code[r]) if r != -1 else -1, int(seg_read.code[s]) if s != -1 else -1) for r, s in bt.tolist()]
    if src != got:
        ctx.fail("cigar_roundtrip", "aligned symbols after CIGAR round trip differ", got=got, expected=src)
    check_valid(ctx, back, "read_alignment_from_cigar result")


def cigar_grid(ctx, rng, ali, rows2, ref, seg, ri=0, si=1, full=True):
    introns = gen_introns(rng, rows2)
    ctx.log("cigar_grid", {"reference_index": ri, "segment_index": si, "introns": introns, "full": bool(full)})
    combos = [(dm, hc, itg, use_in, as_s) for dm in (False, True) for hc in (False, True) for itg in (False, True)
              for use_in in (False, True) for as_s in (True, False)]
    if not full:
        combos = [combos[int(k)] for k in rng.choice(len(combos), 4, replace=False)]
    for dm, hc, itg, use_in, as_s in combos:
        ins = introns if use_in else []
        if use_in:
            arg = list(ins) if rng.random() < 0.7 else tuple(ins)
        else:
            arg = [(), None, []][int(rng.integers(3))]
        cigar_cycle(ctx, ali, rows2, ref, seg, ri, si, ins, dm, hc, itg, as_s, arg)
    if introns:
        ctx.op("cigar_with_introns")


def cigar_invalid_introns(ctx, rng, ali, rows2, ref, seg):
    """Introns the documentation rejects: empty/reversed, negative, covering an aligned reference base."""
    aligned = [r for r, s in rows2 if r != -1 and s != -1]
    # trimmed columns only (terminal segment gaps are dropped without include_terminal_gaps)
    segpos = [k for k, r in enumerate(rows2) if r[1] != -1]
    inner = [r for r, s in rows2[segpos[0]:segpos[-1] + 1] if r != -1 and s != -1]
    cands = [[(3, 3)], [(4, 2)], [(-2, 1)]]
    if inner:
        a = int(inner[int(rng.integers(len(inner)))])
        cands.append([(a, a + 1)])
        cands.append([(max(0, a - 1), a + 2)])
    bad = cands[int(rng.integers(len(cands)))]
    itg = bool(rng.random() < 0.5)
    ctx.log("cigar_invalid_introns", bad, itg)
    cigar_cycle(ctx, ali, rows2, ref, seg, 0, 1, bad, False, False, itg, True, bad)


def case_cigar(rng, ctx):
    if rng.random() < 0.75:
        ali, rows, seqs, meta = build_alignment(ctx, rng, pair=True)
        cigar_grid(ctx, rng, ali, rows, seqs[0], seqs[1])
        cigar_invalid_introns(ctx, rng, ali, rows, seqs[0], seqs[1])
        # swapped roles through reference_index / segment_index
        sw = [[r[1], r[0]] for r in rows]
        cigar_grid(ctx, rng, ali, sw, seqs[1], seqs[0], ri=1, si=0, full=False)
    else:
        # two rows of a multiple alignment: a column that is a gap in both is documented to be refused
        ali, rows, seqs, meta = build_alignment(ctx, rng, nmin=3, nmax=5)
        n = len(seqs)
        ri, si = [int(x) for x in rng.choice(n, 2, replace=False)]
        rows2 = [[r[ri], r[si]] for r in rows]
        if any(r == [-1, -1] for r in rows2):
            ctx.op("cigar_pair_with_double_gap")
        cigar_grid(ctx, rng, ali, rows2, seqs[ri], seqs[si], ri=ri, si=si, full=False)


# ===================================================================== helpers
def rand_matrix(rng, kind, size):
    """(SubstitutionMatrix, score rows as nested list) for sequences of one alphabet."""
    alph = alphabet_for(kind, size)
    n = len(alph)
    if kind == "protein" and rng.random() < 0.6:
        key = "std_protein"
        if key not in _ALPH:
            _ALPH[key] = align.SubstitutionMatrix.std_protein_matrix()
        m = _ALPH[key]
    elif kind == "nuc" and rng.random() < 0.6:
        key = "std_nuc"
        if key not in _ALPH:
            _ALPH[key] = align.SubstitutionMatrix.std_nucleotide_matrix()
        m = _ALPH[key]
    else:
        a = rng.integers(-6, 7, (n, n))
        if rng.random() < 0.7:
            a = np.minimum(a, a.T)
        m = align.SubstitutionMatrix(alph, alph, a.astype(np.int32))
        return m, a.tolist()
    # the std matrices may use a larger alphabet than the sequences: look entries up by symbol
    a1 = list(m.get_alphabet1().get_symbols())
    sm = m.score_matrix()
    if list(alph.get_symbols()) != a1[:n]:
        return rand_matrix_forced(rng, alph)
    return m, sm.tolist()


def rand_matrix_forced(rng, alph):
    n = len(alph)
    a = rng.integers(-6, 7, (n, n))
    a = np.minimum(a, a.T)
    return align.SubstitutionMatrix(alph, alph, a.astype(np.int32)), a.tolist()


def rand_penalty(rng, strict=False):
    lo = 1 if strict else 0
    if rng.random() < 0.5:
        return -int(rng.integers(lo, 13))
    return (-int(rng.integers(lo, 13)), -int(rng.integers(lo, 7)))


def check_helpers(ctx, rng, ali, rows, seqs, kind, size):
    n = len(seqs)
    lens = [len(s) for s in seqs]
    codes = [s.code for s in seqs]

    # ---- remove_gaps
    ctx.op("remove_gaps")
    exp = [r for r in rows if -1 not in r]
    res = align.remove_gaps(ali)
    ctx.check(res.trace.tolist() == exp and res.trace.ndim == 2 and len(res.sequences) == n
              and all(a is b or a == b for a, b in zip(res.sequences, seqs)) and res.score == ali.score,
              "remove_gaps_vs_model", "remove_gaps differs from the model", got=np.asarray(res.trace).tolist(), expected=exp)
    ctx.check(ali.trace.tolist() == rows, "source_untouched", "remove_gaps changed its argument")

    # ---- terminal gaps
    ctx.op("find_terminal_gaps")
    start, stop = model_terminal(rows, n)
    got = align.find_terminal_gaps(ali)
    ctx.check(tuple(int(x) for x in got) == (start, stop), "terminal_gaps_vs_model",
              "find_terminal_gaps %r, model %r" % (got, (start, stop)))
    ctx.op("remove_terminal_gaps")
    ctx.oracle("terminal_gaps_vs_model")
    try:
        res = align.remove_terminal_gaps(ali)
    except ValueError as e:
        ctx.exc(e)
        if not stop < start:
            ctx.fail("terminal_gaps_vs_model", "remove_terminal_gaps raised although the sequences overlap (%d:%d): %s" % (start, stop, e))
    else:
        if stop < start:
            ctx.fail("terminal_gaps_vs_model", "remove_terminal_gaps returned %s for non-overlapping sequences (%d:%d)"
                     % (res.trace.tolist(), start, stop))
        if res.trace.tolist() != rows[start:stop] or len(res.sequences) != n:
            ctx.fail("terminal_gaps_vs_model", "remove_terminal_gaps differs from rows[%d:%d]" % (start, stop),
                     got=res.trace.tolist(), expected=rows[start:stop])

    # ---- identities
    for mode in ("all", "not_terminal", "shortest"):
        ctx.op("get_sequence_identity[%s]" % mode)
        exp = model_identity(rows, codes, lens, mode)
        ctx.oracle("identity_vs_model")
        try:
            got = align.get_sequence_identity(ali, mode=mode)
        except ValueError as e:
            ctx.exc(e)
            if exp is not None:
                ctx.fail("identity_vs_model", "get_sequence_identity(%s) raised %s, model %r" % (mode, e, exp))
        else:
            if exp is None or abs(float(got) - exp) > 1e-12:
                ctx.fail("identity_vs_model", "get_sequence_identity(%s) = %r, model %r" % (mode, got, exp))
        ctx.op("get_pairwise_sequence_identity[%s]" % mode)
        exp = model_pairwise_identity(rows, codes, lens, mode)
        ctx.oracle("pairwise_identity_vs_model")
        try:
            got = align.get_pairwise_sequence_identity(ali, mode=mode)
        except ValueError as e:
            ctx.exc(e)
            if exp is not None:
                ctx.fail("pairwise_identity_vs_model", "get_pairwise_sequence_identity(%s) raised %s" % (mode, e), expected=exp)
        else:
            g = np.asarray(got, dtype=float)
            if exp is None or g.shape != (n, n) or not np.allclose(g, np.array(exp), rtol=0, atol=1e-12):
                ctx.fail("pairwise_identity_vs_model", "get_pairwise_sequence_identity(%s) differs from the model" % mode,
                         got=g.tolist(), expected=exp)
    ctx.oracle("identity_mode_checked")
    try:
        align.get_sequence_identity(ali, mode="everything")
    except ValueError as e:
        ctx.exc(e)
    else:
        ctx.fail("identity_mode_checked", "unknown identity mode accepted")

    # ---- score
    matrix, M = rand_matrix(rng, kind, size)
    for _ in range(2):
        gp = rand_penalty(rng)
        tp = bool(rng.random() < 0.5)
        as_list = isinstance(gp, tuple) and rng.random() < 0.2
        ctx.log("score", {"matrix": M if len(M) <= 15 else "std", "gap_penalty": gp, "terminal_penalty": tp})
        ctx.op("score[%s,%s]" % ("affine" if isinstance(gp, tuple) else "linear", "terminal" if tp else "no_terminal"))
        got = align.score(ali, matrix, list(gp) if as_list else gp, tp)
        e1 = model_score(rows, codes, M, gp, tp, True)
        e2 = model_score(rows, codes, M, gp, tp, False)
        ctx.oracle("score_vs_model")
        if int(got) != e1 and not (n > 2 and int(got) == e2):
            ctx.fail("score_vs_model", "score() = %r, column-wise recomputation %r" % (got, e1), gap_penalty=gp, terminal_penalty=tp)
        if e1 != e2:
            ctx.note("score_straddling_gap_run_undocumented")
    # the documented defaults: gap_penalty=-10, terminal_penalty=True
    ctx.op("score[defaults]")
    got = align.score(ali, matrix)
    e1, e2 = model_score(rows, codes, M, -10, True, True), model_score(rows, codes, M, -10, True, False)
    if int(got) != e1 and not (n > 2 and int(got) == e2):
        ctx.fail("score_vs_model", "score() with default arguments = %r, column-wise recomputation with gap_penalty=-10, terminal_penalty=True %r" % (got, e1))
    ctx.check(ali.trace.tolist() == rows, "source_untouched", "a helper changed its argument")


def case_helpers(rng, ctx):
    kind, size = pick_kind(rng, ["protein", "nuc", "nuc_amb", "gen_letter", "gen_char", "gen_int"])
    ali, rows, seqs, meta = build_alignment(ctx, rng, kinds=[kind], nmin=2, nmax=5, same_alphabet=True,
                                            pair=bool(rng.random() < 0.25))
    kind, size = meta["kinds"][0]
    check_helpers(ctx, rng, ali, rows, seqs, kind, size)
    # an excerpt (column slice) in which one row consists of gaps only: every column of it lies before that sequence starts
    # or after it ends, so no column is free of terminal gaps - the reported range is empty
    nrow = len(seqs)
    for i in range(nrow):
        col = [r[i] for r in rows]
        lead = next((k for k, v in enumerate(col) if v != -1), len(col))
        trail = len(col) - 1 - next((k for k, v in enumerate(reversed(col)) if v != -1), len(col))
        spans = [(0, lead)] if lead >= 1 else []
        if trail < len(col) - 1:
            spans.append((trail + 1, len(col)))
        for a, b in spans:
            sub = ali[a:b]
            if not any(any(v != -1 for v in r) for r in rows[a:b]):
                continue
            ctx.op("find_terminal_gaps[row_of_gaps_only]")
            ctx.oracle("terminal_gaps_vs_model")
            got = align.find_terminal_gaps(sub)
            if not int(got[1]) <= int(got[0]):
                ctx.fail("terminal_gaps_vs_model", "find_terminal_gaps of an excerpt whose row %d has no symbol returned the non-empty range %r"
                         % (i, tuple(int(x) for x in got)), excerpt=rows[a:b])
            break


# ===================================================================== slicing
def gen_axis_index(rng, length, allow_reorder):
    """(index object, description, order_preserving) for one axis of `length` entries."""
    kind = str(rng.choice(["slice", "slice", "mask", "array", "list", "full"]))
    if kind == "full":
        return slice(None), ("slice", None, None, None), True
    if kind == "slice":
        def b():
            return None if rng.random() < 0.3 else int(rng.integers(-length - 2, length + 3))
        step = None
        if rng.random() < 0.4:
            step = int(rng.choice([1, 2, 3])) if not (allow_reorder and rng.random() < 0.3) else int(rng.choice([-1, -2]))
        s = slice(b(), b(), step)
        return s, ("slice", s.start, s.stop, s.step), (step is None or step > 0)
    if kind == "mask":
        m = rng.random(length) < float(rng.choice([0.3, 0.6, 0.9]))
        return m, ("mask", m.tolist()), True
    k = int(rng.integers(0, length + 1))
    if allow_reorder and rng.random() < 0.3:
        idx = rng.integers(-length, length, k)          # unsorted, possibly repeated, negative
        preserving = False
    else:
        idx = np.sort(rng.permutation(length)[:k])
        preserving = True
        if rng.random() < 0.3 and k:
            # negative spelling of the same sorted positions
            idx = np.where(rng.random(k) < 0.5, idx - length, idx)
    if kind == "list":
        return [int(i) for i in idx], ("list", [int(i) for i in idx]), preserving
    dt = str(rng.choice(["int64", "int32", "int16"]))
    return idx.astype(dt), ("array", dt, [int(i) for i in idx]), preserving


def check_getitem(ctx, ali, rows, seqs, index, desc, expect_rows, expect_seqs, what):
    ctx.op("getitem:" + what)
    ctx.oracle("getitem_vs_model")
    res = ali[index]
    tr = res.trace
    exp = np.array(expect_rows, dtype=np.int64).reshape(len(expect_rows), len(expect_seqs))
    if not (isinstance(tr, np.ndarray) and tr.shape == exp.shape and np.array_equal(tr, exp)):
        ctx.fail("getitem_vs_model", "alignment[%s] trace differs from the list model" % (desc,),
                 got=np.asarray(tr).tolist(), got_shape=list(np.shape(tr)), expected=exp.tolist())
    if len(res.sequences) != len(expect_seqs) or any(a is not b for a, b in zip(res.sequences, expect_seqs)):
        ctx.fail("getitem_vs_model", "alignment[%s] selects other sequences than the list model" % (desc,),
                 got=[repr(s) for s in res.sequences], expected=[repr(s) for s in expect_seqs])
    if res.score != ali.score:
        ctx.fail("getitem_vs_model", "alignment[%s] changed the score" % (desc,))
    if ali.trace.tolist() != rows or len(ali.sequences) != len(seqs):
        ctx.fail("source_untouched", "indexing changed the source alignment")
    return res


def case_slicing(rng, ctx):
    ali, rows, seqs, meta = build_alignment(ctx, rng, nmin=2, nmax=6)
    n, m = len(seqs), len(rows)
    for _ in range(int(rng.integers(2, 6))):
        two_d = rng.random() < 0.55
        rix, rdesc, rpres = gen_axis_index(rng, m, allow_reorder=True)
        if not two_d:
            ctx.log("getitem", rdesc)
            exp_rows = py_index(rows, rix)
            res = check_getitem(ctx, ali, rows, seqs, rix, rdesc, exp_rows, seqs, "rows_" + rdesc[0])
            if rpres:
                check_conversions(ctx, rng, res, exp_rows, seqs, do_fasta=False)
            continue
        cix, cdesc, cpres = gen_axis_index(rng, n, allow_reorder=True)
        r_adv = not isinstance(rix, slice)
        c_adv = not isinstance(cix, slice)
        if r_adv and c_adv:
            if not ctx.allowed("getitem_two_index_arrays"):
                rix, rdesc, rpres = slice(None), ("slice", None, None, None), True
                r_adv = False
        ctx.log("getitem2", rdesc, cdesc)
        exp_seqs = py_index(seqs, cix)
        exp_rows = [py_index(r, cix) for r in py_index(rows, rix)]
        if r_adv and c_adv:
            ctx.op("getitem:two_index_arrays")
            ctx.oracle("getitem_vs_model")
            try:
                res = ali[rix, cix]
            except IndexError as e:
                ctx.exc(e)          # refusing the combination is acceptable, a wrong selection is not
                continue
            exp = np.array(exp_rows, dtype=np.int64).reshape(len(exp_rows), len(exp_seqs))
            if not (isinstance(res.trace, np.ndarray) and res.trace.shape == exp.shape and np.array_equal(res.trace, exp)):
                ctx.fail("getitem_vs_model", "alignment[%s, %s] is neither refused nor the selection of those columns and sequences"
                         % (rdesc, cdesc), got=np.asarray(res.trace).tolist(), expected=exp.tolist())
            continue
        res = check_getitem(ctx, ali, rows, seqs, (rix, cix), "%s, %s" % (rdesc, cdesc), exp_rows, exp_seqs,
                            "2d_%s_%s" % (rdesc[0], cdesc[0]))
        if rpres and exp_seqs and exp_rows and not any(all(x == -1 for x in r) for r in exp_rows) \
                and len(set(id(s) for s in exp_seqs)) == len(exp_seqs):
            strict = trace_problem(np.array(exp_rows).reshape(len(exp_rows), len(exp_seqs)), [len(s) for s in exp_seqs]) is None
            if strict:
                check_conversions(ctx, rng, res, exp_rows, exp_seqs, do_fasta=False)
    # integers are documented as invalid indices
    i = int(rng.integers(-m, m))
    j = int(rng.integers(-n, n))
    forms = [("int_in_tuple_first", (i, slice(None))), ("int_in_tuple_second", (slice(None), j)), ("int_int", (i, j)),
             ("three_indices", (slice(None), slice(None), slice(None)))]
    if ctx.allowed("getitem_bare_integer"):
        forms.append(("bare_int", i))
    name, ix = forms[int(rng.integers(len(forms)))]
    ctx.log("getitem_int", name, _short(ix))
    ctx.op("getitem:" + name)
    ctx.oracle("getitem_integer_rejected")
    try:
        res = ali[ix]
    except IndexError as e:
        ctx.exc(e)
    else:
        ctx.fail("getitem_integer_rejected", "alignment[%s] returned an Alignment with trace shape %s instead of raising IndexError "
                 "(documented: integers are invalid indices for alignments)" % (_short(ix), np.shape(res.trace)))


# ===================================================================== multiple alignment
def tree_leaf_indices(tree):
    out = []
    stack = [tree.root]
    guard = 0
    while stack:
        guard += 1
        if guard > 100000:
            raise RuntimeError("guide tree traversal does not terminate")
        node = stack.pop()
        if node.is_leaf():
            out.append(int(node.index))
        else:
            stack.extend(node.children)
    return out


def msa_problem(input_codes, input_alphabets, ali, order, tree):
    """(oracle id, message) for the first broken clause of the align_multiple contract, else None."""
    k = len(input_codes)
    tr = ali.trace
    if len(ali.sequences) != k or not isinstance(tr, np.ndarray) or tr.ndim != 2 or tr.shape[1] != k:
        return "msa_rows_equal_inputs", "%d rows / trace shape %s for %d inputs" % (len(ali.sequences), np.shape(tr), k)
    for i in range(k):
        s = ali.sequences[i]
        if not np.array_equal(np.asarray(s.code, dtype=np.int64), np.asarray(input_codes[i], dtype=np.int64)):
            return "msa_rows_equal_inputs", "row %d has symbol codes %s, input %d is %s" % (
                i, np.asarray(s.code).tolist(), i, np.asarray(input_codes[i]).tolist())
        if s.get_alphabet() != input_alphabets[i]:
            return "msa_rows_equal_inputs", "row %d has another alphabet than input %d" % (i, i)
        col = tr[:, i]
        shown = col[col != -1].tolist()
        if shown != list(range(len(input_codes[i]))):
            return "msa_rows_equal_inputs", "row %d stripped of gaps shows symbols %s of an input of length %d" % (
                i, shown, len(input_codes[i]))
    o = np.asarray(order)
    if o.ndim != 1 or sorted(int(x) for x in o) != list(range(k)):
        return "msa_order_permutation", "order %s is not a permutation of 0..%d" % (o.tolist(), k - 1)
    leaves = tree_leaf_indices(tree)
    if sorted(leaves) != list(range(k)):
        return "msa_tree_leaves", "guide tree leaves %s, expected every index 0..%d exactly once" % (sorted(leaves), k - 1)
    return None


def count_gaps_model(rows2, terminal_penalty):
    """Gap openings/extensions of a pairwise trace as documented for the Feng-Doolittle distance."""
    if not terminal_penalty:
        both = [k for k, r in enumerate(rows2) if r[0] != -1 and r[1] != -1]
        if not both:
            return 0, 0
        rows2 = rows2[both[0]:both[-1] + 1]
    n_open = n_ext = 0
    for k, r in enumerate(rows2):
        for j in (0, 1):
            if r[j] == -1:
                if k > 0 and rows2[k - 1][j] == -1:
                    n_ext += 1
                else:
                    n_open += 1
    return n_open, n_ext


def degenerate_pairs(seqs, matrix, M, gp, tp):
    """Pairs (j, i) for which the documented distance formula divides by zero: S_max == S_rand while S_ab >= S_rand.
    Uses the same deterministic align_optimal(..., max_number=1) calls the library makes (gating only, not an oracle)."""
    k = len(seqs)
    g_open, g_ext = gp if isinstance(gp, tuple) else (gp, gp)
    selfscore = [align.align_optimal(s, s, matrix, gp, tp, max_number=1)[0].score for s in seqs]
    nsym = len(M)
    counts = [np.bincount(np.asarray(s.code, dtype=np.int64), minlength=nsym) for s in seqs]
    Ma = np.asarray(M, dtype=np.int64)
    out = []
    for i in range(k):
        for j in range(i):
            a = align.align_optimal(seqs[i], seqs[j], matrix, gp, tp, max_number=1)[0]
            L = a.trace.shape[0]
            X = int(counts[i] @ Ma @ counts[j])
            n_open, n_ext = count_gaps_model(a.trace.tolist(), tp)
            G = n_open * g_open + n_ext * g_ext
            # S_rand = X/L + G ; S_max = (S_ii + S_jj)/2   (exact integer comparisons, scaled by 2L)
            rand2L = 2 * (X + G * L)
            if 2 * L * a.score >= rand2L and (selfscore[i] + selfscore[j]) * L == rand2L:
                out.append((j, i))
    return out


def rand_tree(rng, k):
    nodes = [phylo.TreeNode(index=i) for i in range(k)]
    order = list(rng.permutation(k))
    nodes = [nodes[i] for i in order]
    binary = rng.random() < 0.6
    while len(nodes) > 1:
        take = 2 if binary or len(nodes) == 2 else int(rng.integers(2, min(4, len(nodes)) + 1))
        idx = sorted((int(x) for x in rng.choice(len(nodes), take, replace=False)), reverse=True)
        ch = [nodes.pop(i) for i in idx]
        parent = phylo.TreeNode(children=ch, distances=[float(rng.integers(1, 9)) for _ in ch])
        nodes.append(parent)
    return phylo.Tree(nodes[0])


def gen_msa_inputs(rng, ctx):
    wide_ok = ctx.allowed("msa_gap_code_exceeds_code_dtype")
    r = rng.random()
    mat_size = None
    if r < 0.3:
        kind, size = "protein", None
    elif r < 0.55:
        kind, size = "nuc", None
    elif r < 0.9:
        kind, size = "gen_int", int(rng.integers(2, 13))
    else:
        kind = "gen_wide"
        # (sequence alphabet, matrix alphabet): 255 is the largest matrix alphabet whose gap code fits 8-bit codes
        choices = [(255, 255), (40, 255), (300, 300)]
        if wide_ok:
            choices += [(256, 256), (100, 300), (5, 256), (5, 257)]
        size, mat_size = choices[int(rng.integers(len(choices)))]
    alph = alphabet_for(kind, size)
    nsym = len(alph)
    # matrix
    if kind == "protein" and rng.random() < 0.7:
        if "std_protein" not in _ALPH:
            _ALPH["std_protein"] = align.SubstitutionMatrix.std_protein_matrix()
        matrix = _ALPH["std_protein"]
        M = matrix.score_matrix().tolist()
        mdesc = "std_protein"
    elif kind == "nuc" and rng.random() < 0.7:
        if "std_nuc" not in _ALPH:
            _ALPH["std_nuc"] = align.SubstitutionMatrix.std_nucleotide_matrix()
        matrix = _ALPH["std_nuc"]
        M = matrix.score_matrix().tolist()
        mdesc = "std_nucleotide"
    elif kind == "gen_wide":
        key = ("wide_matrix", mat_size)
        if key not in _ALPH:
            a = np.full((mat_size, mat_size), -3, dtype=np.int32)
            np.fill_diagonal(a, 5)
            malph = alphabet_for("gen_wide", mat_size)
            _ALPH[key] = (align.SubstitutionMatrix(malph, malph, a), a)
        matrix, a = _ALPH[key]
        M = a
        mdesc = "identity-like %dx%d (5 / -3)" % (mat_size, mat_size)
    else:
        a = rng.integers(-5, 4, (nsym, nsym))
        a = np.minimum(a, a.T)
        np.fill_diagonal(a, rng.integers(2, 9, nsym))
        matrix = align.SubstitutionMatrix(alph, alph, a.astype(np.int32))
        M = a.tolist()
        mdesc = M
    # sequences
    k = int(rng.integers(2, 9))
    mode = str(rng.choice(["identical", "mutated", "unrelated", "mixed"]))
    hi = 25
    used = min(nsym, 6) if kind == "gen_wide" else nsym

    def rl():
        x = rng.random()
        return 1 if x < 0.1 else int(rng.integers(1, 9)) if x < 0.6 else int(rng.integers(1, hi + 1))

    base = rng.integers(0, used, rl())
    if rng.random() < 0.08:
        base[:] = base[0]            # homopolymer
    codes = []
    for i in range(k):
        m_ = mode if mode != "mixed" else str(rng.choice(["identical", "mutated", "unrelated"]))
        if m_ == "identical":
            c = base.copy()
        elif m_ == "unrelated":
            c = rng.integers(0, used, rl())
        else:
            c = list(base)
            for _ in range(int(rng.integers(1, 4))):
                what = rng.random()
                p = int(rng.integers(0, len(c))) if c else 0
                if what < 0.4 and c:
                    c[p] = int(rng.integers(0, used))
                elif what < 0.7:
                    c.insert(p, int(rng.integers(0, used)))
                elif len(c) > 1:
                    del c[p]
            c = np.array(c, dtype=np.int64)
        if kind == "gen_wide" and size > 250 and rng.random() < 0.5 and len(c):
            c = np.asarray(c).copy()
            c[int(rng.integers(len(c)))] = size - 1      # a code at the top of the alphabet
        codes.append(np.asarray(c, dtype=np.int64))
    seqs = [make_seq(kind, size, c) for c in codes]
    # the same Sequence *object* may legitimately occur several times in the input list
    shared = 0
    for i in range(1, k):
        j = int(rng.integers(0, i))
        if rng.random() < 0.25 and np.array_equal(codes[i], codes[j]):
            seqs[i] = seqs[j]
            shared += 1
    if shared == 0 and rng.random() < 0.15:
        i, j = sorted(int(x) for x in rng.choice(k, size=2, replace=False))
        codes[j] = codes[i].copy()
        seqs[j] = seqs[i]
        shared = 1
    if shared:
        ctx.op("msa_same_object_repeated")
    gp = rand_penalty(rng, strict=True)
    tp = bool(rng.random() < 0.6)
    ctx.log("align_multiple", {"alphabet": [kind, size], "matrix": mdesc, "codes": [c.tolist() for c in codes],
                               "gap_penalty": gp, "terminal_penalty": tp, "mode": mode,
                               "same_object": [[i, j] for i in range(k) for j in range(i) if seqs[i] is seqs[j]]})
    ctx.op("msa_alphabet:" + kind)
    ctx.op("msa_mode:" + mode)
    ctx.op("msa_penalty:" + ("affine" if isinstance(gp, tuple) else "linear"))
    return kind, seqs, codes, matrix, M, gp, tp


def judge_msa(ctx, res, codes, alphabets, seqs, what):
    if not (isinstance(res, tuple) and len(res) == 4):
        ctx.fail("msa_rows_equal_inputs", "%s returned %s" % (what, _short(res)))
    ali, order, tree, dist = res
    ctx.oracle("msa_rows_equal_inputs"); ctx.oracle("msa_order_permutation"); ctx.oracle("msa_tree_leaves")
    p = msa_problem(codes, alphabets, ali, order, tree)
    if p:
        ctx.fail(p[0], "%s: %s" % (what, p[1]), trace=np.asarray(ali.trace).T.tolist(), order=np.asarray(order).tolist())
    ctx.oracle("msa_inputs_untouched")
    for i, s in enumerate(seqs):
        if not np.array_equal(np.asarray(s.code, dtype=np.int64), codes[i]):
            ctx.fail("msa_inputs_untouched", "%s modified input sequence %d: %s" % (what, i, np.asarray(s.code).tolist()))
    check_valid(ctx, ali, what + " result")
    if all(_single_char(s.get_alphabet()) for s in seqs):
        stripped = [g.replace("-", "") for g in ali.get_gapped_sequences()]
        exp = ["".join(sym_strs(s)) for s in seqs]
        ctx.check(stripped == exp, "msa_rows_equal_inputs", "%s: gap-stripped gapped strings differ from the inputs" % what,
                  got=stripped, expected=exp)
    d = np.asarray(dist)
    if d.shape != (len(seqs), len(seqs)):
        ctx.fail("msa_rows_equal_inputs", "%s: distance matrix shape %s" % (what, d.shape))
    return ali


def case_msa(rng, ctx):
    kind, seqs, codes, matrix, M, gp, tp = gen_msa_inputs(rng, ctx)
    k = len(seqs)
    alphabets = [s.get_alphabet() for s in seqs]
    how = str(rng.choice(["default", "default", "default", "distances", "distances_and_tree"]))
    if kind == "gen_wide" and k > 3 and how == "default":
        # the library's distance loop is quadratic in the matrix alphabet (seconds for 300 symbols and 8 sequences)
        how = "distances"
    ali = None
    if how == "default":
        degenerate = degenerate_pairs(seqs, matrix, M, gp, tp)
        if degenerate:
            ctx.op("msa_pair_with_smax_equal_srand")
        if degenerate and not ctx.allowed("msa_smax_equals_srand"):
            ctx.note("msa_quarantined_smax_equals_srand")
            how = "distances"
        else:
            ctx.log("call", "default distances", {"degenerate_pairs": degenerate})
            ctx.op("align_multiple[default]")
            try:
                res = align.align_multiple(seqs, matrix, gp, tp)
            except ValueError as e:
                # documented decline: the distance of (nearly) unrelated sequences is not computable
                ctx.exc(e)
                msg = str(e)
                known = ("randomized alignment", "contains infinity", "must be positive", "contains NaN", "must be symmetric")
                if not any(t in msg for t in known):
                    ctx.fail("msa_decline_documented", "align_multiple raised ValueError(%s)" % msg)
                ctx.note("msa_declined:" + next(t for t in known if t in msg).replace(" ", "_"))
                how = "distances"
            else:
                ali = judge_msa(ctx, res, codes, alphabets, seqs, "align_multiple(default distances)")
                ctx.mark_nontrivial()
    if how != "default":
        d = rng.integers(1, 20, (k, k)).astype(float)
        d = np.minimum(d, d.T)
        np.fill_diagonal(d, 0)
        if rng.random() < 0.2:
            d[:] = 0                  # all ties
        kwargs = {"distances": d}
        tree = None
        if how == "distances_and_tree":
            tree = rand_tree(rng, k)
            kwargs["guide_tree"] = tree
        ctx.log("call", how, {"distances": d.tolist(),
                              "tree": tree.to_newick(include_distance=False) if tree is not None else None})
        ctx.op("align_multiple[%s]" % how)
        res = align.align_multiple(seqs, matrix, gp, tp, **kwargs)
        ali = judge_msa(ctx, res, codes, alphabets, seqs, "align_multiple(%s)" % how)
        ctx.mark_nontrivial()
    if ali is not None and rng.random() < 0.5:
        rows = rows_of(ali)
        ctx.state((k, rows))
        check_conversions(ctx, rng, ali, rows, list(ali.sequences))
        if kind in ("protein", "nuc", "gen_int"):
            m2, M2 = (matrix, M)
            got = align.score(ali, m2, gp, tp)
            ctx.oracle("score_vs_model")
            e1 = model_score(rows, codes, M2, gp, tp, True)
            e2 = model_score(rows, codes, M2, gp, tp, False)
            if int(got) != e1 and int(got) != e2:
                ctx.fail("score_vs_model", "score(MSA) = %r, column-wise recomputation %r" % (got, e1))


# ===================================================================== pairwise producers
def case_pairwise(rng, ctx):
    kind, size = pick_kind(rng, ["protein", "nuc", "gen_int", "gen_letter"])
    l1, l2 = rand_len(rng, ctx), rand_len(rng, ctx)
    c1 = rand_codes(rng, kind, size, l1)
    if rng.random() < 0.5:
        # a related second sequence: a window of the first plus noise
        a = int(rng.integers(0, l1))
        c2 = list(c1[a:a + l2]) or [int(c1[0])]
        if rng.random() < 0.5 and len(c2) > 1:
            del c2[int(rng.integers(len(c2)))]
        if rng.random() < 0.5:
            c2.insert(int(rng.integers(len(c2) + 1)), int(rand_codes(rng, kind, size, 1)[0]))
        c2 = np.array(c2)
    else:
        c2 = rand_codes(rng, kind, size, l2)
    s1, s2 = make_seq(kind, size, c1), make_seq(kind, size, c2)
    l1, l2 = len(s1), len(s2)
    matrix, M = rand_matrix(rng, kind, size)
    gp = rand_penalty(rng, strict=True)
    fn = str(rng.choice(["optimal_global", "optimal_semiglobal", "optimal_local", "banded", "banded_local",
                         "local_gapped", "local_ungapped", "ungapped", "evalue"]))
    maxn = int(rng.choice([1, 3, 1000]))
    ctx.log("pairwise", {"fn": fn, "alphabet": [kind, size], "codes": [c1.tolist(), c2.tolist()],
                         "matrix": M if len(M) <= 15 else "std", "gap_penalty": gp, "max_number": maxn})
    ctx.op("producer:" + fn)
    if fn.startswith("optimal"):
        res = align.align_optimal(s1, s2, matrix, gp, terminal_penalty=(fn == "optimal_global"),
                                  local=(fn == "optimal_local"), max_number=maxn)
    elif fn.startswith("banded"):
        if fn == "banded" and isinstance(gp, tuple) and not ctx.allowed("banded_semiglobal_affine"):
            gp = gp[0]           # quarantined class: semi-global banded alignment with an affine penalty
            ctx.note("banded_semiglobal_affine_quarantined")
            ctx.log("gap_penalty_used", gp)
        d = int(rng.integers(-l1 + 1, l2))
        w = int(rng.integers(0, 6))
        ctx.log("band", [d - w, d + w])
        res = align.align_banded(s1, s2, matrix, (d - w, d + w), gp, local=(fn == "banded_local"), max_number=maxn)
    elif fn == "local_gapped":
        seed = (int(rng.integers(l1)), int(rng.integers(l2)))
        thr = int(rng.integers(1, 30))
        direction = str(rng.choice(["both", "upstream", "downstream"]))
        ctx.log("seed", seed, thr, direction)
        res = align.align_local_gapped(s1, s2, matrix, seed, thr, gp, max_number=maxn, direction=direction)
    elif fn == "local_ungapped":
        seed = (int(rng.integers(l1)), int(rng.integers(l2)))
        thr = int(rng.integers(1, 30))
        direction = str(rng.choice(["both", "upstream", "downstream"]))
        ctx.log("seed", seed, thr, direction)
        res = [align.align_local_ungapped(s1, s2, matrix, seed, thr, direction)]
    elif fn == "ungapped":
        m = min(l1, l2)
        s1, s2 = s1[:m], s2[:m]
        res = [align.align_ungapped(s1, s2, matrix)]
    else:
        # EValueEstimator sampling: its local alignments only pass through the hook
        alph = alphabet_for("nuc")
        key = "std_nuc"
        if key not in _ALPH:
            _ALPH[key] = align.SubstitutionMatrix.std_nucleotide_matrix()
        state = np.random.get_state()
        np.random.seed(int(rng.integers(2**31)))
        try:
            est = align.EValueEstimator.from_samples(alph, _ALPH[key], gp, np.array([0.2, 0.3, 0.3, 0.2]),
                                                     sample_length=int(rng.integers(5, 25)), sample_size=6)
        finally:
            np.random.set_state(state)
        ctx.oracle("evalue_sampling_ran")
        return
    ctx.check(isinstance(res, list) and len(res) >= 1 and all(isinstance(a, Alignment) for a in res),
              "returns_alignments", "%s returned %s" % (fn, _short(res)))
    for a in res[:4]:
        check_valid(ctx, a, fn + " result")
        tr = a.trace
        rows = rows_of(a)
        if len(a.sequences) != 2 or a.sequences[0] is not s1 and not (a.sequences[0] == s1) or not (a.sequences[1] == s2):
            ctx.fail("produced_alignment_valid", "%s result does not carry the two input sequences" % fn)
        # aligners produce consecutive indices
        for j in (0, 1):
            col = [r[j] for r in rows if r[j] != -1]
            if col and col != list(range(col[0], col[0] + len(col))):
                ctx.fail("produced_alignment_valid", "%s result skips symbols of sequence %d: %s" % (fn, j, col))
        if len(rows) == 0:
            ctx.note("zero_column_alignment")
            continue
        ctx.mark_nontrivial(len(rows) >= 2 and any(-1 in r for r in rows))
        ctx.state((2, rows))
        seqs = [s1, s2]
        check_conversions(ctx, rng, a, rows, seqs)
        if all(any(r[j] != -1 for r in rows) for j in (0, 1)):
            cigar_grid(ctx, rng, a, rows, s1, s2, full=False)
            check_helpers_light(ctx, a, rows, seqs)


def check_helpers_light(ctx, ali, rows, seqs):
    n = len(seqs)
    ctx.op("find_terminal_gaps")
    got = align.find_terminal_gaps(ali)
    ctx.check(tuple(int(x) for x in got) == model_terminal(rows, n), "terminal_gaps_vs_model",
              "find_terminal_gaps %r, model %r" % (got, model_terminal(rows, n)))
    ctx.op("remove_gaps")
    res = align.remove_gaps(ali)
    exp = [r for r in rows if -1 not in r]
    ctx.check(res.trace.tolist() == exp, "remove_gaps_vs_model", "remove_gaps differs from the model",
              got=res.trace.tolist(), expected=exp)


# ===================================================================== dispatch
_CASES = {
    "conv": case_conv,
    "cigar": case_cigar,
    "helpers": case_helpers,
    "slicing": case_slicing,
    "msa": case_msa,
    "pairwise": case_pairwise,
}


def run_case(stratum, rng, ctx):
    del _hook_failures[:]
    del _GETITEM[:]
    _CASES[stratum](rng, ctx)
    flush_hook(ctx)


# ===================================================================== oracle audit
def selftest(ctx):
    """Audit of the list models and of the invariant on tiny literal / exhaustive cases."""
    # -- invariant
    good = np.array([[0, -1], [1, 0], [-1, 1], [2, 2]])
    assert trace_problem(good, [3, 3]) is None
    assert trace_problem(np.zeros((0, 2), dtype=int), [3, 3]) is None
    assert "strictly" in trace_problem(np.array([[0, 0], [0, 1]]), [3, 3])
    assert "strictly" in trace_problem(np.array([[1, 0], [-1, 1], [0, 2]]), [3, 3])
    assert "gaps only" in trace_problem(np.array([[0, 0], [-1, -1], [1, 1]]), [3, 3])
    assert ">= length" in trace_problem(np.array([[0, 0], [3, 1]]), [3, 3])
    assert "dimension" in trace_problem(np.array([0, 1]), [3, 3])
    assert "columns" in trace_problem(np.array([[0], [1]]), [3, 3])
    assert "< -1" in trace_problem(np.array([[0, -2]]), [3, 3])
    assert trace_problem(np.array([[1, 0], [0, 1]]), [3, 3], strict=False) is None
    assert trace_problem(np.array([[0, 0], [-1, -1]]), [3, 3], allgap=False) is None
    # the hook really fires and really sees a broken trace
    before = HOOK[0]
    s = seq.NucleotideSequence("ACG")
    Alignment([s, s], np.array([[0, 0], [0, 1]]))
    assert HOOK[0] == before + 1 and _hook_failures and "strictly" in _hook_failures[-1]
    del _hook_failures[:]
    a = Alignment([s, s], good)
    assert not _hook_failures
    a[1:3]
    a[:, [0]]
    assert not _hook_failures, _hook_failures

    # -- selection model against numpy on every slice / mask / small index list of a 4-row trace
    rows = [[0, -1, 0], [1, 0, -1], [-1, 1, 1], [2, 2, 2]]
    arr = np.array(rows)
    vals = [None, -5, -4, -2, -1, 0, 1, 3, 4, 6]
    for st in vals:
        for sp in vals:
            for step in (None, 1, 2, -1, -2):
                sl = slice(st, sp, step)
                assert py_index(rows, sl) == arr[sl].tolist()
                assert [py_index(r, slice(st, sp, step)) for r in rows] == arr[:, sl].reshape(4, -1).tolist()
    for bits in range(16):
        m = np.array([bool(bits >> k & 1) for k in range(4)])
        assert py_index(rows, m) == arr[m].tolist()
    for ix in ([], [0], [3, 0], [-1, -4, 2, 2], [1, 1]):
        assert py_index(rows, ix) == arr[np.array(ix, dtype=int)].tolist()
        assert py_index(rows, np.array(ix, dtype=np.int16)) == arr[np.array(ix, dtype=int)].tolist()
    for bad in ([4], [-5]):
        try:
            py_index(rows, bad)
        except IndexError:
            pass
        else:
            raise AssertionError("py_index accepted %r" % bad)

    # -- strings / renumbering
    assert model_gapped([[1, -1], [2, 0]], [list("ACG"), list("T")]) == ["CG", "-T"]
    assert model_renumber([[1, -1], [3, 0], [-1, 4]], 2) == [[0, -1], [1, 0], [-1, 1]]

    # -- terminal gaps: docstring example of find_terminal_gaps
    tr = np.transpose([
        (0, 1, 2, 3, 4, 5, 6, 7, 8, 9, 10, 11, -1, -1, -1),
        (-1, -1, 0, 1, 2, 3, 4, 5, -1, 6, 7, 8, 9, -1, -1),
        (-1, -1, -1, -1, -1, 0, 1, 2, 3, 4, 5, 6, 7, 8, 9)]).tolist()
    assert model_terminal(tr, 3) == (5, 12)

    # -- score / identity, hand computed
    # A C - T
    # A G G T      match 5, mismatch -4
    M = [[5, -4, -4, -4], [-4, 5, -4, -4], [-4, -4, 5, -4], [-4, -4, -4, 5]]
    r2 = [[0, 0], [1, 1], [-1, 2], [2, 3]]
    c2 = [[0, 1, 3], [0, 2, 2, 3]]
    assert model_score(r2, c2, M, -7, True) == 5 - 4 - 7 + 5
    assert model_score(r2, c2, M, (-7, -2), True) == -1
    # terminal gaps: - A C      / G A -   window is column 1 only
    r3 = [[-1, 0], [0, 1], [1, -1]]
    c3 = [[0, 1], [2, 0]]
    assert model_terminal(r3, 2) == (1, 2)
    assert model_score(r3, c3, M, -7, True) == 5 - 14
    assert model_score(r3, c3, M, -7, False) == 5
    # affine run of two gaps, terminal
    r4 = [[0, 0], [1, -1], [2, -1]]
    c4 = [[0, 1, 2], [0]]
    assert model_score(r4, c4, M, (-7, -2), True) == 5 - 7 - 2
    assert model_score(r4, c4, M, (-7, -2), False) == 5
    assert model_identity(r2, c2, [3, 4], "all") == 2 / 4
    assert model_identity(r2, c2, [3, 4], "shortest") == 2 / 3
    assert model_identity(r2, c2, [3, 4], "not_terminal") == 2 / 4
    assert model_identity([[0, -1], [-1, 0]], [[0], [0]], [1, 1], "not_terminal") is None
    pid = model_pairwise_identity(r2, c2, [3, 4], "shortest")
    assert pid[0][1] == pid[1][0] == 2 / 3 and pid[0][0] == 3 / 3 and pid[1][1] == 4 / 4
    # three rows, straddling run: both variants are computed
    r5 = [[0, -1, 0], [1, -1, 1], [2, 0, 2]]
    c5 = [[0, 0, 0], [0], [0, 0, 0]]
    assert model_terminal(r5, 3) == (2, 3)
    assert model_score(r5, c5, M, (-7, -2), False) == 5 * 2 + 5 * 3

    # -- CIGAR model against the documented examples of write_alignment_to_cigar
    ref = "TATAAAAGGTTTCCGACCGTAGGTAGCTGA"
    seg = "CCCCGGTTTGACCGTATGTAG"
    code = {"A": 0, "C": 1, "G": 2, "T": 3}
    rc, sc = [code[x] for x in ref], [code[x] for x in seg]
    rows = [[i, -1] for i in range(3)] + [[3 + i, i] for i in range(9)] + [[12, -1], [13, -1]] \
        + [[14 + i, 9 + i] for i in range(12)] + [[26 + i, -1] for i in range(4)]

    def cig(**kw):
        args = dict(introns=[], dm=False, hc=False, itg=False)
        args.update(kw)
        ops, cols, c0, c1 = model_cigar(rows, rc, sc, len(seg), args["introns"], args["dm"], args["hc"], args["itg"])
        return "".join("%d%s" % (c, o) for o, c in ops), cols, c0, c1
    assert cig()[0] == "9M2D12M"
    assert cig(introns=[(12, 14)])[0] == "9M2N12M"
    assert cig(dm=True)[0] == "4X5=2D7=1X4="
    assert cig(itg=True)[0] == "3D9M2D12M4D"
    assert cig()[1] == rows[3:26]
    local = [[7 + i, 4 + i] for i in range(5)] + [[12, -1], [13, -1]] + [[14 + i, 9 + i] for i in range(12)]
    ops, cols, c0, c1 = model_cigar(local, rc, sc, len(seg), [], False, False, False)
    assert "".join("%d%s" % (c, o) for o, c in ops) == "4S5M2D12M" and (c0, c1) == (4, 0)
    ops, cols, c0, c1 = model_cigar(local, rc, sc, len(seg), [], False, True, False)
    assert "".join("%d%s" % (c, o) for o, c in ops) == "4H5M2D12M"
    for bad in ([(3, 3)], [(-1, 2)], [(8, 9)]):
        try:
            model_cigar(local, rc, sc, len(seg), bad, False, False, False)
        except ModelReject:
            pass
        else:
            raise AssertionError("model_cigar accepted introns %r" % bad)
    try:
        model_cigar([[0, 0], [-1, -1], [1, 1]], rc, sc, len(seg), [], False, False, False)
    except ModelReject:
        pass
    else:
        raise AssertionError("double gap accepted")
    assert deletion_runs(rows) == [(0, 2), (12, 13), (26, 29)]

    # -- MSA contract checker: accepts a correct result, names each broken clause
    class _N:
        def __init__(self, index=None, children=()):
            self.index, self.children = index, children

        def is_leaf(self):
            return not self.children

    class _T:
        def __init__(self, root):
            self.root = root
    s0, s1_ = seq.NucleotideSequence("ACG"), seq.NucleotideSequence("AG")
    alph = [s0.get_alphabet(), s1_.get_alphabet()]
    okali = Alignment([s0.copy(), s1_.copy()], np.array([[0, 0], [1, -1], [2, 1]]))
    tree = _T(_N(children=(_N(0), _N(1))))
    codes = [s0.code.copy(), s1_.code.copy()]
    assert msa_problem(codes, alph, okali, np.array([1, 0]), tree) is None
    assert msa_problem(codes, alph, okali, np.array([1, 1]), tree)[0] == "msa_order_permutation"
    assert msa_problem(codes, alph, okali, np.array([1, 0]), _T(_N(children=(_N(0), _N(0)))))[0] == "msa_tree_leaves"
    assert msa_problem(codes, alph, okali, np.array([1, 0]), _T(_N(children=(_N(0), _N(1), _N(2)))))[0] == "msa_tree_leaves"
    swapped = Alignment([s1_.copy(), s0.copy()], np.array([[0, 0], [-1, 1], [1, 2]]))
    assert msa_problem(codes, alph, swapped, np.array([1, 0]), tree)[0] == "msa_rows_equal_inputs"
    short = Alignment([s0.copy(), s1_.copy()], np.array([[0, 0], [1, 1]]))
    assert msa_problem(codes, alph, short, np.array([1, 0]), tree)[0] == "msa_rows_equal_inputs"
    wrong = Alignment([s0.copy(), seq.NucleotideSequence("AT")], np.array([[0, 0], [1, -1], [2, 1]]))
    assert msa_problem(codes, alph, wrong, np.array([1, 0]), tree)[0] == "msa_rows_equal_inputs"
    assert msa_problem(codes + [codes[0]], alph + [alph[0]], okali, np.array([1, 0]), tree)[0] == "msa_rows_equal_inputs"
    del _hook_failures[:]

    # -- gap counting / degenerate distance predicate
    assert count_gaps_model([[0, -1], [1, 0], [2, -1], [3, -1]], True) == (2, 1)
    assert count_gaps_model([[0, -1], [1, 0], [2, -1], [3, -1]], False) == (0, 0)
    assert count_gaps_model([[-1, 0], [0, 1], [-1, 2], [-1, 3], [1, 4]], False) == (1, 1)
    nm = align.SubstitutionMatrix.std_nucleotide_matrix()
    Mn = nm.score_matrix().tolist()
    a1 = [seq.NucleotideSequence("A"), seq.NucleotideSequence("A")]
    assert degenerate_pairs(a1, nm, Mn, -10, True) == [(0, 1)]
    a2 = [seq.NucleotideSequence("ACGT"), seq.NucleotideSequence("ACGA")]
    assert degenerate_pairs(a2, nm, Mn, -10, True) == []
    del _hook_failures[:]


# ===================================================================== probes (one trigger class each)
def _probe_smax_equals_srand(ctx):
    """align_multiple with default distances on sets that contain a pair with S_max == S_rand
    (identical single-symbol or homopolymer sequences): the documented outcomes are an alignment or ValueError."""
    nm = align.SubstitutionMatrix.std_nucleotide_matrix()
    pm = align.SubstitutionMatrix.std_protein_matrix()
    sets = [
        (nm, [seq.NucleotideSequence(x) for x in ("A", "A")], -10, True),
        (nm, [seq.NucleotideSequence(x) for x in ("T", "C", "T")], -3, True),
        (nm, [seq.NucleotideSequence(x) for x in ("AAAA", "AAAA", "ACGT")], (-5, -1), False),
        (pm, [seq.ProteinSequence(x) for x in ("W", "W", "WKL")], -10, True),
    ]
    for matrix, seqs, gp, tp in sets:
        codes = [np.asarray(s.code, dtype=np.int64).copy() for s in seqs]
        ctx.log("align_multiple", [str(s) for s in seqs], gp, tp)
        ctx.op("probe_align_multiple")
        deg = degenerate_pairs(seqs, matrix, matrix.score_matrix().tolist(), gp, tp)
        ctx.check(len(deg) > 0, "probe_is_in_trigger_class", "probe input has no pair with S_max == S_rand")
        ctx.oracle("msa_identical_sequences_aligned")
        try:
            res = align.align_multiple(seqs, matrix, gp, tp)
        except ValueError as e:
            ctx.exc(e)
            continue
        except ZeroDivisionError as e:
            ctx.exc(e)
            ctx.fail("msa_identical_sequences_aligned",
                     "align_multiple(%s) raised ZeroDivisionError(%s): S_max == S_rand for pair %s is divided by"
                     % ([str(s) for s in seqs], e, deg[0]))
        judge_msa(ctx, res, codes, [s.get_alphabet() for s in seqs], seqs, "align_multiple(default distances)")
    flush_hook(ctx)


def _wide_case(n_seq_sym, n_mat_sym, codes_list):
    salph = alphabet_for("gen_wide", n_seq_sym)
    malph = alphabet_for("gen_wide", n_mat_sym)
    a = np.full((n_mat_sym, n_mat_sym), -3, dtype=np.int32)
    np.fill_diagonal(a, 5)
    matrix = align.SubstitutionMatrix(malph, malph, a)
    seqs = []
    for c in codes_list:
        s = seq.GeneralSequence(salph)
        s.code = np.array(c, dtype=np.int64)
        seqs.append(s)
    return matrix, seqs


def _probe_gap_code_exceeds_code_dtype(ctx):
    """Matrix alphabet with >= 256 symbols while the sequence codes are 8 bit: the neutral gap symbol code
    (= len(matrix alphabet)) does not fit the code dtype."""
    codes_list = [[3, 2, 2, 1, 1, 0], [0, 0, 0, 3, 2, 3, 2], [2, 3, 2, 2, 2]]
    d = np.array([[0, 3, 1], [3, 0, 2], [1, 2, 0]], dtype=float)
    for n_seq_sym, n_mat_sym in ((255, 255), (100, 300), (256, 256), (5, 256), (5, 257)):
        matrix, seqs = _wide_case(n_seq_sym, n_mat_sym, codes_list)
        codes = [np.array(c, dtype=np.int64) for c in codes_list]
        ctx.log("align_multiple", {"sequence_alphabet": n_seq_sym, "matrix_alphabet": n_mat_sym, "codes": codes_list})
        ctx.op("probe_align_multiple")
        ctx.oracle("msa_rows_equal_inputs")
        try:
            res = align.align_multiple(seqs, matrix, -2, True, distances=d)
        except Exception as e:
            ctx.exc(e)
            ctx.fail("msa_rows_equal_inputs", "align_multiple with a %d-symbol matrix alphabet and %d-symbol sequence alphabet "
                     "raised %s: %s" % (n_mat_sym, n_seq_sym, type(e).__name__, e))
        judge_msa(ctx, res, codes, [s.get_alphabet() for s in seqs], seqs,
                  "align_multiple(matrix alphabet %d, sequence alphabet %d)" % (n_mat_sym, n_seq_sym))
    flush_hook(ctx)


def _probe_mixed_code_dtypes(ctx):
    """Sequences whose alphabets need different code dtypes (uint8 / uint16), both extended by the matrix alphabet."""
    small = alphabet_for("gen_wide", 5)
    big = alphabet_for("gen_wide", 300)
    m = np.full((300, 300), -3, dtype=np.int32)
    np.fill_diagonal(m, 5)
    matrix = align.SubstitutionMatrix(big, big, m)
    a = seq.GeneralSequence(small); a.code = np.array([1, 2, 3, 1])
    b = seq.GeneralSequence(big); b.code = np.array([1, 2, 299, 3, 1])
    d = np.array([[0, 1], [1, 0]], dtype=float)
    for seqs in ([b, a], [a, b]):
        codes = [np.asarray(s.code, dtype=np.int64).copy() for s in seqs]
        ctx.log("align_multiple", [str(s.code.dtype) for s in seqs], [c.tolist() for c in codes])
        ctx.op("probe_align_multiple")
        ctx.oracle("msa_rows_equal_inputs")
        try:
            res = align.align_multiple(seqs, matrix, -2, True, distances=d)
        except Exception as e:
            ctx.exc(e)
            ctx.fail("msa_rows_equal_inputs", "align_multiple on sequences with code dtypes %s (matrix alphabet extends both) raised %s: %s"
                     % ([str(s.code.dtype) for s in seqs], type(e).__name__, e))
        judge_msa(ctx, res, codes, [s.get_alphabet() for s in seqs], seqs, "align_multiple(mixed code dtypes)")
    flush_hook(ctx)


def _probe_alignment():
    s1, s2 = seq.NucleotideSequence("ACGT"), seq.NucleotideSequence("ACG")
    rows = [[0, 0], [1, 1], [2, -1], [3, 2]]
    return Alignment([s1, s2], np.array(rows)), rows, [s1, s2]


def _probe_getitem_bare_integer(ctx):
    """alignment[i] with a bare integer (alignment[i, :] is refused with 'Integers are invalid indices')."""
    ali, rows, seqs = _probe_alignment()
    for i in (1, -1, 0, np.int64(2)):
        ctx.log("getitem", repr(i))
        ctx.op("getitem:bare_int")
        ctx.oracle("getitem_integer_rejected")
        try:
            res = ali[i]
        except IndexError as e:
            ctx.exc(e)
            continue
        ctx.fail("getitem_integer_rejected", "alignment[%r] returned an Alignment with trace %s (shape %s) instead of raising "
                 "IndexError like alignment[%r, :]" % (i, np.asarray(res.trace).tolist(), np.shape(res.trace), i))
    flush_hook(ctx)


def _probe_getitem_two_index_arrays(ctx):
    """alignment[rows, sequences] where both are masks / index arrays / lists."""
    ali, rows, seqs = _probe_alignment()
    cases = [
        (np.array([True, True, False, False]), [0, 1]),
        (np.array([0, 1]), np.array([0, 1])),
        ([0, 3], np.array([True, True])),
        (np.array([True, False, True, True]), [1, 0]),
        (np.array([True, True, True, True]), [0]),
    ]
    for rix, cix in cases:
        ctx.log("getitem2", _short(rix), _short(cix))
        ctx.op("getitem:two_index_arrays")
        exp_rows = [py_index(r, cix) for r in py_index(rows, rix)]
        exp_seqs = py_index(seqs, cix)
        exp = np.array(exp_rows, dtype=np.int64).reshape(len(exp_rows), len(exp_seqs))
        ctx.oracle("getitem_vs_model")
        try:
            res = ali[rix, cix]
        except IndexError as e:
            ctx.exc(e)
            continue
        if not (isinstance(res.trace, np.ndarray) and res.trace.shape == exp.shape and np.array_equal(res.trace, exp)):
            ctx.fail("getitem_vs_model", "alignment[%s, %s] is neither refused nor the selection of those columns and sequences: "
                     "trace %s, expected %s" % (_short(rix), _short(cix), np.asarray(res.trace).tolist(), exp.tolist()))
    flush_hook(ctx)


def _probe_banded_semiglobal_affine(ctx):
    """align_banded, semi-global, affine penalty whose extension is close to the opening penalty (found by UBSan:
    the 'negative infinity' of the band border is decremented more than once and wraps)."""
    alph = alphabet_for("gen_letter", 3)
    M = [[2, -1, -1], [-1, -2, -1], [-1, -1, 0]]
    matrix = align.SubstitutionMatrix(alph, alph, np.array(M, dtype=np.int32))
    inputs = [([2], [1, 2, 1, 0], (-1, 5), (-7, -6)), ([0, 1, 2, 2], [2, 2, 1], (-2, 2), (-5, -5))]
    for c1, c2, band, gp in inputs:
        s1, s2 = make_seq("gen_letter", 3, c1), make_seq("gen_letter", 3, c2)
        ctx.log("align_banded", c1, c2, M, band, gp)
        ctx.op("probe_align_banded")
        res = align.align_banded(s1, s2, matrix, band, gp)
        for a in res:
            check_valid(ctx, a, "align_banded result")
            rows = rows_of(a)
            ctx.oracle("banded_score_honest")
            e = model_score(rows, [s1.code, s2.code], M, gp, False)
            if int(a.score) != e:
                ctx.fail("banded_score_honest", "align_banded(band=%s, gap_penalty=%s) reports score %d for an alignment that "
                         "scores %d column by column: %s" % (band, gp, int(a.score), e, rows))
    flush_hook(ctx)


PROBES = {
    "banded_semiglobal_affine": _probe_banded_semiglobal_affine,
    "msa_smax_equals_srand": _probe_smax_equals_srand,
    "msa_gap_code_exceeds_code_dtype": _probe_gap_code_exceeds_code_dtype,
    "msa_mixed_code_dtypes": _probe_mixed_code_dtypes,
    "getitem_bare_integer": _probe_getitem_bare_integer,
    "getitem_two_index_arrays": _probe_getitem_two_index_arrays,
}
