"""C04  A structure survives a CIF / BinaryCIF write-read cycle unchanged.

Monitor: every generated well-formed structure is written with set_structure to
a CIFFile (serialised to text and parsed again), a BinaryCIFFile (written to
bytes and read again) and a compress()ed BinaryCIFFile; each decoded structure
is compared field by field with the input and the three decodings with each
other.  Model and altloc strata compare get_structure(model=, altloc=) with an
independent row filter.  A synthetic component dictionary (fixtures/ccd.py) is
activated through the public set_ccd_path().
"""

import io
import os
import sys
import warnings

import numpy as np

ID = "C04"
FLAVOUR = "plain"
LEVEL = "exploration"
RULE = (
    "seeded generator of well-formed structures (rules: atom names unique inside a residue; equal residue names imply "
    "equal atom-name sets and equal intra-residue bond templates; (chain, res_id, ins_code) unique per residue; identical "
    "per-model boxes; adjacent linking residues carry their canonical C-N / O3'-P bond; a bonded structure has at least one "
    "intra-residue bond): 1-60 atoms, 1-4 models, names with quotes/primes/leading digits, U4 chain ids, negative res_ids, "
    "insertion codes, hetero flags, optional atom_id/b_factor/occupancy/charge/extra string field, intra- and inter-residue "
    "bonds x {CIF text, BinaryCIF, compressed BinaryCIF}; model/altloc strata edit label_alt_id / occupancy of a written "
    "file.  Non-trivial: more than one residue and (bonds or optional fields or several models); distinct = digest of the "
    "logged structure."
)
STRATA = {
    "roundtrip": (1500, 60000),
    "roundtrip_bonds": (1500, 60000),
    "model_select": (500, 20000),
    "altloc": (600, 24000),
}
# functions that must leave their arguments untouched (vf.core.PurityMonitor; '!' = the object itself is watched too)
PURE = [
    "biotite.structure.io.pdbx.convert:set_structure",
    "biotite.structure.filter:filter_first_altloc",
    "biotite.structure.filter:filter_highest_occupancy_altloc",
]
REQUIRED_ORACLES = ["roundtrip_fields", "roundtrip_bonds", "cross_format", "model_rows", "altloc_rows", "box_equivalent"]
ANCHORS = [
    "biotite.structure.io.pdbx.convert:set_structure",
    "biotite.structure.io.pdbx.convert:get_structure",
    "biotite.structure.io.pdbx.convert:_fill_annotations",
    "biotite.structure.io.pdbx.convert:_filter_model",
    "biotite.structure.io.pdbx.convert:_repeat",
    "biotite.structure.io.pdbx.convert:_get_box",
    "biotite.structure.io.pdbx.convert:_set_intra_residue_bonds",
    "biotite.structure.io.pdbx.convert:_parse_intra_residue_bonds",
    "biotite.structure.io.pdbx.convert:_set_inter_residue_bonds",
    "biotite.structure.io.pdbx.convert:_parse_inter_residue_bonds",
    "biotite.structure.io.pdbx.convert:_filter_canonical_links",
    "biotite.structure.io.pdbx.convert:_find_matches_by_dense_array",
    "biotite.structure.io.pdbx.convert:_find_matches_by_dict",
    "biotite.structure.filter:filter_first_altloc",
    "biotite.structure.filter:filter_highest_occupancy_altloc",
]
ASSUMPTIONS = [
    "the component dictionary is the synthetic one of fixtures/ccd.py, activated with the public set_ccd_path(); the real CCD is absent",
    "extra annotation fields are strings (get_structure documents as_array(str) for them); elements are non-empty (an empty element is guessed on reading by design)",
    "a bonded structure carries at least one intra-residue bond (otherwise no chem_comp_bond category is written and the reader documents a fall back to the dictionary)",
    "aromatic and ANY bond types are generated only inside residues: struct_conn has no aromatic flag and reads a missing order as SINGLE (format limitation, see DESIGN C04)",
    "altloc ids are letters (the documented filter treats only alphabetic ids as alternate locations)",
    "compressed BinaryCIF: float columns compared within the relative float_tolerance passed to compress()",
    "unit cells with a non-zero box-vector component below 3e-4*(a+b+c) are not generated (vectors_from_unitcell documents snapping those to zero)",
]
MIN_CASES_PER_WORKER = 25
MANIFEST = {
    "technique": "round-trip / differential oracle on generated structures x {CIF text, BinaryCIF, compressed BinaryCIF}; cross-format agreement; independent model/altloc row filter; synthetic CCD via set_ccd_path (plain build: the sanitizer runs of encoding.c and bonds.c belong to C05 and C02)",
    "level_text": "Runtime monitoring: thousands of generated well-formed structures are written and read back through the real set_structure/get_structure in three container formats; every annotation, every float32 coordinate of every model, the typed bond set (compared through unique atom ids) and the unit cell are compared with the input, the three decodings with each other, and model/altloc selections with an independent row filter.  Held-on-observed.",
    "level_note": "Trusts the generator's well-formedness rules (stated in RULE/ASSUMPTIONS), the synthetic component dictionary (validated at start against biotite's own accessors) and numpy.  The real CCD and real-world files are not covered.",
    "design_ref": "DESIGN.md section 6, C04",
}

struc = None
pdbx = None
ccdfix = None
D = None
BT = None


def setup(ctx):
    global struc, pdbx, ccdfix, D, BT
    import importlib.util
    import biotite.structure as struc_
    import biotite.structure.io.pdbx as pdbx_
    struc, pdbx = struc_, pdbx_
    _CTXREF[0] = ctx
    BT = struc.BondType
    path = os.path.join(os.path.dirname(os.path.dirname(os.path.dirname(os.path.abspath(__file__)))), "fixtures", "ccd.py")
    spec = importlib.util.spec_from_file_location("vf_fixture_ccd", path)
    ccdfix = importlib.util.module_from_spec(spec)
    spec.loader.exec_module(ccdfix)
    ccdfix.activate()
    D = ccdfix.describe()
    warnings.simplefilter("ignore")


def selftest(ctx):
    n = ccdfix.validate()
    assert n > 50
    # the independent altloc filters on a literal example
    alt = [".", "A", "B", "A", "B", "."]
    occ = [1.0, 0.3, 0.7, 0.3, 0.7, 1.0]
    res = [0, 0, 0, 0, 0, 1]
    assert ref_altloc_first(alt, res) == [0, 1, 3, 5]
    assert ref_altloc_occupancy(alt, occ, res) == [0, 2, 4, 5]


# ------------------------------------------------------------------ generator
_AWK_ATOMS = ["C1'", "O\"2", "N'A\"", "1HB", "HB''", "CA", "C", "N", "O", "X_1", "C#", "O;", "$A", "[B]", "H.", "?Q"]
_AWK_RES = ["LG1", "Q'Z", "1AB", "A\"B", "Z_9", "UNK5X", "LG", "LG11", "Lig", "LIG", "lg1"]
_COLLIDE_ATOMS = ["C1", "1H", "C11", "H", "C", "11H", "1C", "1", "H1", "C1H"]
_CHAINS = ["A", "B", "AA", "a1", "X'y", "Q\"", "1", "ZZZZ"]
_ELEMS = ["C", "N", "O", "H", "S", "FE", "ZN", "SE"]
INTRA_TYPES = [0, 1, 2, 3, 4, 5, 6, 7, 9]      # every type chem_comp_bond can carry (COORDINATION has no value_order there)
INTER_CLEAN = [1, 8]                           # SINGLE, COORDINATION: what struct_conn reads back today


def _template(rng, name, ctx):
    """(atom list [(name, element)], bond dict {(a1,a2): type}) used for every residue called `name`."""
    if name in D["chem_comp_atom"]:
        atoms = [(a["atom_id"], a["type_symbol"]) for a in D["chem_comp_atom"][name]]
        keep = max(1, int(rng.integers(1, len(atoms) + 1)))
        if name in ("ALA", "GLY", "XAA", "XDP", "XPL"):
            head = [a for a in atoms if a[0] in ("N", "CA", "C", "O")]
            rest = [a for a in atoms if a[0] not in ("N", "CA", "C", "O")]
            atoms = (head if rng.random() < 0.8 else head[: int(rng.integers(1, 5))]) + rest[: max(0, keep - 4)]
        elif name in ("A", "U", "DX"):
            head = [a for a in atoms if a[0] in ("P", "O5'", "C5'", "C4'", "C3'", "O3'")]
            rest = [a for a in atoms if a not in head]
            atoms = (head if rng.random() < 0.8 else head[: int(rng.integers(1, 7))]) + rest[: max(0, keep - 6)]
        else:
            atoms = atoms[:keep]
        names = {a[0] for a in atoms}
        bonds = {k: v for k, v in ccdfix.template_bonds(name).items() if k[0] in names and k[1] in names}
        if rng.random() < 0.3:
            bonds = {k: (int(rng.choice(INTRA_TYPES)) if rng.random() < 0.3 else v) for k, v in bonds.items() if rng.random() < 0.8}
        return atoms, bonds
    k = int(rng.integers(1, 7))
    if rng.random() < 0.35:
        # names whose concatenations collide ("C1"+"1H" == "C11"+"H", "LG"+"1C" vs "LG1"+"C"): distinct bonds
        # must stay distinct in the per-residue bond table
        nm = [str(x) for x in rng.choice(_COLLIDE_ATOMS, size=min(k + 2, len(_COLLIDE_ATOMS)), replace=False)]
        k = len(nm)
    else:
        nm = [str(x) for x in rng.choice(_AWK_ATOMS, size=k, replace=False)]
    atoms = [(a, str(rng.choice(_ELEMS))) for a in nm]
    bonds = {}
    for _ in range(int(rng.integers(0, 3 * k))):
        i, j = int(rng.integers(k)), int(rng.integers(k))
        if i != j:
            bonds[(nm[min(i, j)], nm[max(i, j)])] = int(rng.choice(INTRA_TYPES))
    return atoms, bonds


def link_class(name):
    return ccdfix.link_class(name)


def gen_structure(rng, ctx, want_bonds, max_models=4):
    """Returns dict with per-atom lists, coords (m,n,3) float32, box params, bonds {(i,j): type} or None."""
    pool_ccd = [c for c in D["order"]]
    nres = int(rng.integers(1, 9))
    templates = {}
    atoms = []          # dicts
    res_index = []
    residues = []       # (chain, res_id, ins, name, first_atom, n_atoms)
    chains = [str(c) for c in rng.choice(_CHAINS, size=int(rng.integers(1, 4)), replace=False)]
    per_chain = np.sort(rng.integers(0, len(chains), size=nres))
    last = {}
    # integer columns whose extreme values sit exactly on a signed/unsigned type boundary, next to negative values
    edge = int(rng.choice([127, 128, 129, 255, 256, 32767, 32768, 65535, 65536, 2 ** 31 - 1])) if rng.random() < 0.2 else None
    for r in range(nres):
        chain = chains[int(per_chain[r])]
        name = str(rng.choice(pool_ccd)) if rng.random() < 0.65 else str(rng.choice(_AWK_RES))
        if r > 0 and rng.random() < 0.35 and residues[-1][0] == chain:
            # favour polymers: repeat a linking residue class
            prev = residues[-1][3]
            if link_class(prev):
                name = str(rng.choice([c for c in pool_ccd if link_class(c) == link_class(prev)]))
        if name not in templates:
            templates[name] = _template(rng, name, ctx)
        if chain not in last:
            rid, ins = int(rng.integers(-30, 60)), ""
            if edge is not None:
                rid = -int(rng.integers(1, 6))
        else:
            prid, pins = last[chain]
            step = int(rng.choice([1, 1, 1, 0, 2, 7]))
            if step == 0:
                rid = prid
                ins = chr(ord(pins) + 1) if pins else "A"
            else:
                rid, ins = prid + step, ""
        last[chain] = (rid, ins)
        tat, _ = templates[name]
        het = bool(rng.random() < 0.3)
        residues.append((chain, rid, ins, name, len(atoms), len(tat)))
        for an, el in tat:
            atoms.append({"chain_id": chain, "res_id": rid, "ins_code": ins, "res_name": name, "hetero": het,
                          "atom_name": an, "element": el})
            res_index.append(r)
        if len(atoms) > 60:
            break
    if edge is not None and len(residues) > 1:
        # the last residue carries the boundary value (larger than every other id, so still unique)
        chain, _, _, name, first, cnt = residues[-1]
        residues[-1] = (chain, edge, "", name, first, cnt)
        for a in atoms[first:first + cnt]:
            a["res_id"], a["ins_code"] = edge, ""
        ctx.op("res_id_on_type_boundary")
    n = len(atoms)
    m = int(rng.integers(1, max_models + 1))
    scale = float(rng.choice([1.0, 30.0, 1000.0]))
    coords = np.float32(rng.normal(size=(m, n, 3)) * scale)
    if rng.random() < 0.2:
        coords = np.round(coords, 3)
    elif rng.random() < 0.15 and n > 1:
        # repeated values (run-length friendly), one negative value of large magnitude, one value with many decimals
        coords = np.float32(np.round(np.repeat(rng.uniform(-9, 9, size=(m, 1, 3)), n, axis=1), 2))
        coords[:, int(rng.integers(n)), int(rng.integers(3))] = np.float32(rng.choice([-312.5, -2500.25, -812.5]))
        coords[:, int(rng.integers(n)), int(rng.integers(3))] = np.float32(0.0123456)
    s = {"atoms": atoms, "coords": coords, "residues": residues, "res_index": res_index, "templates": templates}
    # optional fields
    opt = {}
    if rng.random() < 0.5:
        ids = rng.permutation(np.arange(1, n + 1) + int(rng.integers(0, 100))) if rng.random() < 0.3 else np.arange(1, n + 1) + int(rng.integers(0, 1000))
        opt["atom_id"] = np.array(ids, dtype=int)
    if rng.random() < 0.5:
        opt["b_factor"] = np.round(rng.uniform(0, 200, size=n), int(rng.integers(0, 6)))
        if rng.random() < 0.3:
            # signed values, one of large magnitude (either sign) next to values that need many decimals
            opt["b_factor"] = np.round(rng.uniform(-9, 9, size=n), int(rng.integers(3, 8)))
            opt["b_factor"][int(rng.integers(n))] = float(rng.choice([-312.5, -2500.25, 812.5, -99000.5]))
    if rng.random() < 0.5:
        opt["occupancy"] = np.round(rng.uniform(0, 1, size=n), 2)
    if rng.random() < 0.5:
        opt["charge"] = rng.integers(-3, 4, size=n).astype(int)
    if rng.random() < 0.4:
        vals = ["x", "a b", "it's", "\"q\"", "p_1", "5", "z#", "semi;colon", "data_x"]
        opt["my_field"] = np.array([str(rng.choice(vals)) for _ in range(n)])
    s["opt"] = opt
    # box
    if rng.random() < 0.5:
        a, b, c = rng.uniform(5, 120, size=3)
        if rng.random() < 0.5:
            al = be = ga = 90.0
        else:
            while True:
                al, be, ga = rng.uniform(55, 125, size=3)
                ca, cb, cg = np.cos(np.deg2rad([al, be, ga]))
                if 1 - ca * ca - cb * cb - cg * cg + 2 * ca * cb * cg > 0.05:
                    break
        # vectors_from_unitcell() documents that components below 1e-4*(a+b+c) are snapped to zero
        # ("fix numerical errors"); cells with a non-zero component in that band are not generated
        snap = 3e-4 * (a + b + c)
        ca, cb, cg = np.cos(np.deg2rad([al, be, ga]))
        sg = np.sin(np.deg2rad(ga))
        comps = [b * cg, c * cb, c * (ca - cb * cg) / sg]
        if any(0 < abs(x) < snap for x in comps) and not (al == be == ga == 90.0):
            return gen_structure(rng, ctx, want_bonds, max_models)
        s["cell"] = (float(a), float(b), float(c), float(al), float(be), float(ga))
    else:
        s["cell"] = None
    s["box_rot"] = None
    if s.get("cell") is not None and rng.random() < 0.3:
        q, _ = np.linalg.qr(rng.normal(size=(3, 3)))
        if np.linalg.det(q) < 0:
            q[:, 0] = -q[:, 0]
        s["box_rot"] = q.tolist()
        ctx.op("box_rotated_out_of_canonical_orientation")
    # bonds
    bonds = None
    if want_bonds:
        bonds = {}
        for (chain, rid, ins, name, first, cnt) in residues:
            tat, tb = templates[name]
            names = [a[0] for a in tat]
            for (a1, a2), t in tb.items():
                i, j = first + names.index(a1), first + names.index(a2)
                bonds[(min(i, j), max(i, j))] = t
        # canonical links between adjacent linking residues (what the reader re-creates)
        for r in range(len(residues) - 1):
            c1, id1, _, n1, f1, k1 = residues[r]
            c2, id2, _, n2, f2, k2 = residues[r + 1]
            if c1 != c2 or id2 - id1 > 1:
                continue
            lc1, lc2 = link_class(n1), link_class(n2)
            if lc1 is None or lc1 != lc2:
                continue
            x, y = ("C", "N") if lc1 == "peptide" else ("O3'", "P")
            nm1 = [a[0] for a in templates[n1][0]]
            nm2 = [a[0] for a in templates[n2][0]]
            if x in nm1 and y in nm2:
                t = 1
                canon = {"ALA", "GLY", "A", "U", "DA", "DG", "DC", "DT", "G", "C"}
                if (n1 not in canon or n2 not in canon) and rng.random() < 0.4:
                    # a backbone-shaped link that involves a non-standard residue is recorded in struct_conn with its own
                    # type; the reader also derives a (single) bond for it from the residue names - the recorded type wins
                    t = int(rng.choice(inter_types(ctx)))
                bonds[(f1 + nm1.index(x), f2 + nm2.index(y))] = t
        # further inter-residue bonds
        if len(residues) > 1:
            for _ in range(int(rng.integers(0, 5))):
                r1, r2 = rng.choice(len(residues), size=2, replace=False)
                r1, r2 = int(min(r1, r2)), int(max(r1, r2))
                if rng.random() < 0.25:
                    r1 = 0
                    r2 = max(r2, 1)
                i = residues[r1][4] + (0 if r1 == 0 and rng.random() < 0.7 else int(rng.integers(residues[r1][5])))
                j = residues[r2][4] + int(rng.integers(residues[r2][5]))
                if rng.random() < 0.35:
                    # a bond that shares exactly one end with the canonical link of its residue class (X-N, C-X, X-P, O3'-X)
                    cand = [r for r in range(len(residues) - 1)
                            if link_class(residues[r][3]) is not None and link_class(residues[r][3]) == link_class(residues[r + 1][3])]
                    far = [(ra, rb) for ra in range(len(residues)) for rb in range(ra + 2, len(residues))
                           if residues[ra][0] == residues[rb][0] and abs(residues[rb][1] - residues[ra][1]) <= 1
                           and link_class(residues[ra][3]) is not None and link_class(residues[ra][3]) == link_class(residues[rb][3])]
                    if far and rng.random() < 0.4:
                        # the backbone atoms of two residues that are not neighbours in the array although their residue ids
                        # differ by at most one (insertion codes 5, 5A, 5B; a residue of another kind in between): such a bond
                        # is not a standard polymer link and has to be stored
                        r1, r2 = far[int(rng.integers(len(far)))]
                        x, y = ("C", "N") if link_class(residues[r1][3]) == "peptide" else ("O3'", "P")
                        nm1 = [a[0] for a in templates[residues[r1][3]][0]]
                        nm2 = [a[0] for a in templates[residues[r2][3]][0]]
                        if x in nm1 and y in nm2:
                            i = residues[r1][4] + nm1.index(x)
                            j = residues[r2][4] + nm2.index(y)
                    elif cand:
                        r1 = int(cand[int(rng.integers(len(cand)))])
                        r2 = r1 + 1
                        x, y = ("C", "N") if link_class(residues[r1][3]) == "peptide" else ("O3'", "P")
                        nm1 = [a[0] for a in templates[residues[r1][3]][0]]
                        nm2 = [a[0] for a in templates[residues[r2][3]][0]]
                        if rng.random() < 0.5 and y in nm2:
                            i = residues[r1][4] + int(rng.integers(residues[r1][5]))
                            j = residues[r2][4] + nm2.index(y)
                        elif x in nm1:
                            i = residues[r1][4] + nm1.index(x)
                            j = residues[r2][4] + int(rng.integers(residues[r2][5]))
                if (i, j) in bonds:
                    continue
                t = int(rng.choice(inter_types(ctx)))
                if is_canonical_link_shape(s, i, j) and not ctx.allowed("canonical_link_filter_mismatch"):
                    continue
                bonds[(i, j)] = t
        intra = any(res_index[i] == res_index[j] for (i, j) in bonds)
        if not intra:
            return gen_structure(rng, ctx, want_bonds, max_models)
    s["bonds"] = bonds
    return s


_SET_DEFAULTS = dict(include_bonds=False, extra_fields=[])
_GET_DEFAULTS = dict(include_bonds=False, extra_fields=None)
_CTXREF = [None]


def _dd(kwargs, defaults):
    """Leave out keyword arguments that equal the documented defaults in every second case (vf.core.drop_defaults)."""
    from vf.core import drop_defaults
    ctx = _CTXREF[0]
    if ctx is None:
        return kwargs
    kw = dict(kwargs)
    if "extra_fields" in kw and kw["extra_fields"] is not None and len(kw["extra_fields"]) == 0 and (ctx.index or 0) % 2 == 0:
        del kw["extra_fields"]            # [] and None both mean: no optional annotation
    return drop_defaults(ctx, kw, {k: v for k, v in defaults.items() if k != "extra_fields"})


def inter_types(ctx):
    t = list(INTER_CLEAN)
    if ctx.allowed("inter_residue_bond_order"):
        t += [2, 3, 4]
    return t


def is_canonical_link_shape(s, i, j):
    """True if the writer's canonical-link filter matches bond (i<j): canonical names, C/O3' -> N/P, adjacent residues."""
    canon = {"ALA", "GLY", "A", "U", "DA", "DG", "DC", "DT", "G", "C"}
    a, b = s["atoms"][i], s["atoms"][j]
    return (a["res_name"] in canon and b["res_name"] in canon and a["atom_name"] in ("C", "O3'")
            and b["atom_name"] in ("N", "P") and s["res_index"][j] - s["res_index"][i] == 1)


def to_real(s, stack=None):
    n = len(s["atoms"])
    m = s["coords"].shape[0]
    if stack is None:
        stack = m > 1
    if stack:
        obj = struc.AtomArrayStack(m, n)
        obj.coord = s["coords"].copy()
    else:
        obj = struc.AtomArray(n)
        obj.coord = s["coords"][0].copy()
    for c, dt in (("chain_id", "U4"), ("res_id", int), ("ins_code", "U1"), ("res_name", "U5"), ("hetero", bool),
                  ("atom_name", "U6"), ("element", "U2")):
        obj.set_annotation(c, np.array([a[c] for a in s["atoms"]], dtype=dt))
    for k, v in s["opt"].items():
        obj.set_annotation(k, v.copy())
    if s["cell"] is not None:
        a, b, c, al, be, ga = s["cell"]
        box = struc.vectors_from_unitcell(a, b, c, *np.deg2rad([al, be, ga]))
        if s.get("box_rot") is not None:
            # the same cell in another orientation (a rigidly rotated system): lengths and angles are what the file stores
            box = (np.asarray(box, dtype=np.float64) @ np.asarray(s["box_rot"]).T)
        obj.box = np.repeat(box[None], m, axis=0) if stack else box
    if s["bonds"] is not None:
        arr = np.array([(i, j, t) for (i, j), t in s["bonds"].items()], dtype=np.int64).reshape(-1, 3)
        obj.bonds = struc.BondList(n, arr)
    return obj


def log_structure(ctx, s):
    ctx.log({
        "atoms": [[a["chain_id"], a["res_id"], a["ins_code"], a["res_name"], a["hetero"], a["atom_name"], a["element"]] for a in s["atoms"]],
        "models": int(s["coords"].shape[0]), "cell": s["cell"], "optional": sorted(s["opt"]),
        "bonds": None if s["bonds"] is None else sorted((i, j, t) for (i, j), t in s["bonds"].items()),
        "coord0": s["coords"][0][:3].tolist(),
    })


# ------------------------------------------------------------------ formats
FORMATS = ["cif", "bcif", "bcif_compressed"]
TOL = 1e-6
CUR = {"tol": 1e-6}      # tolerance of the compressed file of the current case


def formats(ctx, s):
    """compress() is skipped for structures in the trigger class of the open finding on fixed-point overflow."""
    if ctx.allowed("compress_fixed_point_overflow") or float(np.abs(s["coords"]).max()) < 100.0:
        return FORMATS
    return FORMATS[:2]


def _scribble(obj):
    """In-place changes of the caller's structure *after* set_structure() (the file holds the values of that moment)."""
    obj.coord[...] = obj.coord + np.float32(1000.0)
    obj.res_id[...] = obj.res_id + 7
    obj.chain_id[...] = "zz"
    if obj.box is not None:
        obj.box[...] = obj.box * np.float32(2.0)


_DECOY = {}


def _new_file(fmt):
    """An empty file object or - every fourth case - one that was parsed from an existing file whose block 'blk' holds
    another structure (atom_site only: no box, no bonds) and has been looked at: set_structure() then replaces it."""
    ctx = _CTXREF[0]
    Fcls = pdbx.CIFFile if fmt == "cif" else pdbx.BinaryCIFFile
    if ctx is None or (ctx.index or 0) % 4 != 3:
        return Fcls()
    if fmt not in _DECOY:
        d = struc.AtomArray(2)
        d.coord = np.array([[1, 2, 3], [4, 5, 6]], dtype=np.float32)
        d.chain_id[:] = "D"; d.res_id[:] = [901, 902]; d.res_name[:] = "DCY"; d.atom_name[:] = ["D1", "D2"]; d.element[:] = "C"
        g = Fcls()
        pdbx.set_structure(g, d, data_block="blk")
        if fmt == "cif":
            _DECOY[fmt] = g.serialize()
        else:
            buf = io.BytesIO(); g.write(buf); _DECOY[fmt] = buf.getvalue()
    f = pdbx.CIFFile.deserialize(_DECOY[fmt]) if fmt == "cif" else pdbx.BinaryCIFFile.read(io.BytesIO(_DECOY[fmt]))
    if (ctx.index or 0) % 8 == 3:
        _ = f["blk"]["atom_site"]["Cartn_x"].as_array(float)      # parts of the old content were accessed before
    ctx.op("set_structure_into_parsed_file")
    return f


def write_read(fmt, obj, extra, include_bonds, scribble=False):
    """set_structure -> bytes/text -> parse again.  Returns the freshly parsed file object."""
    if scribble:
        obj = obj.copy()
    if fmt == "cif":
        f = _new_file("cif")
        pdbx.set_structure(f, obj, **_dd(dict(data_block="blk", include_bonds=include_bonds, extra_fields=extra), _SET_DEFAULTS))
        if scribble:
            _scribble(obj)
        text = f.serialize()
        return pdbx.CIFFile.deserialize(text)
    f = _new_file("bcif")
    pdbx.set_structure(f, obj, **_dd(dict(data_block="blk", include_bonds=include_bonds, extra_fields=extra), _SET_DEFAULTS))
    if scribble:
        _scribble(obj)
    if fmt == "bcif_compressed":
        ctx = _CTXREF[0]
        k = (ctx.index or 0) if ctx is not None else 0
        # the tolerance is drawn per case (the default 1e-6 is sometimes left out), and the file is compressed as a whole,
        # block by block or category by category: the tolerance has to reach every column in each form
        tol = [1e-6, 1e-9, 1e-6, 1e-3, 1e-9, 1e-6][k % 6]
        CUR["tol"] = tol
        kw = {} if (tol == 1e-6 and k % 12 == 0) else {"float_tolerance": tol}
        form = k % 3
        if form == 0:
            f = pdbx.compress(f, **kw)
        else:
            g = pdbx.BinaryCIFFile()
            for bname, block in f.items():
                if form == 1:
                    g[bname] = pdbx.compress(block, **kw)
                else:
                    nb = pdbx.BinaryCIFBlock()
                    for cname, cat in block.items():
                        nb[cname] = pdbx.compress(cat, **kw)
                    g[bname] = nb
            f = g
        if ctx is not None:
            ctx.op("compress_%s_tol%g" % (["file", "block", "category"][form], tol))
    buf = io.BytesIO()
    f.write(buf)
    buf.seek(0)
    return pdbx.BinaryCIFFile.read(buf)


def _cmp_float(got, exp, fmt, name, ctx, what):
    got = np.asarray(got, dtype=np.float64)
    exp = np.asarray(exp, dtype=np.float64)
    if got.shape != exp.shape:
        ctx.fail("roundtrip_fields", "%s: %s shape %s != %s" % (what, name, got.shape, exp.shape))
    if fmt == "bcif_compressed":
        ok = np.abs(got - exp) <= CUR["tol"] * np.abs(exp) + 1e-12
    else:
        ok = got == exp
    if not ok.all():
        k = int(np.argmin(ok.ravel()))
        ctx.fail("roundtrip_fields", "%s: %s differs at %d: wrote %r read %r" % (what, name, k, exp.ravel()[k], got.ravel()[k]), fmt=fmt)


def compare_structure(ctx, got, s, fmt, what, rows=None, model=None, bonds=True):
    """got: structure read back; s: generated structure; rows: expected atom rows (default all);
    model: None (stack of all models) or 0-based model expected as AtomArray."""
    ctx.oracle("roundtrip_fields")
    n_all = len(s["atoms"])
    rows = list(range(n_all)) if rows is None else rows
    if model is None:
        if not isinstance(got, struc.AtomArrayStack):
            ctx.fail("roundtrip_fields", "%s: expected a stack, got %s" % (what, type(got).__name__))
        exp_coord = s["coords"][:, rows]
    else:
        if not isinstance(got, struc.AtomArray):
            ctx.fail("roundtrip_fields", "%s: expected an AtomArray, got %s" % (what, type(got).__name__))
        exp_coord = s["coords"][model][rows]
    if got.array_length() != len(rows):
        ctx.fail("roundtrip_fields", "%s: %d atoms read, %d expected" % (what, got.array_length(), len(rows)), fmt=fmt)
    for c in ("chain_id", "res_id", "ins_code", "res_name", "hetero", "atom_name", "element"):
        g = got.get_annotation(c).tolist()
        e = [s["atoms"][i][c] for i in rows]
        if g != e:
            k = next(k for k in range(len(e)) if g[k] != e[k])
            ctx.fail("roundtrip_fields", "%s: %s differs at atom %d: wrote %r read %r" % (what, c, k, e[k], g[k]), fmt=fmt)
    for c, v in s["opt"].items():
        if c not in got.get_annotation_categories():
            ctx.fail("roundtrip_fields", "%s: optional field %s missing after reading" % (what, c))
        g = got.get_annotation(c)
        e = v[rows]
        if c in ("b_factor", "occupancy"):
            _cmp_float(g, e, fmt, c, ctx, what)
        elif g.tolist() != e.tolist():
            k = next(k for k in range(len(e)) if g.tolist()[k] != e.tolist()[k])
            ctx.fail("roundtrip_fields", "%s: %s differs at atom %d: wrote %r read %r" % (what, c, k, e.tolist()[k], g.tolist()[k]), fmt=fmt)
    if got.coord.dtype != np.float32:
        ctx.fail("roundtrip_fields", "%s: coord dtype %s" % (what, got.coord.dtype))
    _cmp_float(got.coord, exp_coord, fmt, "coord", ctx, what)
    # box
    ctx.oracle("box_equivalent")
    if (got.box is None) != (s["cell"] is None):
        ctx.fail("box_equivalent", "%s: box presence wrote %s read %s" % (what, s["cell"] is not None, got.box is not None))
    if s["cell"] is not None:
        boxes = got.box if got.box.ndim == 3 else got.box[None]
        if model is None and boxes.shape[0] != s["coords"].shape[0]:
            ctx.fail("box_equivalent", "%s: %d boxes for %d models" % (what, boxes.shape[0], s["coords"].shape[0]))
        for b in boxes:
            b = b.astype(np.float64)
            la, lb, lc = (float(np.linalg.norm(b[k])) for k in range(3))
            ang = lambda u, v: float(np.degrees(np.arccos(np.clip(np.dot(u, v) / np.linalg.norm(u) / np.linalg.norm(v), -1, 1))))
            gotcell = (la, lb, lc, ang(b[1], b[2]), ang(b[0], b[2]), ang(b[0], b[1]))
            for k, (g, e) in enumerate(zip(gotcell, s["cell"])):
                tol = 2e-5 * e + 1e-4 if k < 3 else 2e-3
                if abs(g - e) > tol:
                    ctx.fail("box_equivalent", "%s: cell parameter %d wrote %r read %r" % (what, k, e, g), fmt=fmt)
    if bonds:
        ctx.oracle("roundtrip_bonds")
        if (got.bonds is None) != (s["bonds"] is None):
            ctx.fail("roundtrip_bonds", "%s: bonds presence wrote %s read %s" % (what, s["bonds"] is not None, got.bonds is not None))
        if s["bonds"] is not None:
            pos = {old: new for new, old in enumerate(rows)}
            exp = {(pos[i], pos[j], t) for (i, j), t in s["bonds"].items() if i in pos and j in pos}
            g = {(int(i), int(j), int(t)) for i, j, t in got.bonds.as_array()}
            if g != exp:
                def lab(k):
                    a = s["atoms"][rows[k]]
                    return "%s/%s%s/%s/%s" % (a["chain_id"], a["res_id"], a["ins_code"], a["res_name"], a["atom_name"])
                miss = sorted(exp - g)[:4]
                extra = sorted(g - exp)[:4]
                ctx.fail("roundtrip_bonds", "%s: typed bond set differs: missing %s, unexpected %s"
                         % (what, [(lab(i), lab(j), t) for i, j, t in miss], [(lab(i), lab(j), t) for i, j, t in extra]), fmt=fmt)


def case_roundtrip(rng, ctx, want_bonds):
    s = gen_structure(rng, ctx, want_bonds)
    log_structure(ctx, s)
    if len(s["residues"]) > 1 and (s["bonds"] or s["opt"] or s["coords"].shape[0] > 1):
        ctx.mark_nontrivial()
    as_stack = s["coords"].shape[0] > 1 or rng.random() < 0.3
    obj = to_real(s, stack=as_stack)
    extra = sorted(s["opt"])
    # one argument object shared by all calls, as a caller with a module-level constant would do
    shared_extra = list(extra)
    shared_write_extra = [e for e in extra if e == "my_field"]
    results = {}
    for fmt in formats(ctx, s):
        ctx.op("write_read_" + fmt)
        scribble = bool(rng.random() < 0.3)
        if scribble:
            ctx.op("caller_arrays_changed_between_set_structure_and_write")
        f = write_read(fmt, obj, shared_write_extra, want_bonds, scribble=scribble)
        # struct_conn rows are matched to atoms by a dense or a dictionary based routine depending on a size
        # threshold (module constant); both are exercised by moving the threshold from the harness
        conv = sys.modules["biotite.structure.io.pdbx.convert"]
        thr0 = conv.FIND_MATCHES_SWITCH_THRESHOLD
        use_dict = want_bonds and rng.random() < 0.5
        if use_dict:
            conv.FIND_MATCHES_SWITCH_THRESHOLD = -1
            ctx.op("struct_conn_matcher_dict")
        try:
            if as_stack:
                got = pdbx.get_structure(f, **_dd(dict(extra_fields=shared_extra, include_bonds=want_bonds), _GET_DEFAULTS))
                compare_structure(ctx, got, s, fmt, "%s stack" % fmt, bonds=want_bonds)
            else:
                got = pdbx.get_structure(f, **_dd(dict(model=1, extra_fields=shared_extra, include_bonds=want_bonds), _GET_DEFAULTS))
                compare_structure(ctx, got, s, fmt, "%s array" % fmt, model=0, bonds=want_bonds)
        finally:
            conv.FIND_MATCHES_SWITCH_THRESHOLD = thr0
        ctx.oracle("arguments_untouched")
        if shared_extra != extra or shared_write_extra != [e for e in extra if e == "my_field"]:
            ctx.fail("arguments_untouched", "the extra_fields list passed by the caller was modified: %s -> %s" % (extra, shared_extra))
        results[fmt] = got
    # the text and the binary form decode to the same structure
    ctx.oracle("cross_format")
    a, b = results["cif"], results["bcif"]

    def same(x, y, exact):
        # annotations, bonds and coordinates exactly; the box as "an equivalent box" (the cell is text-formatted
        # in CIF and float64 in BinaryCIF, which can differ in the last float32 bit after vectors_from_unitcell)
        if sorted(x.get_annotation_categories()) != sorted(y.get_annotation_categories()) or x.bonds != y.bonds:
            return False
        for c in x.get_annotation_categories():
            u, v = x.get_annotation(c), y.get_annotation(c)
            if u.dtype.kind == "f" and not exact:
                if not np.allclose(u, v, rtol=2 * max(TOL, CUR["tol"]), atol=1e-12):
                    return False
            elif u.dtype.kind != v.dtype.kind or not np.array_equal(u, v):
                return False
        if exact and not np.array_equal(x.coord, y.coord):
            return False
        if not exact and not np.allclose(x.coord, y.coord, rtol=2 * max(TOL, CUR["tol"]), atol=1e-12):
            return False
        if (x.box is None) != (y.box is None):
            return False
        return x.box is None or np.allclose(x.box, y.box, rtol=1e-5, atol=1e-4)
    if not same(a, b, True):
        ctx.fail("cross_format", "CIF and BinaryCIF decode to different structures")
    if "bcif_compressed" in results and not same(a, results["bcif_compressed"], False):
        ctx.fail("cross_format", "compressed BinaryCIF decodes to a different structure than CIF")
    # the input object was not modified by writing
    ctx.oracle("input_untouched")
    compare_structure(ctx, obj, s, "bcif", "input after writing", model=None if as_stack else 0, bonds=want_bonds)
    ctx.state((len(s["atoms"]), s["coords"].shape[0], s["cell"] is not None, want_bonds, tuple(sorted(s["opt"]))))


def case_model_select(rng, ctx):
    s = gen_structure(rng, ctx, want_bonds=bool(rng.random() < 0.5))
    while s["coords"].shape[0] < 2:
        s = gen_structure(rng, ctx, want_bonds=bool(rng.random() < 0.5))
    log_structure(ctx, s)
    ctx.mark_nontrivial()
    m = s["coords"].shape[0]
    obj = to_real(s, stack=True)
    fmt = str(rng.choice(formats(ctx, s)))
    f = write_read(fmt, obj, [e for e in s["opt"] if e == "my_field"], s["bonds"] is not None)
    if pdbx.get_model_count(f) != m:
        ctx.fail("model_rows", "get_model_count %d, wrote %d models" % (pdbx.get_model_count(f), m))
    for k in list(range(1, m + 1)) + list(range(-m, 0)):
        ctx.oracle("model_rows")
        ctx.op("get_structure_model")
        got = pdbx.get_structure(f, **_dd(dict(model=k, extra_fields=sorted(s["opt"]), include_bonds=s["bonds"] is not None), _GET_DEFAULTS))
        compare_structure(ctx, got, s, fmt, "%s model=%d" % (fmt, k), model=(k - 1 if k > 0 else m + k), bonds=s["bonds"] is not None)
    for bad in (0, m + 1, -m - 1):
        ctx.oracle("model_out_of_range_rejected")
        try:
            got = pdbx.get_structure(f, model=bad)
        except (ValueError, IndexError) as e:
            ctx.exc(e)
        else:
            ctx.fail("model_out_of_range_rejected", "model=%d of %d returned %d atoms" % (bad, m, got.array_length()))


def ref_altloc_first(alt, res):
    keep = []
    first = {}
    for i, (a, r) in enumerate(zip(alt, res)):
        if a.isalpha():
            first.setdefault(r, a)
    for i, (a, r) in enumerate(zip(alt, res)):
        if not a.isalpha() or first[r] == a:
            keep.append(i)
    return keep


def ref_altloc_occupancy(alt, occ, res):
    sums = {}
    for a, o, r in zip(alt, occ, res):
        if a.isalpha():
            sums.setdefault(r, {}).setdefault(a, 0.0)
            sums[r][a] += o
    best = {}
    for r, d in sums.items():
        top = None
        for a in sorted(d):
            if top is None or d[a] > d[top]:
                top = a
        best[r] = top
    return [i for i, (a, r) in enumerate(zip(alt, res)) if not a.isalpha() or best[r] == a]


def case_altloc(rng, ctx):
    """Edit label_alt_id / occupancy of a written file; compare each policy with the independent row filter."""
    s = gen_structure(rng, ctx, want_bonds=False, max_models=2)
    n = len(s["atoms"])
    # alternate locations: per residue either none, or a subset of atoms duplicated over 2-3 ids.
    # Rows of one atom's alternates stay adjacent; atom names inside a residue may then repeat (that is what altlocs are).
    atoms, coords_cols, alt, occ, resi = [], [], [], [], []
    ids = ["A", "B", "C"]
    for r, (chain, rid, ins, name, first, cnt) in enumerate(s["residues"]):
        mode = str(rng.choice(["none", "some", "all", "single"]))
        k = int(rng.integers(2, 4))
        if mode == "single" or rng.random() < 0.15:
            k = 1                                   # one labelled conformer only (partial occupancy without a partner)
        order = list(rng.permutation(ids[:max(k, 2)]))[:k]
        weights = rng.dirichlet(np.ones(k)).round(2)
        if rng.random() < 0.3:
            weights[:] = round(1.0 / k, 2)          # ties -> first in sorted order
        elif rng.random() < 0.12:
            weights[:] = 0.0                        # all conformations unoccupied: still exactly one of them is selected
        lone = first + int(rng.integers(cnt))       # 'single': exactly one atom of the residue carries an alternate-location id
        for i in range(first, first + cnt):
            dup = mode == "all" or (mode == "some" and rng.random() < 0.5) or (mode == "single" and i == lone)
            if dup:
                for a_id, w in zip(order, weights):
                    atoms.append(dict(s["atoms"][i])); coords_cols.append(i); alt.append(str(a_id)); occ.append(float(w)); resi.append(r)
            else:
                atoms.append(dict(s["atoms"][i])); coords_cols.append(i); alt.append("."); occ.append(1.0); resi.append(r)
    N = len(atoms)
    m = s["coords"].shape[0]
    coords = np.float32(s["coords"][:, coords_cols] + rng.normal(size=(m, N, 3)).astype(np.float32))
    s2 = {"atoms": atoms, "coords": coords, "opt": {"occupancy": np.array(occ)}, "cell": s["cell"], "bonds": None,
          "residues": s["residues"], "res_index": resi, "templates": s["templates"]}
    ctx.log({"atoms": [[a["chain_id"], a["res_id"], a["ins_code"], a["res_name"], a["atom_name"]] for a in atoms], "alt": alt, "occ": occ, "models": m})
    ctx.mark_nontrivial(any(a != "." for a in alt))
    obj = to_real(s2, stack=(m > 1))
    fmt = str(rng.choice(["cif", "bcif"]))
    Fcls = pdbx.CIFFile if fmt == "cif" else pdbx.BinaryCIFFile
    f = Fcls()
    pdbx.set_structure(f, obj, data_block="blk")
    cat = f.block["atom_site"]
    Col = type(cat).subcomponent_class()
    alt_all = np.tile(np.array(alt), m)
    mask = np.where(alt_all == ".", pdbx.MaskValue.INAPPLICABLE, pdbx.MaskValue.PRESENT).astype(np.uint8)
    cat["label_alt_id"] = Col(alt_all, mask if (mask != 0).any() else None)
    if fmt == "cif":
        f = pdbx.CIFFile.deserialize(f.serialize())
    else:
        buf = io.BytesIO(); f.write(buf); buf.seek(0)
        f = pdbx.BinaryCIFFile.read(buf)
    for policy, ref in (("first", ref_altloc_first(alt, resi)), ("occupancy", ref_altloc_occupancy(alt, occ, resi)), ("all", list(range(N)))):
        ctx.oracle("altloc_rows")
        ctx.op("get_structure_altloc_" + policy)
        got = pdbx.get_structure(f, model=None if m > 1 else 1, altloc=policy, extra_fields=["occupancy"])
        compare_structure(ctx, got, s2, fmt, "%s altloc=%s" % (fmt, policy), rows=ref, model=None if m > 1 else 0, bonds=False)
        if policy == "all":
            if got.get_annotation("altloc_id").tolist() != alt:
                ctx.fail("altloc_rows", "altloc='all': altloc_id annotation %s, wrote %s" % (got.get_annotation("altloc_id").tolist(), alt))
    ctx.oracle("altloc_invalid_rejected")
    try:
        pdbx.get_structure(f, model=1, altloc="nonsense")
    except ValueError as e:
        ctx.exc(e)
    else:
        ctx.fail("altloc_invalid_rejected", "altloc='nonsense' accepted")


def case_giant_residue(rng, ctx):
    """One residue with more atoms than 16 bits count (a nanoparticle / coarse-grained sheet stored as one component):
    intra-residue bonds are written by atom name and found again by position inside the residue."""
    n = int(rng.choice([32767, 32769, 33000, 40000]))
    if (ctx.index // 250) % 2 == 1 and n == 32767:
        n = 40000          # (atom positions only pass 15 bits beyond 32768 atoms)
    a = struc.AtomArray(n)
    a.coord = rng.uniform(-90, 90, size=(n, 3)).astype(np.float32)
    a.chain_id[:] = "A"
    a.element[:] = "C"
    lo = max(n - 7300, 0)
    if (ctx.index // 250) % 2 == 1:
        # the same number of atoms in two-atom residues, a few dozen bonds between residues (written as struct_conn rows
        # and matched against all atoms when read)
        a.res_id = np.arange(n) // 2 + 1
        a.res_name[:] = "DUO"
        a.atom_name = np.where(np.arange(n) % 2 == 0, "X1", "X2")
        pairs = np.concatenate([rng.integers(lo, n, size=(25, 2)), rng.integers(0, n, size=(15, 2)),
                                np.array([[20, n - 10], [1, 32768 % n], [32767 % n, 32770 % n]])])
        pairs = pairs[pairs[:, 0] // 2 != pairs[:, 1] // 2]
    else:
        a.res_id[:] = 1
        a.res_name[:] = "BIG"
        a.atom_name = np.array(["Z" + np.base_repr(i, 36) for i in range(n)])
        pairs = np.concatenate([rng.integers(lo, n, size=(120, 2)), rng.integers(0, n, size=(60, 2)),
                                np.array([[n - 1, n - 2], [0, n - 1], [32766 % n, 32767 % n]])])
    pairs = pairs[pairs[:, 0] != pairs[:, 1]]
    arr = np.concatenate([pairs, rng.integers(1, 4, size=(len(pairs), 1))], axis=1).astype(np.int64)
    a.bonds = struc.BondList(n, arr)
    want = {(int(i), int(j), int(t)) for i, j, t in a.bonds.as_array()}
    fmt = str(rng.choice(["cif", "bcif"]))
    ctx.log({"giant_residue": n, "format": fmt, "bonds": int(len(want))})
    ctx.op("giant_residue_" + fmt)
    ctx.mark_nontrivial()
    Fcls = pdbx.CIFFile if fmt == "cif" else pdbx.BinaryCIFFile
    f = Fcls()
    pdbx.set_structure(f, a, data_block="blk", include_bonds=True)
    if fmt == "cif":
        g = pdbx.CIFFile.deserialize(f.serialize())
    else:
        buf = io.BytesIO(); f.write(buf); buf.seek(0)
        g = pdbx.BinaryCIFFile.read(buf)
    got = pdbx.get_structure(g, model=1, include_bonds=True)
    ctx.oracle("roundtrip_fields")
    if got.array_length() != n or not np.array_equal(got.atom_name, a.atom_name) or not np.array_equal(got.coord, a.coord):
        ctx.fail("roundtrip_fields", "%s, %d atoms in %d residue(s): atoms/coordinates differ after the round trip" % (fmt, n, len(set(a.res_id.tolist()))))
    ctx.oracle("roundtrip_bonds")
    have = {(int(i), int(j), int(t)) for i, j, t in got.bonds.as_array()} if got.bonds is not None else None
    if have != want:
        miss = sorted(want - (have or set()))[:4]
        extra = sorted((have or set()) - want)[:4]
        ctx.fail("roundtrip_bonds", "%s, %d atoms in %d residue(s): typed bond set differs: missing %s, unexpected %s" % (fmt, n, len(set(a.res_id.tolist())), miss, extra))
    ctx.state(("giant_residue", n, fmt))


def case_many_models(rng, ctx):
    """A stack with more models than 8 bits count (an NMR ensemble / trajectory excerpt)."""
    m = int(rng.choice([255, 256, 257, 300]))
    n = int(rng.integers(1, 5))
    st = struc.AtomArrayStack(m, n)
    st.coord = rng.uniform(-50, 50, size=(m, n, 3)).astype(np.float32)
    st.chain_id[:] = "A"
    st.res_id = np.arange(1, n + 1)
    st.res_name[:] = "GLY"
    st.atom_name[:] = "CA"
    st.element[:] = "C"
    fmt = str(rng.choice(["cif", "bcif"]))
    ctx.log({"many_models": m, "atoms": n, "format": fmt})
    ctx.op("many_models_" + fmt)
    ctx.mark_nontrivial()
    ctx.state(("many_models", m, fmt))
    Fcls = pdbx.CIFFile if fmt == "cif" else pdbx.BinaryCIFFile
    f = Fcls()
    pdbx.set_structure(f, st, data_block="blk")
    if fmt == "cif":
        g = pdbx.CIFFile.deserialize(f.serialize())
    else:
        buf = io.BytesIO(); f.write(buf); buf.seek(0)
        g = pdbx.BinaryCIFFile.read(buf)
    ctx.oracle("model_rows")
    if pdbx.get_model_count(g) != m:
        ctx.fail("model_rows", "%s: get_model_count() = %r for a stack of %d models" % (fmt, pdbx.get_model_count(g), m))
    got = pdbx.get_structure(g, model=None)
    if not isinstance(got, struc.AtomArrayStack) or got.coord.shape != st.coord.shape or not np.array_equal(got.coord, st.coord):
        ctx.fail("model_rows", "%s: a stack of %d models x %d atoms is read back as %s %s or with other coordinates"
                 % (fmt, m, n, type(got).__name__, getattr(getattr(got, "coord", None), "shape", None)))
    for k_ in sorted({1, min(m, 255), min(m, 256), m, int(rng.integers(1, m + 1))}):
        one = pdbx.get_structure(g, model=k_)
        if not np.array_equal(one.coord, st.coord[k_ - 1]):
            ctx.fail("model_rows", "%s: get_structure(model=%d) of %d models returns other coordinates than model %d" % (fmt, k_, m, k_))
    last = pdbx.get_structure(g, model=-1)
    if not np.array_equal(last.coord, st.coord[-1]):
        ctx.fail("model_rows", "%s: get_structure(model=-1) of %d models is not the last model" % (fmt, m))


def run_case(stratum, rng, ctx):
    if stratum == "model_select" and ctx.index % 100 == 99:
        return case_many_models(rng, ctx)
    if stratum == "roundtrip":
        return case_roundtrip(rng, ctx, False)
    if stratum == "roundtrip_bonds":
        if ctx.index % 250 == 125:
            return case_giant_residue(rng, ctx)
        return case_roundtrip(rng, ctx, True)
    if stratum == "model_select":
        return case_model_select(rng, ctx)
    return case_altloc(rng, ctx)


# ------------------------------------------------------------------ probes
def _mini(names, bonds, cell=None):
    """Two/three-residue structure from a literal description: names = [(chain, res_id, res_name, [atom names])]."""
    atoms, residues, res_index = [], [], []
    for r, (chain, rid, name, ats) in enumerate(names):
        residues.append((chain, rid, "", name, len(atoms), len(ats)))
        for a in ats:
            atoms.append({"chain_id": chain, "res_id": rid, "ins_code": "", "res_name": name, "hetero": False, "atom_name": a, "element": a[0]})
            res_index.append(r)
    n = len(atoms)
    coords = np.float32(np.arange(n * 3).reshape(1, n, 3))
    return {"atoms": atoms, "coords": coords, "opt": {}, "cell": cell, "bonds": bonds, "residues": residues, "res_index": res_index, "templates": {}}


def _rt_all(ctx, s, what):
    obj = to_real(s, stack=False)
    for fmt in ("cif", "bcif"):
        f = write_read(fmt, obj, [], True)
        got = pdbx.get_structure(f, model=1, include_bonds=True)
        compare_structure(ctx, got, s, fmt, "%s (%s)" % (what, fmt), model=0)


def _probe_inter_order(ctx):
    """S07a: DOUBLE/TRIPLE/QUADRUPLE bonds between residues."""
    for t in (2, 3, 4):
        s = _mini([("A", 1, "LG1", ["C1", "C2"]), ("A", 2, "LG2", ["N1", "N2"])], {(0, 1): 1, (2, 3): 1, (1, 2): t})
        ctx.log("inter-residue bond type", t); ctx.op("probe_inter_order")
        _rt_all(ctx, s, "inter-residue bond of type %d" % t)


def _probe_inter_aromatic(ctx):
    """S07b: BondType.AROMATIC (9) between residues: the writer must not crash with KeyError."""
    s = _mini([("A", 1, "LG1", ["C1", "C2"]), ("A", 2, "LG2", ["N1", "N2"])], {(0, 1): 1, (2, 3): 1, (1, 2): 9})
    ctx.log("inter-residue AROMATIC"); ctx.op("probe_inter_aromatic")
    obj = to_real(s, stack=False)
    ctx.oracle("write_accepts_bond_type")
    try:
        f = pdbx.CIFFile()
        pdbx.set_structure(f, obj)
    except KeyError as e:
        ctx.fail("write_accepts_bond_type", "set_structure raises KeyError for an inter-residue AROMATIC bond: %r" % (e,))


def _probe_canonical_link_filter(ctx):
    """Writer drops C-N / O3'-P bonds between array-adjacent canonical residues that the reader does not re-create
    (res_id gap, different chains, incompatible link classes)."""
    cases = [
        ("res_id gap", [("A", 1, "ALA", ["N", "CA", "C", "O"]), ("A", 5, "GLY", ["N", "CA", "C", "O"])], (2, 4)),
        ("different chains", [("A", 1, "ALA", ["N", "CA", "C", "O"]), ("B", 2, "GLY", ["N", "CA", "C", "O"])], (2, 4)),
        ("peptide C to nucleotide P", [("A", 1, "ALA", ["N", "CA", "C", "O"]), ("A", 2, "U", ["P", "O5'", "C5'"])], (2, 4)),
    ]
    for what, names, link in cases:
        bonds = {(0, 1): 1, (1, 2): 1, (2, 3): 2, link: 1}
        if names[1][3][0] == "N":
            bonds.update({(4, 5): 1, (5, 6): 1, (6, 7): 2})
        else:
            bonds.update({(4, 5): 1, (5, 6): 1})
        s = _mini(names, bonds)
        ctx.log("canonical link", what); ctx.op("probe_canonical_link")
        _rt_all(ctx, s, "backbone-shaped bond, " + what)


def _probe_compress_overflow(ctx):
    """S09 seen through C04: coordinates of a few hundred Angstrom with a relative tolerance of 1e-6."""
    s = _mini([("A", 1, "LG1", ["C1", "C2"]), ("A", 2, "LG2", ["N1", "N2"])], None)
    s["coords"] = np.float32([[[652.0468, -1203.5114, 0.001234], [5.5, 123456.789, -0.25], [1.0, 2.0, 3.0], [7.125, -8.5, 900.75]]])
    ctx.log("compress", s["coords"].tolist()); ctx.op("probe_compress")
    obj = to_real(s, stack=False)
    f = write_read("bcif_compressed", obj, [], False)
    got = pdbx.get_structure(f, model=1)
    compare_structure(ctx, got, s, "bcif_compressed", "compressed BinaryCIF", model=0, bonds=False)


PROBES = {
    "compress_fixed_point_overflow": _probe_compress_overflow,
    "inter_residue_bond_order": _probe_inter_order,
    "inter_residue_aromatic": _probe_inter_aromatic,
    "canonical_link_filter_mismatch": _probe_canonical_link_filter,
}
