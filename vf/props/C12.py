"""C12  Sequence file formats return what was written.

Monitor: write/parse round trips of FASTA, FASTQ, GenBank/GenPept and GFF3 on
generated hostile inputs (oracle: equality of the parsed objects with the
originals, compared with the driver's own normalisers), and lock-step edit
histories on FastaFile / FastqFile / GenBankFile / GFFFile against dict/list
models with re-parse consistency after every step
(view(object) == view(File.read(StringIO(str(object))))).
"""

import itertools
import os
import warnings
from collections import OrderedDict
from io import StringIO

import numpy as np

ID = "C12"
FLAVOUR = "plain"
LEVEL = "exploration"
THOROUGH_MULT = 3.0       # deepens the sampled strata of the thorough tier (measured: about ten minutes on 16 cores)
RULE = (
    "seeded generator, one file (or one edit history) per case.  FASTA: 0-6 entries, headers 0-120 printable "
    "chars with > @ + ; inside/at the start and unicode, sequences nucleotide/ambiguous/protein with * /raw, "
    "lengths 0-300 forced around multiples of chars_per_line (1-100); mapping, set_sequence(s)/get_sequence(s) "
    "and write_iter/read_iter paths.  FASTQ: every named offset and integer offsets, chars_per_line None/1-100, "
    "score arrays over the whole printable range 33..126 with '@' and '+' forced at wrapped line starts, list and "
    "int8..int64 inputs.  GenBank/GenPept: annotated sequences (1-300 symbols, sequence start 1..99 999 000), "
    "0-6 features with joined/complemented/mixed-strand/single-base/<,>/^/. locations and qualifiers with spaces, "
    "/, =, empty string, None, repeated values, long values, every dict order of up to 4 qualifiers.  GFF3: "
    "entries with reserved characters % ; = & , tab, newline and unicode in seqid/source/attributes, scores, "
    "phases, ID-grouped multi-location features through set_annotation/get_annotation.  Edit histories: 1-12 "
    "operations (set, replace, delete, pop, update, clear, insert, append, set_field, directives, in-range "
    "negative and out-of-range indices, continuing on the re-parsed object).  A case is non-trivial when the "
    "file has at least one entry and contains a wrapped block, a special character, a non-plain location or "
    "qualifier, or (histories) at least one step changed the model; distinct = distinct digest of the logged "
    "inputs."
)
STRATA = {
    "fasta": (7000, 150000),
    "fastq": (7000, 150000),
    "genbank": (10000, 200000),
    "gff": (7000, 150000),
    "edit_fasta": (4500, 90000),
    "edit_fastq": (4000, 80000),
    "edit_genbank": (4500, 90000),
    "edit_gff": (4000, 80000),
    "general": (800, 10000),
}
# functions that must leave their arguments untouched (vf.core.PurityMonitor; '!' = the object itself is watched too)
PURE = [
    "biotite.sequence.io.fasta.convert:set_sequence",
    "biotite.sequence.io.fasta.convert:set_sequences",
    "biotite.sequence.io.fastq.convert:set_sequence",
    "biotite.sequence.io.fastq.convert:set_sequences",
    "biotite.sequence.io.genbank.sequence:set_sequence",
    "biotite.sequence.io.genbank.sequence:set_annotated_sequence",
    "biotite.sequence.io.genbank.annotation:set_annotation",
    "biotite.sequence.io.gff.convert:set_annotation",
]
REQUIRED_ORACLES = [
    "fasta_roundtrip", "fasta_convert_roundtrip", "fasta_iter_roundtrip",
    "fastq_roundtrip", "fastq_convert_roundtrip", "fastq_iter_roundtrip",
    "gb_sequence", "gb_sequence_start", "gb_location", "gb_qualifier", "gb_feature_dropped",
    "gff_entry_roundtrip", "gff_annotation_roundtrip",
    "edit_view_vs_model", "edit_reparse_consistency", "index_error_expected",
    "state_unchanged_after_reject", "general_roundtrip",
]
ANCHORS = [
    "biotite.file:TextFile.read",
    "biotite.file:TextFile.write",
    "biotite.file:TextFile.read_iter",
    "biotite.file:TextFile.write_iter",
    "biotite.file:wrap_string",
    "biotite.sequence.io.fasta.file:FastaFile._find_entries",
    "biotite.sequence.io.fasta.file:FastaFile.__setitem__",
    "biotite.sequence.io.fasta.file:FastaFile.__delitem__",
    "biotite.sequence.io.fasta.file:FastaFile.read_iter",
    "biotite.sequence.io.fasta.file:FastaFile.write_iter",
    "biotite.sequence.io.fasta.convert:get_sequence",
    "biotite.sequence.io.fasta.convert:get_sequences",
    "biotite.sequence.io.fasta.convert:set_sequence",
    "biotite.sequence.io.fasta.convert:set_sequences",
    "biotite.sequence.io.fastq.file:FastqFile._find_entries",
    "biotite.sequence.io.fastq.file:FastqFile.__setitem__",
    "biotite.sequence.io.fastq.file:FastqFile.__delitem__",
    "biotite.sequence.io.fastq.file:FastqFile.read_iter",
    "biotite.sequence.io.fastq.file:FastqFile.write_iter",
    "biotite.sequence.io.fastq.convert:get_sequences",
    "biotite.sequence.io.fastq.convert:set_sequences",
    "biotite.sequence.io.genbank.annotation:get_annotation",
    "biotite.sequence.io.genbank.annotation:set_annotation",
    "biotite.sequence.io.genbank.annotation:_parse_locs",
    "biotite.sequence.io.genbank.annotation:_parse_single_loc",
    "biotite.sequence.io.genbank.annotation:_convert_to_loc_string",
    "biotite.sequence.io.genbank.annotation:_set_qual",
    "biotite.sequence.io.genbank.file:GenBankFile.set_field",
    "biotite.sequence.io.genbank.file:GenBankFile.insert",
    "biotite.sequence.io.genbank.file:GenBankFile.__setitem__",
    "biotite.sequence.io.genbank.file:GenBankFile.__delitem__",
    "biotite.sequence.io.genbank.file:GenBankFile.__getitem__",
    "biotite.sequence.io.genbank.file:GenBankFile._find_field_indices",
    "biotite.sequence.io.genbank.file:GenBankFile._to_lines",
    "biotite.sequence.io.genbank.file:MultiFile.__iter__",
    "biotite.sequence.io.genbank.sequence:set_sequence",
    "biotite.sequence.io.genbank.sequence:get_annotated_sequence",
    "biotite.sequence.io.genbank.sequence:_field_to_seq_string",
    "biotite.sequence.io.genbank.sequence:_get_seq_start",
    "biotite.sequence.io.genbank.metadata:set_locus",
    "biotite.sequence.io.genbank.metadata:get_locus",
    "biotite.sequence.io.gff.file:GFFFile._create_line",
    "biotite.sequence.io.gff.file:GFFFile._parse_attributes",
    "biotite.sequence.io.gff.file:GFFFile._index_entries",
    "biotite.sequence.io.gff.file:GFFFile.insert",
    "biotite.sequence.io.gff.file:GFFFile.__setitem__",
    "biotite.sequence.io.gff.file:GFFFile.__delitem__",
    "biotite.sequence.io.gff.convert:get_annotation",
    "biotite.sequence.io.gff.convert:set_annotation",
    "biotite.sequence.io.general:save_sequence",
    "biotite.sequence.io.general:load_sequence",
    "biotite.sequence.io.general:save_sequences",
    "biotite.sequence.io.general:load_sequences",
]
ASSUMPTIONS = [
    "characters a line based text format cannot carry inside one field are not generated: line breaks and non-printable "
    "characters in FASTA/FASTQ headers, GenBank content and qualifier values (a line break inside a qualifier value is "
    "biotite's documented encoding of a repeated qualifier and IS generated); GFF3 percent-quotes them, so they are generated there",
    "GenBank column limits are respected by the generator: field names <= 12, subfield names <= 10, feature keys <= 15 "
    "characters, no Location.Defect.MISS_LEFT/MISS_RIGHT, no UNK_LOC/BETWEEN on a single base, not both '<' and '>' on a "
    "single base, no feature without location; GFF3: no location defects, no None-valued qualifier, unique IDs",
    "an empty FASTA/FASTQ file object has the text '' which the readers decline with InvalidFileError; this is accepted for "
    "the empty mapping only (counted as empty_file_declined)",
    "the position of a replaced FASTA/FASTQ entry is not part of the statement: the view is compared with the model as a "
    "mapping, and with the re-parsed file in exact order",
    "FASTA carries no sequence type: get_sequence(s) is called with seq_type of the original; auto-detection is judged only "
    "when the string is not a valid (ambiguous) nucleotide string",
    "GFF3: seqid/source None are written as '.' and read back as '.', an int score is read back as the equal float; "
    "surrounding blanks of seqid/source/type are not generated (the API strips them)",
    "LOCUS metadata is not part of the statement; only fully specified set_locus/get_locus round trips are exercised",
]
MIN_CASES_PER_WORKER = 200
MANIFEST = {
    "technique": "write/parse round trip on every generated file with the driver's own normalisers as equality oracle; "
                 "lock-step edit histories against dict/list reference models with re-parse consistency after every step; "
                 "sys.monitoring reach counters on the anchored parser/serialiser functions",
    "level_text": "Runtime monitoring: tens of thousands of generated FASTA, FASTQ, GenBank/GenPept and GFF3 files are "
                  "written by the real biotite code, parsed again and compared field by field with what was written; "
                  "edit histories of 1-12 operations run on the real file objects in lock-step with dict/list models and "
                  "after every step the object's view must equal the view of File.read(StringIO(str(object))).  "
                  "Held-on-what-was-observed, not a proof.",
    "level_note": "Trusts the generators' notion of 'expressible in the format' (listed under assumptions), io.StringIO and "
                  "the comparison code (audited in selftest on hand-made and exhaustive tiny cases).  Nothing is said about "
                  "files written by other programs.  Confirmed defects are quarantined into one probe per mechanism.",
    "design_ref": "DESIGN.md section 6, C12",
}

# ------------------------------------------------------------------ biotite handles (filled by setup)
B = None


class _Handles:
    pass


def setup(ctx):
    global B
    B = _Handles()
    import biotite.sequence as seq
    import biotite.sequence.io as sio
    import biotite.sequence.io.fasta as fasta
    import biotite.sequence.io.fastq as fastq
    import biotite.sequence.io.genbank as gb
    import biotite.sequence.io.gff as gff
    import biotite.sequence.io.general  # noqa: F401
    from biotite.file import InvalidFileError
    B.seq, B.sio, B.fasta, B.fastq, B.gb, B.gff = seq, sio, fasta, fastq, gb, gff
    B.InvalidFileError = InvalidFileError
    B.Location, B.Feature, B.Annotation = seq.Location, seq.Feature, seq.Annotation
    B.AnnotatedSequence = seq.AnnotatedSequence
    B.Nuc, B.Prot = seq.NucleotideSequence, seq.ProteinSequence
    B.D, B.S = seq.Location.Defect, seq.Location.Strand
    B.defect_bits = {"BL": B.D.BEYOND_LEFT, "BR": B.D.BEYOND_RIGHT, "UNK": B.D.UNK_LOC, "BET": B.D.BETWEEN}
    B.work = os.environ.get("VERIF_WORK") or os.getcwd()
    B.counter = 0


# ------------------------------------------------------------------ small helpers
NUC = "ACGT"
NUC_AMB = "ACGTRYWSMKHBVDN"
PROT = "ACDEFGHIKLMNPQRSTVWYBZX*"
_ALNUM = "ABCDEFGHIJKLMNOPQRSTUVWXYZabcdefghijklmnopqrstuvwxyz0123456789"
_PUNCT = "!\"#$%&'()*+,-./:;<=>?@[\\]^_`{|}~"
_UNI = "éßøλЖ中あ€µ±"


def pick(rng, xs):
    return xs[int(rng.integers(len(xs)))]


def rint(rng, lo, hi):
    """Inclusive integer."""
    return int(rng.integers(lo, hi + 1))


def gen_text(rng, n, specials="", p_special=0.15, p_space=0.12, p_uni=0.03, exclude="", punct=_PUNCT):
    """n printable characters, never blank at either end."""
    if n <= 0:
        return ""
    r = rng.random(n)
    k = rng.integers(0, 1 << 16, size=n)
    out = []
    if not specials:
        p_special = 0.0
    for i in range(n):
        ri, ki = r[i], int(k[i])
        if specials and ri < p_special:
            c = specials[ki % len(specials)]
        elif ri < p_special + p_space:
            c = " " if 0 < i < n - 1 else _ALNUM[ki % len(_ALNUM)]
        elif ri < p_special + p_space + p_uni:
            c = _UNI[ki % len(_UNI)]
        elif ri < 0.62 or not punct:
            c = _ALNUM[ki % len(_ALNUM)]
        else:
            c = punct[ki % len(punct)]
        if c in exclude:
            c = _ALNUM[ki % len(_ALNUM)]
        out.append(c)
    return "".join(out)


def gen_header(rng, used, blanks=False):
    """A header that is unique in `used` (also after stripping)."""
    n = pick(rng, [0, 1, 1, 2, 3, 5, 8, 12, 20, 40, 80, 120])
    h = gen_text(rng, n, specials=">@+;")
    if n and rng.random() < 0.25:
        h = pick(rng, ">@+;") + h[1:]
    k = 0
    base = h
    while h in used:
        h = base + "#%d" % k
        k += 1
    used.add(h)
    if blanks:
        left = pick(rng, ["", " ", "  ", "\t"])
        right = pick(rng, ["", " ", " \t"])
        if not left and not right:
            right = " "
        h = left + h + right
    return h


def gen_len(rng, cpl, lo=0, hi=300):
    w = cpl if cpl else 60
    c = pick(rng, [lo, 1, w - 1, w, w + 1, 2 * w, 2 * w + 1, 3 * w - 1, -1, -1, -1, -1])
    if c < 0:
        c = rint(rng, lo, hi) if rng.random() < 0.5 else rint(rng, lo, min(hi, 40))
    return max(lo, min(hi, c))


def gen_symbols(rng, alphabet, n, cpl=None):
    idx = rng.integers(len(alphabet), size=n)
    s = "".join(alphabet[int(i)] for i in idx)
    if "*" in alphabet and n and rng.random() < 0.5:
        # stop symbols at the end and at the start of wrapped lines
        s = s[:-1] + "*"
        if cpl and n > cpl and rng.random() < 0.5:
            cs = list(s)
            for p in range(cpl, n, cpl):
                if rng.random() < 0.5:
                    cs[p] = "*"
            s = "".join(cs)
    return s


def special_header(h):
    return any(c in h for c in ">@+;") or any(ord(c) > 127 for c in h)


def _short(x, n=300):
    r = repr(x)
    return r if len(r) <= n else r[:n] + "..."


def unexpected(ctx, oracle, what, e):
    ctx.fail(oracle, "%s raised %s: %s" % (what, type(e).__name__, e))


# ------------------------------------------------------------------ FASTA
def _read_fasta(ctx, text, n_expected, cpl=80):
    """FastaFile.read of our own text; an empty file may be declined."""
    try:
        return B.fasta.FastaFile.read(StringIO(text), chars_per_line=cpl)
    except B.InvalidFileError as e:
        ctx.exc(e)
        if n_expected == 0 and text.strip() == "":
            ctx.note("empty_file_declined")
            return None
        ctx.fail("fasta_roundtrip", "FastaFile.read declined the text biotite wrote: %s" % e, text=text[:500])


def fasta_entries(ctx, rng, n, cpl, kinds, blanks=False):
    used = set()
    entries = []
    for _ in range(n):
        h = gen_header(rng, used, blanks)
        kind = pick(rng, kinds)
        ln = gen_len(rng, cpl, 0, 300)
        if kind == "raw":
            s = gen_symbols(rng, "ACGTUNacgtn-XBZJO*.", ln)
        else:
            s = gen_symbols(rng, {"nuc": NUC, "amb": NUC_AMB, "prot": PROT}[kind], ln, cpl)
        entries.append((h, kind, s))
    return entries


def case_fasta(rng, ctx):
    cpl = rint(rng, 1, 100) if rng.random() < 0.85 else pick(rng, [1, 2, 60, 80, 100])
    n = pick(rng, [0, 1, 1, 2, 2, 3, 4, 6])
    mode = pick(rng, ["raw", "convert", "convert", "iter"])
    blanks = ctx.allowed("header_surrounding_blanks") and rng.random() < 0.05
    entries = fasta_entries(ctx, rng, n, cpl, ["nuc", "amb", "prot", "raw"] if mode != "convert" else ["nuc", "amb", "prot"], blanks)
    ctx.log("fasta", mode, cpl, [[h, k, s] for h, k, s in entries])
    ctx.op("fasta_" + mode)
    ctx.mark_nontrivial(any(len(s) > cpl or special_header(h) for h, _, s in entries))
    FastaFile = B.fasta.FastaFile
    given = [(h, s) for h, _, s in entries]
    expected = [(h.strip(), s) for h, s in given]      # the API strips surrounding blanks of headers
    seqs = None
    if mode == "iter":
        buf = StringIO()
        items = given if rng.random() < 0.5 else iter(given)
        FastaFile.write_iter(buf, items, chars_per_line=cpl)
        text = buf.getvalue()
        f = None
    else:
        f = FastaFile(chars_per_line=cpl)
        if mode == "raw":
            for h, s in given:
                f[h] = s
        else:
            seqs, expected = [], []
            for h, kind, s in entries:
                sq = B.Prot(s) if kind == "prot" else B.Nuc(s)
                rna = rng.random() < 0.25      # documented to act on NucleotideSequence objects only
                seqs.append((h, kind, s, sq, rna))
                expected.append((h.strip(), s.replace("T", "U") if rna and kind != "prot" else s))
            if len({r[4] for r in seqs}) <= 1 and rng.random() < 0.5:
                rna_all = bool(seqs and seqs[0][4])
                kw = {} if (not rna_all and rng.random() < 0.5) else {"as_rna": rna_all}      # the default is as_rna=False
                B.fasta.set_sequences(f, OrderedDict((r[0], r[3]) for r in seqs), **kw)
            else:
                for h, kind, s, sq, rna in seqs:
                    kw = {} if (not rna and rng.random() < 0.5) else {"as_rna": rna}
                    B.fasta.set_sequence(f, sq, h, **kw)
        ctx.check([(h.strip(), v) for h, v in f.items()] == expected and len(f) == len(expected), "fasta_view",
                  "items() of the filled FastaFile differ from what was set", got=_short(list(f.items())))
        if rng.random() < 0.5:
            buf = StringIO()
            f.write(buf)
            text = buf.getvalue()
        else:
            text = str(f)
    # every physical sequence line obeys chars_per_line (the text really is wrapped)
    g = _read_fasta(ctx, text, len(expected), cpl)
    if g is not None:
        got = list(g.items())
        ctx.check(got == expected, "fasta_roundtrip", "FastaFile.read(written text).items() differ from what was written",
                  got=_short(got), expected=_short(expected), text=text[:600])
    got_iter = list(FastaFile.read_iter(StringIO(text)))
    ctx.check(got_iter == expected, "fasta_iter_roundtrip", "FastaFile.read_iter(written text) differs from what was written",
              got=_short(got_iter), expected=_short(expected))
    if seqs is not None and g is not None:
        ctx.oracle("fasta_convert_roundtrip")
        with warnings.catch_warnings():
            warnings.simplefilter("ignore")
            for h, kind, s, sq, rna in seqs:
                cls = B.Prot if kind == "prot" else B.Nuc
                back = B.fasta.get_sequence(g, h.strip(), seq_type=cls)
                if str(back) != s or not isinstance(back, cls):
                    ctx.fail("fasta_convert_roundtrip", "get_sequence(%r) = %s, written %s(%r)" % (h, _short(back), cls.__name__, s))
                if kind != "prot" or any(c not in NUC_AMB + "XU" for c in s):
                    auto = B.fasta.get_sequence(g, h.strip())
                    if str(auto) != s or not isinstance(auto, cls):
                        ctx.fail("fasta_convert_roundtrip", "auto-detected get_sequence(%r) = %s, written %s(%r)" % (h, _short(auto), cls.__name__, s))
                else:
                    ctx.note("fasta_type_ambiguous_string")
            kinds = {("prot" if r[1] == "prot" else "nuc") for r in seqs}
            if len(kinds) == 1:
                cls = B.Prot if "prot" in kinds else B.Nuc
                d = B.fasta.get_sequences(g, seq_type=cls)
                if [(h, str(v)) for h, v in d.items()] != [(r[0].strip(), r[2]) for r in seqs]:
                    ctx.fail("fasta_convert_roundtrip", "get_sequences differs from the sequences written", got=_short(d))
            # all entries at once with automatic type detection: every entry is typed by its own content (files that mix
            # nucleotide and protein entries included)
            if all(r[1] != "prot" or any(c not in NUC_AMB + "XU" for c in r[2]) for r in seqs) and all(len(r[2]) > 0 for r in seqs):
                try:
                    dall = B.fasta.get_sequences(g)
                except Exception as e:
                    ctx.fail("fasta_convert_roundtrip", "get_sequences() with automatic type detection raised %s: %s" % (type(e).__name__, e))
                for (h, kind, s_, sq, rna), (h2, v) in zip(seqs, dall.items()):
                    cls = B.Prot if kind == "prot" else B.Nuc
                    if h2 != h.strip() or str(v) != s_ or not isinstance(v, cls):
                        ctx.fail("fasta_convert_roundtrip", "get_sequences()[%r] = %s, written %s(%r)" % (h2, _short(v), cls.__name__, s_))
                if len(dall) != len(seqs):
                    ctx.fail("fasta_convert_roundtrip", "get_sequences() returns %d entries, written %d" % (len(dall), len(seqs)))
            first = B.fasta.get_sequence(g, seq_type=B.Prot if seqs[0][1] == "prot" else B.Nuc)
            if str(first) != seqs[0][2]:
                ctx.fail("fasta_convert_roundtrip", "get_sequence() without header is not the first sequence written")
    ctx.state(("fasta", len(expected), [len(s) // max(cpl, 1) for _, s in expected]))


# ------------------------------------------------------------------ FASTQ
OFFSET_NAMES = {"Sanger": 33, "Solexa": 64, "Illumina-1.3": 64, "Illumina-1.5": 64, "Illumina-1.8": 33}


def gen_offset(rng):
    if rng.random() < 0.6:
        name = pick(rng, sorted(OFFSET_NAMES))
        return name, OFFSET_NAMES[name]
    v = pick(rng, [0, 1, 20, 33, 40, 64, 93])
    if rng.random() < 0.2:
        return np.int64(v), v
    return v, v


def gen_scores(rng, n, cpl, off):
    """Score array whose characters cover 33..126; '@'/'+' forced at wrapped line starts."""
    mode = pick(rng, ["uniform", "uniform", "at", "plus", "linestart", "linestart", "extremes"])
    c = rng.integers(33, 127, size=n)
    if mode == "at":
        c[:] = 64
    elif mode == "plus":
        c[:] = 43
    elif mode == "linestart":
        w = cpl if cpl else max(n, 1)
        c[::w] = pick(rng, [64, 43])
        if n > w and rng.random() < 0.5:
            c[w::2 * w] = 43
    elif mode == "extremes":
        c = rng.choice(np.array([33, 126, 64, 43]), size=n)
    scores = (c - off).astype(np.int64)
    kind = pick(rng, ["list", "int8", "int16", "int32", "int64", "uint8"])
    if kind == "uint8" and (n == 0 or scores.min() < 0):
        kind = "int64"
    if kind == "list":
        return [int(x) for x in scores], scores, kind
    return scores.astype(kind), scores, kind


def fastq_entries(ctx, rng, n, cpl, off, blanks=False, min_len=1):
    used = set()
    entries = []
    for _ in range(n):
        h = gen_header(rng, used, blanks)
        ln = gen_len(rng, cpl, min_len, 300)
        s = gen_symbols(rng, pick(rng, [NUC, NUC_AMB, NUC + "N"]), ln)
        given, ref, kind = gen_scores(rng, ln, cpl, off)
        entries.append((h, s, given, ref, kind))
    return entries


def fastq_items_equal(got, expected):
    """[(id, (seq, scores))] against [(id, seq, ref_scores)]."""
    if len(got) != len(expected):
        return False
    for (gh, (gs, gq)), (h, s, q) in zip(got, expected):
        gq = np.asarray(gq)
        if gh != h or gs != s or gq.dtype.kind not in "iu" or gq.shape != q.shape or not np.array_equal(gq.astype(np.int64), q):
            return False
    return True


def _read_fastq(ctx, text, n_expected, offset, cpl):
    try:
        return B.fastq.FastqFile.read(StringIO(text), offset=offset, chars_per_line=cpl)
    except B.InvalidFileError as e:
        ctx.exc(e)
        if n_expected == 0 and text.strip() == "":
            ctx.note("empty_file_declined")
            return None
        ctx.fail("fastq_roundtrip", "FastqFile.read declined the text biotite wrote: %s" % e, text=text[:500])


def count_special_score_lines(ctx, text):
    """Observation only: physical lines of a score block that start with '@' or '+'."""
    lines = text.split("\n")
    hit = False
    state, need = 0, 0
    for ln in lines:
        if state == 0 and ln.startswith("@"):
            state, need = 1, 0
        elif state == 1:
            if ln.startswith("+"):
                state, got = 2, 0
            else:
                need += len(ln)
        elif state == 2:
            if ln[:1] == "@":
                ctx.note("score_line_starts_with_at")
                hit = True
            if ln[:1] == "+":
                ctx.note("score_line_starts_with_plus")
                hit = True
            got += len(ln)
            if got >= need:
                state = 0
    return hit


def case_fastq(rng, ctx):
    """Zero-length reads (only generated while that class is not quarantined) may be declined with
    ValueError; if they are accepted the file must round-trip like any other."""
    info = {}
    try:
        _case_fastq(rng, ctx, info)
    except ValueError as e:
        if not info.get("has_empty"):
            raise
        ctx.oracle("fastq_empty_declined_or_roundtrip")
        ctx.exc(e)
        ctx.note("fastq_empty_sequence_declined")
    except Exception as e:
        if info.get("has_empty") and getattr(e, "oracle", None) is not None:
            ctx.fail("fastq_empty_declined_or_roundtrip", "file with a zero-length read accepted, then: %s" % e, **getattr(e, "detail", {}))
        raise


def _case_fastq(rng, ctx, info):
    offset, off = gen_offset(rng)
    cpl = None if rng.random() < 0.25 else rint(rng, 1, 100)
    n = pick(rng, [0, 1, 1, 2, 2, 3, 4])
    mode = pick(rng, ["raw", "raw", "convert", "iter"])
    min_len = 0 if (ctx.allowed("fastq_empty_sequence") and rng.random() < 0.1) else 1
    entries = fastq_entries(ctx, rng, n, cpl, off, min_len=min_len)
    info["has_empty"] = any(len(e[1]) == 0 for e in entries)
    ctx.log("fastq", mode, repr(offset), cpl, [[h, s, kind, ref.tolist()] for h, s, _, ref, kind in entries])
    ctx.op("fastq_" + mode)
    FastqFile = B.fastq.FastqFile
    expected = [(h, s, ref) for h, s, _, ref, _ in entries]
    rna = False
    if mode == "iter":
        buf = StringIO()
        items = [(h, (s, given)) for h, s, given, _, _ in entries]
        FastqFile.write_iter(buf, items if rng.random() < 0.5 else iter(items), offset, chars_per_line=cpl)
        text = buf.getvalue()
    else:
        f = FastqFile(offset, chars_per_line=cpl)
        if mode == "raw":
            for h, s, given, _, _ in entries:
                f[h] = (s, given)
        else:
            rna = rng.random() < 0.25
            if rng.random() < 0.5:
                kw = {} if (not rna and rng.random() < 0.5) else {"as_rna": rna}      # the default is as_rna=False
                B.fastq.set_sequences(f, OrderedDict((h, (B.Nuc(s), given)) for h, s, given, _, _ in entries), **kw)
            else:
                for h, s, given, _, _ in entries:
                    kw = {} if (not rna and rng.random() < 0.5) else {"as_rna": rna}
                    B.fastq.set_sequence(f, B.Nuc(s), given, h, **kw)
            if rna:
                ctx.check(fastq_items_equal(list(f.items()), [(h, s.replace("T", "U"), q) for h, s, q in expected]),
                          "fastq_view", "as_rna view differs")
        if mode == "raw" or not rna:
            ctx.check(fastq_items_equal(list(f.items()), expected) and len(f) == len(expected), "fastq_view",
                      "items() of the filled FastqFile differ from what was set", got=_short(list(f.items())))
        if rng.random() < 0.5:
            buf = StringIO()
            f.write(buf)
            text = buf.getvalue()
        else:
            text = str(f)
    hit = count_special_score_lines(ctx, text)
    ctx.mark_nontrivial(bool(entries) and (hit or any(cpl and len(s) > cpl for _, s, _ in expected)))
    g = _read_fastq(ctx, text, len(expected), offset, cpl)
    if mode == "convert":
        ctx.oracle("fastq_convert_roundtrip")
        if g is not None and expected:
            d = B.fastq.get_sequences(g)
            got = [(h, (str(sq), q)) for h, (sq, q) in d.items()]
            if not fastq_items_equal(got, expected):
                ctx.fail("fastq_convert_roundtrip", "get_sequences(read(written text)) differs from what was written",
                         got=_short(got), text=text[:600])
            sq, q = B.fastq.get_sequence(g, expected[-1][0])
            if not fastq_items_equal([(expected[-1][0], (str(sq), q))], expected[-1:]):
                ctx.fail("fastq_convert_roundtrip", "get_sequence(last header) differs from what was written")
            sq, q = B.fastq.get_sequence(g)
            if not fastq_items_equal([(expected[0][0], (str(sq), q))], expected[:1]):
                ctx.fail("fastq_convert_roundtrip", "get_sequence() is not the first entry written")
    elif g is not None:
        got = list(g.items())
        ctx.check(fastq_items_equal(got, expected), "fastq_roundtrip",
                  "FastqFile.read(written text).items() differ from what was written",
                  got=_short(got), expected=_short(expected), text=text[:600])
        if expected:
            h = expected[-1][0]
            ok = g.get_seq_string(h) == expected[-1][1] and np.array_equal(g.get_quality(h), expected[-1][2])
            ctx.check(ok, "fastq_roundtrip", "get_seq_string/get_quality differ from what was written")
    got_iter = list(FastqFile.read_iter(StringIO(text), offset))
    exp_iter = expected
    if rna:
        exp_iter = [(h, s.replace("T", "U"), q) for h, s, q in expected]
    ctx.check(fastq_items_equal(got_iter, exp_iter), "fastq_iter_roundtrip",
              "FastqFile.read_iter(written text) differs from what was written", got=_short(got_iter))
    ctx.state(("fastq", off, cpl is None, len(expected), [len(s) // (cpl or 1000) for _, s, _ in expected]))


# ------------------------------------------------------------------ annotations (shared by GenBank and GFF)
# A location is modelled as (first, last, strand, defect) with strand in {"F", "R", None}
# and defect a frozenset of {"BL", "BR", "UNK", "BET"}; a feature as
# (key, frozenset(locations), tuple(qualifier items in dict order)).
GB_KEYS = ["gene", "CDS", "source", "misc_feature", "regulatory", "5'UTR", "3'UTR", "D-loop", "-10_signal",
           "mat_peptide", "rep_origin", "exon", "intron", "Region", "Site", "misc_RNA", "a", "ABCDEFGHIJKLMNO"]
QUAL_KEYS = ["gene", "product", "note", "db_xref", "pseudo", "codon_start", "translation", "locus_tag",
             "function", "EC_number", "partial", "x", "a_b", "K9"]


def make_location(loc):
    first, last, strand, defect = loc
    d = B.D.NONE
    for name in defect:
        d |= B.defect_bits[name]
    s = {"F": B.S.FORWARD, "R": B.S.REVERSE, None: None}[strand]
    return B.Location(first, last, s, d)


def make_feature(feat):
    key, locs, qual = feat
    return B.Feature(key, [make_location(l) for l in locs], dict(qual))


def norm_location(loc):
    d = frozenset(name for name, bit in B.defect_bits.items() if loc.defect & bit)
    rest = loc.defect & ~(B.D.BEYOND_LEFT | B.D.BEYOND_RIGHT | B.D.UNK_LOC | B.D.BETWEEN)
    if rest != B.D.NONE:
        d = d | {str(rest)}
    s = {B.S.FORWARD: "F", B.S.REVERSE: "R", None: None}.get(loc.strand, repr(loc.strand))
    return (int(loc.first), int(loc.last), s, d)


def norm_feature(f):
    return (f.key, frozenset(norm_location(l) for l in f.locs), frozenset(f.qual.items()))


def norm_model_feature(feat):
    key, locs, qual = feat
    return (key, frozenset(locs), frozenset(qual))


def classify_annotation_diff(expected, got):
    """Both are sets of normalised features.  Returns None if equal, otherwise
    (oracle_id, message) naming the most specific mechanism."""
    if expected == got:
        return None
    missing = expected - got
    extra = got - expected
    for m in sorted(missing, key=repr):
        for e in extra:
            if e[0] == m[0] and e[2] == m[2]:
                return "gb_location", "feature %r: locations written %s, read %s" % (m[0], sorted(m[1], key=repr), sorted(e[1], key=repr))
        for e in extra:
            if e[0] == m[0] and e[1] == m[1]:
                return "gb_qualifier", "feature %r: qualifiers written %s, read %s" % (m[0], sorted(m[2], key=repr), sorted(e[2], key=repr))
    if len(extra) < len(missing):
        return "gb_feature_dropped", "%d feature(s) missing after the round trip, e.g. %s" % (len(missing) - len(extra), _short(sorted(missing, key=repr)[0]))
    return "gb_feature_set", "feature sets differ: missing %s, unexpected %s" % (_short(sorted(missing, key=repr)), _short(sorted(extra, key=repr)))


def gen_location(rng, ctx, lo, hi, strands="FR", defects=True):
    strand = pick(rng, strands)
    span = max(hi - lo, 1)
    kind = pick(rng, ["range", "range", "range", "single", "single", "between", "unk", "open"]) if defects else pick(rng, ["range", "range", "single"])
    p = rint(rng, lo, hi)
    q = min(hi + 5, p + rint(rng, 1, max(1, span // 2)))
    if kind == "single":
        choices = [(), (), ("BL",)]
        if defects and ctx.allowed("gb_single_base_beyond_right"):
            choices.append(("BR",))
        return (p, p, strand, frozenset(pick(rng, choices) if defects else ()))
    if kind == "between":
        return (p, p + 1, strand, frozenset({"BET"} | set(pick(rng, [(), (), ("BL",), ("BR",)]))))
    if kind == "unk":
        return (p, q, strand, frozenset({"UNK"} | set(pick(rng, [(), (), ("BL",), ("BR",), ("BL", "BR")]))))
    if kind == "open":
        return (p, q, strand, frozenset(pick(rng, [("BL",), ("BR",), ("BL", "BR")])))
    return (p, q, strand, frozenset())


def gen_qual_value(rng, ctx, fmt):
    """One qualifier value of a named awkward class."""
    kinds = ["plain", "plain", "spaces", "slash_eq", "looks_like_qualifier", "empty", "multi", "long", "unicode", "edge_blanks"]
    if fmt == "gb":
        kinds += ["none", "none"]
        if ctx.allowed("gb_qualifier_double_quote"):
            kinds.append("dquote")
    else:
        kinds += ["reserved", "reserved", "control"]
    kind = pick(rng, kinds)
    if kind == "none":
        return None, kind
    if kind == "plain":
        return gen_text(rng, rint(rng, 1, 12), p_space=0, p_uni=0, punct=""), kind
    if kind == "spaces":
        return gen_text(rng, rint(rng, 3, 40), p_space=0.3, exclude='"'), kind
    if kind == "slash_eq":
        return gen_text(rng, rint(rng, 1, 30), specials="/=", p_special=0.4, exclude='"'), kind
    if kind == "looks_like_qualifier":
        return pick(rng, ["/gene=abc", "/pseudo", "a /note=b", "/x= /y=", "=", "/", "1..5 /gene=", "join(1..2,3..4)", "/a=1 /b=2 /c"]), kind
    if kind == "empty":
        return "", kind
    if kind == "multi":
        parts = []
        for _ in range(rint(rng, 2, 4)):
            parts.append(pick(rng, ["", "x", gen_text(rng, rint(rng, 1, 20), specials="/=", exclude='"')]))
        return "\n".join(parts), kind
    if kind == "long":
        return gen_text(rng, rint(rng, 80, 400), specials="/= ", p_special=0.2, exclude='"'), kind
    if kind == "unicode":
        return gen_text(rng, rint(rng, 1, 15), p_uni=0.5, exclude='"'), kind
    if kind == "edge_blanks":
        return " " * rint(rng, 1, 3) + gen_text(rng, rint(rng, 0, 8), exclude='"') + " " * rint(rng, 0, 2), kind
    if kind == "dquote":
        return gen_text(rng, rint(rng, 1, 20), specials='"', p_special=0.3), kind
    if kind == "reserved":
        return gen_text(rng, rint(rng, 1, 30), specials="%;=&,", p_special=0.45), kind
    if kind == "control":
        return gen_text(rng, rint(rng, 0, 6)) + pick(rng, ["\t", "\n", "\r\n", "%09", "%", "%%", "%4", "%41", "\x0b"]) + gen_text(rng, rint(rng, 0, 6)), kind
    raise AssertionError(kind)


def gen_qualifiers(rng, ctx, fmt, nmax=5):
    n = pick(rng, [0, 1, 1, 2, 2, 3, nmax])
    keys = list(rng.permutation(QUAL_KEYS)[:n])
    items, kinds = [], set()
    for k in keys:
        v, kind = gen_qual_value(rng, ctx, fmt)
        items.append((str(k), v))
        kinds.add(kind)
    if fmt == "gb" and items and all(v is None for _, v in items) and not ctx.allowed("gb_all_qualifiers_without_value"):
        pos = rint(rng, 0, len(items))
        items.insert(pos, ("valued", gen_text(rng, rint(rng, 0, 10), exclude='"')))
    if fmt == "gb":
        if any(isinstance(v, str) and '"' in v for _, v in items) and not ctx.allowed("gb_qualifier_double_quote"):
            items = [(k, v.replace('"', "'") if isinstance(v, str) else v) for k, v in items]
    return tuple(items), kinds


def gen_feature(rng, ctx, lo, hi, fmt, strands="FR"):
    key = pick(rng, GB_KEYS) if rng.random() < 0.85 else gen_text(rng, rint(rng, 1, 15), p_space=0, p_uni=0, punct="_-'*")
    nloc = pick(rng, [1, 1, 1, 2, 2, 3, 4])
    if len(strands) > 1:
        mix = pick(rng, ["F", "R", "FR"])
    else:
        mix = strands
    locs = frozenset(gen_location(rng, ctx, lo, hi, mix, defects=(fmt == "gb")) for _ in range(nloc))
    qual, kinds = gen_qualifiers(rng, ctx, fmt)
    return (key, locs, qual), kinds


# ------------------------------------------------------------------ GenBank / GenPept
DIVISIONS = ["PRI", "ROD", "MAM", "VRT", "INV", "PLN", "BCT", "VRL", "PHG", "SYN", "UNA", "EST", "PAT", "STS", "GSS", "HTG", "HTC", "ENV", "CON"]


def gen_sequence_start(rng, ctx, n):
    r = rng.random()
    if r < 0.4:
        return 1
    if r < 0.6:
        return pick(rng, [2, 10, 60, 61, 101, 1000, 99990])
    if r < 0.9:
        return rint(rng, 1, 10 ** 6)
    if r < 0.95 or not ctx.allowed("gb_origin_position_9_digits"):
        return pick(rng, [99_999_000, 99_999_999 - 60 * ((n + 59) // 60), 9_999_990])
    return pick(rng, [99_999_990, 100_000_000, 999_999_000, rint(rng, 10 ** 8, 999_999_000)])


def gb_write(aseq_model, fmt, rng=None, locus=None, extra_fields=False):
    """Build the GenBankFile from a model (features, symbols, start)."""
    feats, symbols, start = aseq_model
    annot = B.Annotation([make_feature(f) for f in feats])
    sq = B.Prot(symbols) if fmt == "gp" else B.Nuc(symbols)
    f = B.gb.GenBankFile()
    if locus is not None:
        B.gb.set_locus(f, *locus)
    if extra_fields:
        f.append("DEFINITION", ["generated record", "second line"])
        f.append("SOURCE", ["synthetic"], {"ORGANISM": ["none", "a; b; c."]})
    B.gb.set_annotated_sequence(f, B.AnnotatedSequence(annot, sq, start))
    return f, annot


def gb_check_roundtrip(ctx, aseq_model, fmt, text, what=""):
    feats, symbols, start = aseq_model
    for o in ("gb_sequence", "gb_sequence_start", "gb_location", "gb_qualifier", "gb_feature_dropped", "gb_reparse_raises"):
        ctx.oracle(o)
    with warnings.catch_warnings(record=True) as wlist:
        warnings.simplefilter("always")
        try:
            g = B.gb.GenBankFile.read(StringIO(text))
            back = B.gb.get_annotated_sequence(g, format=fmt)
        except Exception as e:   # our own text: nothing may be declined
            ctx.exc(e)
            ctx.fail("gb_reparse_raises", "%sget_annotated_sequence(read(written text)) raised %s: %s" % (what, type(e).__name__, e), text=text[:1500])
    cls = B.Prot if fmt == "gp" else B.Nuc
    if not isinstance(back.sequence, cls) or str(back.sequence) != symbols:
        ctx.fail("gb_sequence", "%ssequence read back %s, written %r" % (what, _short(str(back.sequence)), _short(symbols)), text=text[:800])
    if back.sequence_start != start:
        ctx.fail("gb_sequence_start", "%ssequence start read back %r, written %r" % (what, back.sequence_start, start))
    expected = {norm_model_feature(f) for f in feats}
    got = {norm_feature(f) for f in back.annotation}
    diff = classify_annotation_diff(expected, got)
    if diff is not None:
        ctx.fail(diff[0], what + diff[1], warnings=[str(w.message) for w in wlist][:3], text=text[:1500])
    if wlist:
        ctx.fail("gb_feature_dropped", "%swarning while parsing biotite's own output: %s" % (what, wlist[0].message))
    return g, back


def case_genbank(rng, ctx):
    mode = pick(rng, ["annotated", "annotated", "annotated", "orders", "parts"])
    fmt = "gb" if rng.random() < 0.75 else "gp"
    n = gen_len(rng, 60, 1, 300)
    symbols = gen_symbols(rng, PROT if fmt == "gp" else pick(rng, [NUC, NUC_AMB]), n, 60)
    start = gen_sequence_start(rng, ctx, n)
    lo, hi = start, start + n - 1
    strands = "F" if (fmt == "gp" and rng.random() < 0.8) else "FR"
    if mode == "orders":
        # one feature, every dict order of its qualifiers
        (key, locs, qual), kinds = gen_feature(rng, ctx, lo, hi, "gb", strands)
        while len(qual) < 2:
            (_, _, qual), kinds = gen_feature(rng, ctx, lo, hi, "gb", strands)
        qual = qual[:4]
        if all(v is None for _, v in qual) and not ctx.allowed("gb_all_qualifiers_without_value"):
            qual = qual[:-1] + ((qual[-1][0], "v"),)
        ctx.log("genbank_orders", fmt, symbols, start, [key, sorted(map(list, locs), key=repr), list(qual)])
        ctx.op("genbank_orders")
        ctx.mark_nontrivial()
        for perm in itertools.permutations(qual):
            model = ([(key, locs, perm)], symbols, start)
            f, _ = gb_write(model, fmt)
            gb_check_roundtrip(ctx, model, fmt, str(f), "qualifier order %s: " % [k for k, _ in perm])
            ctx.op("genbank_order_permutation")
        ctx.state(("gb_orders", len(qual), tuple(sorted(k for k in kinds))))
        return
    nfeat = pick(rng, [0, 1, 1, 2, 3, 4, 6]) if ctx.allowed("gb_empty_annotation") else pick(rng, [1, 1, 2, 3, 4, 6])
    feats, kinds = [], set()
    for _ in range(nfeat):
        ft, k = gen_feature(rng, ctx, lo, hi, "gb", strands)
        feats.append(ft)
        kinds |= k
    model = (feats, symbols, start)
    locus = None
    if rng.random() < 0.4:
        locus = (gen_text(rng, rint(rng, 1, 16), p_space=0, p_uni=0, punct="_."), n,
                 pick(rng, ["DNA", "RNA", "mRNA", "ss-DNA", "Protein"]), bool(rng.random() < 0.5), pick(rng, DIVISIONS),
                 "%02d-%s-%d" % (rint(rng, 1, 28), pick(rng, ["JAN", "FEB", "NOV"]), rint(rng, 1980, 2026)))
    ctx.log("genbank", mode, fmt, symbols, start,
            [[k, sorted(map(lambda l: [l[0], l[1], l[2], sorted(l[3])], locs), key=repr), list(q)] for k, locs, q in feats], locus)
    ctx.op("genbank_" + mode)
    loc_classes = {("single" if l[0] == l[1] else "range") + "".join(sorted(l[3])) + (l[2] or "") for _, locs, _ in feats for l in locs}
    ctx.mark_nontrivial(bool(feats) and (len(loc_classes) > 1 or bool(kinds - {"plain"})))
    for c in loc_classes:
        ctx.op("loc_" + c)
    for k in kinds:
        ctx.op("qual_" + k)
    f, annot = gb_write(model, fmt, locus=locus, extra_fields=bool(rng.random() < 0.3))
    if rng.random() < 0.5:
        buf = StringIO()
        f.write(buf)
        text = buf.getvalue()
    else:
        text = str(f)
    g, back = gb_check_roundtrip(ctx, model, fmt, text)
    # the object that was filled must show the same content as the parsed one
    ctx.check([f[i] for i in range(len(f))] == [g[i] for i in range(len(g))], "edit_reparse_consistency",
              "fields of the filled GenBankFile differ from the fields of the re-read file")
    if mode == "parts":
        # the single getters
        try:
            sq = B.gb.get_sequence(g, fmt)
            with warnings.catch_warnings():
                warnings.simplefilter("ignore")
                an = B.gb.get_annotation(g)
                keys = sorted({k for k, _, _ in feats})
                sub = B.gb.get_annotation(g, include_only=keys[:1]) if keys else None
        except Exception as e:
            ctx.exc(e)
            ctx.fail("gb_reparse_raises", "getter raised %s: %s" % (type(e).__name__, e), text=text[:1500])
        ctx.check(str(sq) == symbols, "gb_sequence", "get_sequence differs from what was written")
        diff = classify_annotation_diff({norm_model_feature(x) for x in feats}, {norm_feature(x) for x in an})
        if diff:
            ctx.fail(diff[0], "get_annotation: " + diff[1])
        if sub is not None:
            diff = classify_annotation_diff({norm_model_feature(x) for x in feats if x[0] == keys[0]}, {norm_feature(x) for x in sub})
            if diff:
                ctx.fail(diff[0], "get_annotation(include_only=%r): %s" % (keys[:1], diff[1]))
    if locus is not None:
        ctx.oracle("gb_locus")
        try:
            got = B.gb.get_locus(g)
        except Exception as e:
            ctx.exc(e)
            ctx.fail("gb_locus", "get_locus raised %s: %s" % (type(e).__name__, e), text=text[:300])
        if tuple(got) != tuple(locus):
            ctx.fail("gb_locus", "get_locus = %r, set_locus%r" % (got, locus))
    ctx.state(("gb", fmt, nfeat, tuple(sorted(loc_classes)), tuple(sorted(kinds)), start > 1))


# ------------------------------------------------------------------ GFF3
GFF_TYPES = ["gene", "CDS", "CDS", "mRNA", "exon", "five_prime_UTR", "region", "SO:0000704", "match_part", "tRNA"]


def gen_gff_name(rng, ctx, what):
    """seqid / source: None, plain, reserved characters, unicode, control characters."""
    kind = pick(rng, ["none", "plain", "plain", "reserved", "reserved", "unicode", "control", "dot"])
    if kind == "none":
        return None
    if kind == "dot":
        return "."
    if kind == "plain":
        v = gen_text(rng, rint(rng, 1, 12), p_space=0, p_uni=0, punct="._:|-")
    elif kind == "reserved":
        v = gen_text(rng, rint(rng, 1, 16), specials="%;=&,", p_special=0.4)
    elif kind == "unicode":
        v = gen_text(rng, rint(rng, 1, 10), p_uni=0.5)
    else:
        v = gen_text(rng, rint(rng, 1, 5)) + pick(rng, ["\t", "\n", "%09", "%25", "%"]) + gen_text(rng, rint(rng, 1, 5))
    if v[0] == ">":
        v = "x" + v
    if v[0] == "#" and not ctx.allowed("gff_seqid_leading_hash"):
        v = "x" + v
    return v


def gen_gff_type(rng, ctx):
    if rng.random() < 0.8:
        return pick(rng, GFF_TYPES)
    t = gen_text(rng, rint(rng, 1, 12), p_space=0, p_uni=0.05, punct="_-:'.")
    if ctx.allowed("gff_type_percent_escape") and rng.random() < 0.3:
        t += pick(rng, ["%41", "%25", "%3B", "100%", "%"])
    return t


def gen_gff_attributes(rng, ctx):
    r = rng.random()
    if r < 0.1:
        return None
    if r < 0.15:
        return {}
    n = pick(rng, [1, 1, 2, 3, 4])
    keys = ["ID", "Name", "Parent", "Note", "Dbxref", "product", "gbkey"]
    d = OrderedDict()
    for k in rng.permutation(keys)[:n]:
        k = str(k)
        if rng.random() < 0.2:
            k = gen_text(rng, rint(rng, 1, 8), specials="%;=&,", p_special=0.3)
        v, _ = gen_qual_value(rng, ctx, "gff")
        d[k] = v
    if not ctx.allowed("gff_last_attribute_trailing_blank"):
        last = next(reversed(d))
        if d[last].endswith(" ") or (d[last] == "" and last.endswith(" ")):
            d[last] = d[last] + "|"
    return d


def gen_gff_entry(rng, ctx):
    start = rint(rng, 1, 10 ** pick(rng, [2, 4, 7]))
    end = start + pick(rng, [0, 1, 2, rint(rng, 0, 5000)])
    score = pick(rng, [None, None, 0, 1, 1.0, 0.5, 1e-30, 3.25e15, -2.5, float(rng.random()), float(rng.normal() * 1e3),
                       # NumPy scalars (what a score computed from an array is); float32 only where str() is exact
                       np.float64(rng.random()), np.float64(1e-30), np.float32(2.5), np.int64(7)])
    strand = pick(rng, [None, "F", "R"])
    phase = pick(rng, [None, 0, 1, 2])
    return (gen_gff_name(rng, ctx, "seqid"), gen_gff_name(rng, ctx, "source"), gen_gff_type(rng, ctx),
            start, end, score, strand, phase, gen_gff_attributes(rng, ctx))


def gff_args(entry):
    """Arguments for append/insert/__setitem__ from a model entry."""
    seqid, source, typ, start, end, score, strand, phase, attrs = entry
    s = {"F": B.S.FORWARD, "R": B.S.REVERSE, None: None}[strand]
    return (seqid, source, typ, start, end, score, s, phase, None if attrs is None else dict(attrs))


def gff_expected(entry):
    """What __getitem__ must return for a model entry."""
    seqid, source, typ, start, end, score, strand, phase, attrs = entry
    return ("." if seqid is None else seqid, "." if source is None else source, typ, start, end,
            None if score is None else float(score), strand, phase, dict(attrs or {}))


def gff_norm_view(item):
    seqid, source, typ, start, end, score, strand, phase, attrs = item
    s = {B.S.FORWARD: "F", B.S.REVERSE: "R", None: None}.get(strand, repr(strand))
    return (seqid, source, typ, start, end, score, s, phase, dict(attrs))


def gff_view(f):
    return [gff_norm_view(f[i]) for i in range(len(f))]


def gff_special(entry):
    txt = "".join(str(x) for x in (entry[0], entry[1], entry[2])) + "".join(k + v for k, v in (entry[8] or {}).items())
    return any(c in txt for c in "%;=&,\t\n") or any(ord(c) > 127 for c in txt)


def gen_gff_annotation(rng, ctx, nfeat):
    feats = []
    for i in range(nfeat):
        (key, locs, qual), _ = gen_feature(rng, ctx, 1, 5000, "gff")
        if rng.random() < 0.8:
            key = gen_gff_type(rng, ctx)
        qual = OrderedDict(qual)
        qual.pop("ID", None)
        if len(locs) > 1 or rng.random() < 0.5:
            ident = "f%d" % i + (gen_text(rng, rint(rng, 0, 6), specials="%;=&,", p_special=0.4) if rng.random() < 0.5 else "")
            items = list(qual.items())
            items.insert(rint(rng, 0, len(items)), ("ID", ident))
            qual = OrderedDict(items)
        if qual and not ctx.allowed("gff_last_attribute_trailing_blank"):
            last = next(reversed(qual))
            if qual[last].endswith(" "):
                qual[last] += "|"
        feats.append((key, locs, tuple(qual.items())))
    return feats


def reference_phases(lengths):
    """GFF3 phase of consecutive CDS segments (in translation order): bases to skip to reach the next codon start."""
    out, consumed = [], 0
    for ln in lengths:
        out.append((3 - consumed % 3) % 3)
        consumed += ln
    return out


def case_gff(rng, ctx):
    mode = pick(rng, ["entries", "entries", "annotation", "annotation", "declines"])
    GFFFile = B.gff.GFFFile
    ctx.op("gff_" + mode)
    if mode == "declines":
        f = GFFFile()
        good = gen_gff_entry(rng, ctx)
        f.append(*gff_args(good))
        bad = list(good)
        which = pick(rng, ["seqid_empty", "seqid_gt", "source_empty", "type_empty"])
        if which == "seqid_empty":
            bad[0] = pick(rng, ["", " ", "\t"])
        elif which == "seqid_gt":
            bad[0] = ">" + gen_text(rng, 3)
        elif which == "source_empty":
            bad[1] = pick(rng, ["", "  "])
        else:
            bad[2] = pick(rng, ["", " "])
        ctx.log("gff_decline", which, list(map(repr, bad)))
        before = str(f)
        ctx.oracle("gff_invalid_column_rejected")
        try:
            f.append(*gff_args(tuple(bad)))
        except ValueError as e:
            ctx.exc(e)
        else:
            ctx.fail("gff_invalid_column_rejected", "append accepted %s" % which, text=str(f))
        ctx.check(str(f) == before and gff_view(f) == [gff_expected(good)], "state_unchanged_after_reject",
                  "GFFFile changed by a rejected append")
        return
    if mode == "entries":
        n = pick(rng, [0, 1, 1, 2, 3, 5])
        entries = [gen_gff_entry(rng, ctx) for _ in range(n)]
        ctx.log("gff_entries", [list(e[:8]) + [list((e[8] or {}).items()) if e[8] is not None else None] for e in entries])
        ctx.mark_nontrivial(any(gff_special(e) for e in entries))
        f = GFFFile()
        for e in entries:
            f.append(*gff_args(e))
        expected = [gff_expected(e) for e in entries]
        ctx.check(gff_view(f) == expected, "gff_entry_roundtrip", "entries of the filled GFFFile differ from what was appended",
                  got=_short(gff_view(f), 900), expected=_short(expected, 900), text=str(f)[:900])
        if rng.random() < 0.5:
            buf = StringIO()
            f.write(buf)
            text = buf.getvalue()
        else:
            text = str(f)
        try:
            g = GFFFile.read(StringIO(text))
            got = gff_view(g)
        except Exception as e:
            ctx.exc(e)
            ctx.fail("gff_entry_roundtrip", "re-reading the written GFF3 text raised %s: %s" % (type(e).__name__, e), text=text[:900])
        ctx.check(got == expected, "gff_entry_roundtrip", "GFFFile.read(written text) entries differ from what was appended",
                  got=_short(got, 900), expected=_short(expected, 900), text=text[:900])
        ctx.check([d for d, _ in g.directives()] == ["gff-version 3"], "gff_entry_roundtrip", "directives changed")
        ctx.state(("gff_entries", n, [e[6] for e in entries], [e[7] for e in entries]))
        return
    # annotation
    nfeat = pick(rng, [0, 1, 1, 2, 3, 5])
    feats = gen_gff_annotation(rng, ctx, nfeat)
    seqid = gen_gff_name(rng, ctx, "seqid")
    source = gen_gff_name(rng, ctx, "source")
    stranded = bool(rng.random() < 0.8)
    ctx.log("gff_annotation", repr(seqid), repr(source), stranded,
            [[k, sorted(map(lambda l: [l[0], l[1], l[2]], locs)), list(q)] for k, locs, q in feats])
    ctx.mark_nontrivial(any(len(l) > 1 for _, l, _ in feats))
    annot = B.Annotation([make_feature(x) for x in feats])
    f = GFFFile()
    try:
        from vf.core import drop_defaults
        B.gff.set_annotation(f, annot, **drop_defaults(ctx, dict(seqid=seqid, source=source, is_stranded=stranded), dict(seqid=None, source=None, is_stranded=True)))
    except ValueError as e:
        ctx.exc(e)
        if seqid is not None and " " in seqid and "whitespace" in str(e):
            ctx.note("gff_seqid_with_blank_declined")
            return
        ctx.fail("gff_annotation_roundtrip", "set_annotation raised ValueError: %s" % e)
    text = str(f)
    try:
        g = GFFFile.read(StringIO(text))
        back = B.gff.get_annotation(g)
        entries = gff_view(g)
    except Exception as e:
        ctx.exc(e)
        ctx.fail("gff_annotation_roundtrip", "reading the written GFF3 annotation raised %s: %s" % (type(e).__name__, e), text=text[:900])
    expected = set()
    for k, locs, q in feats:
        ls = frozenset((a, b, s if stranded else None, d) for a, b, s, d in locs)
        expected.add((k, ls, frozenset(q)))
    got = {norm_feature(x) for x in back}
    diff = classify_annotation_diff(expected, got)
    ctx.oracle("gff_annotation_roundtrip")
    if diff is not None:
        ctx.fail("gff_annotation_roundtrip", diff[1], text=text[:1200])
    ctx.check(len(entries) == sum(len(l) for _, l, _ in {(k, l, frozenset(q)): (k, l, q) for k, l, q in feats}.values()),
              "gff_annotation_roundtrip", "number of GFF entries is not the number of locations")
    for e in entries:
        if e[0] != ("." if seqid is None else seqid.strip()) or e[1] != ("." if source is None else source.strip()):
            ctx.fail("gff_annotation_roundtrip", "seqid/source column %r/%r, given %r/%r" % (e[0], e[1], seqid, source))
        if (e[2] == "CDS") != (e[7] is not None) or (e[7] is not None and e[7] not in (0, 1, 2)):
            ctx.fail("gff_annotation_roundtrip", "phase column %r for type %r" % (e[7], e[2]))
    # CDS phases of uniformly stranded features against the GFF3 definition (observation, not judged)
    for k, locs, q in feats:
        strands_ = {l[2] for l in locs}
        if k == "CDS" and len(strands_) == 1 and dict(q).get("ID") is not None and stranded:
            order = sorted(locs, key=lambda l: l[0], reverse=("R" in strands_))
            ref = reference_phases([l[1] - l[0] + 1 for l in order])
            mine = [e[7] for e in entries if e[2] == "CDS" and e[8].get("ID") == dict(q)["ID"]]
            ctx.note("cds_phase_matches_reference" if mine == ref else "cds_phase_differs_from_reference")
    ctx.state(("gff_annot", nfeat, stranded, sorted(len(l) for _, l, _ in feats)))


# ------------------------------------------------------------------ edit histories: FASTA / FASTQ mappings
class MapHarness:
    """Lock-step of a FastaFile/FastqFile with an OrderedDict model."""

    def __init__(self, ctx, rng, kind):
        self.ctx, self.rng, self.kind = ctx, rng, kind
        self.cpl = rint(rng, 1, 100) if rng.random() < 0.8 else (80 if kind == "fasta" else None)
        if kind == "fastq":
            self.offset, self.off = gen_offset(rng)
        self.used = set()
        self.model = OrderedDict()
        self.changed = False

    # -- construction
    def new_file(self):
        if self.kind == "fasta":
            return B.fasta.FastaFile(chars_per_line=self.cpl)
        return B.fastq.FastqFile(self.offset, chars_per_line=self.cpl)

    def read(self, text):
        if self.kind == "fasta":
            return B.fasta.FastaFile.read(StringIO(text), chars_per_line=self.cpl)
        return B.fastq.FastqFile.read(StringIO(text), offset=self.offset, chars_per_line=self.cpl)

    def gen_value(self):
        rng = self.rng
        if self.kind == "fasta":
            ln = gen_len(rng, self.cpl, 0, 150)
            return gen_symbols(rng, pick(rng, [NUC, NUC_AMB, PROT]), ln, self.cpl)
        lo = 0 if (self.ctx.allowed("fastq_empty_sequence") and rng.random() < 0.08) else 1
        ln = gen_len(rng, self.cpl, lo, 150)
        s = gen_symbols(rng, pick(rng, [NUC, NUC_AMB]), ln)
        given, ref, _ = gen_scores(rng, ln, self.cpl, self.off)
        return (s, given, ref)

    def api_value(self, v):
        return v if self.kind == "fasta" else (v[0], v[1])

    def log_value(self, v):
        return v if self.kind == "fasta" else [v[0], v[2].tolist()]

    def same(self, got, v):
        if self.kind == "fasta":
            return got == v
        return fastq_items_equal([("", got)], [("", v[0], v[2])])

    def new_header(self):
        blanks = self.ctx.allowed("header_surrounding_blanks") and self.rng.random() < 0.1
        return gen_header(self.rng, self.used, blanks)

    # -- oracle
    def check(self, f, what):
        ctx, model = self.ctx, self.model
        ctx.oracle("edit_view_vs_model")
        keys = list(f.keys())
        # surrounding blanks of a header are stripped by the API (documented normalisation): compare modulo strip;
        # whether the object's own key agrees with its text is judged by the re-parse oracle below
        skeys = [k.strip() for k in keys]
        if len(f) != len(model) or len(keys) != len(model) or set(skeys) != set(model):
            ctx.fail("edit_view_vs_model", "after %s: keys %s, model %s" % (what, _short(keys), _short(list(model))))
        for h in keys:
            if h not in f or not self.same(f[h], model[h.strip()]):
                ctx.fail("edit_view_vs_model", "after %s: value of %r is %s, model %s" % (what, h, _short(f[h]), _short(self.log_value(model[h.strip()]))))
        items = list(f.items())
        ctx.oracle("edit_reparse_consistency")
        text = str(f)
        buf = StringIO()
        f.write(buf)
        if buf.getvalue() != text + "\n":
            ctx.fail("edit_reparse_consistency", "after %s: write() output is not str(file) + newline" % what)
        try:
            g = self.read(text)
        except B.InvalidFileError as e:
            ctx.exc(e)
            if not model and text.strip() == "":
                ctx.note("empty_file_declined")
                return None
            ctx.fail("edit_reparse_consistency", "after %s: reading str(file) raised InvalidFileError: %s" % (what, e), text=text[:800])
        except Exception as e:
            ctx.exc(e)
            ctx.fail("edit_reparse_consistency", "after %s: reading str(file) raised %s: %s" % (what, type(e).__name__, e), text=text[:800])
        gitems = list(g.items())
        ok = len(gitems) == len(items)
        if ok:
            for (h1, v1), (h2, v2) in zip(items, gitems):
                if h1 != h2 or (v1 != v2 if self.kind == "fasta" else not (v1[0] == v2[0] and np.array_equal(v1[1], v2[1]))):
                    ok = False
        if not ok:
            ctx.fail("edit_reparse_consistency", "after %s: view of the object %s differs from view of read(str(object)) %s"
                     % (what, _short(items, 400), _short(gitems, 400)), text=text[:800])
        return g

    # -- one step
    def step(self, f):
        ctx, rng, model = self.ctx, self.rng, self.model
        ops = ["set_new", "set_new", "replace", "replace", "delete", "delete", "delete_missing", "get_missing",
               "pop", "update", "clear", "reparse", "convert_set", "popitem", "setdefault"]
        op = pick(rng, ops)
        if op in ("replace", "delete", "pop", "popitem") and not model:
            op = "set_new"
        ctx.op(self.kind + "_" + op)
        if op == "set_new":
            h, v = self.new_header(), self.gen_value()
            ctx.log("set", h, self.log_value(v))
            self.assign(f, h, v)
        elif op == "replace":
            h, v = pick(rng, list(model)), self.gen_value()
            ctx.log("replace", h, self.log_value(v))
            self.assign(f, h, v)
        elif op == "delete":
            h = pick(rng, list(model))
            ctx.log("del", h)
            del f[h]
            del model[h]
            self.changed = True
        elif op in ("delete_missing", "get_missing"):
            h = gen_header(rng, set(self.used))
            ctx.log(op, h)
            ctx.oracle("key_error_expected")
            try:
                if op == "delete_missing":
                    del f[h]
                else:
                    f[h]
            except KeyError as e:
                ctx.exc(e)
            else:
                ctx.fail("key_error_expected", "%s of the absent key %r did not raise KeyError" % (op, h))
            ctx.oracle("state_unchanged_after_reject")
        elif op == "pop":
            h = pick(rng, list(model))
            ctx.log("pop", h)
            got = f.pop(h)
            if not self.same(got, model[h]):
                ctx.fail("edit_view_vs_model", "pop(%r) returned %s" % (h, _short(got)))
            del model[h]
            self.changed = True
        elif op == "popitem":
            ctx.log("popitem")
            h, got = f.popitem()
            if h not in model or not self.same(got, model[h]):
                ctx.fail("edit_view_vs_model", "popitem() returned %r, %s" % (h, _short(got)))
            del model[h]
            self.changed = True
        elif op == "setdefault":
            if model and rng.random() < 0.5:
                h, v = pick(rng, list(model)), self.gen_value()
                got = f.setdefault(h, self.api_value(v))
                if not self.same(got, model[h]):
                    ctx.fail("edit_view_vs_model", "setdefault(existing %r) returned %s" % (h, _short(got)))
                ctx.log("setdefault_existing", h)
            else:
                h, v = self.new_header(), self.gen_value()
                ctx.log("setdefault", h, self.log_value(v))
                if self.empty_declined(f, h, v):
                    return f
                f.setdefault(h, self.api_value(v))
                model[h.strip()] = v
                self.changed = True
        elif op == "update":
            n = rint(rng, 1, 3)
            upd = OrderedDict()
            for _ in range(n):
                h = pick(rng, list(model)) if (model and rng.random() < 0.4) else self.new_header()
                upd[h] = self.gen_value()
            upd = OrderedDict((h, v) for h, v in upd.items() if self.kind == "fasta" or len(v[0]) > 0)
            ctx.log("update", [[h, self.log_value(v)] for h, v in upd.items()])
            f.update(OrderedDict((h, self.api_value(v)) for h, v in upd.items()))
            for h, v in upd.items():
                model[h.strip()] = v
                self.changed = True
        elif op == "clear":
            ctx.log("clear")
            f.clear()
            self.changed = self.changed or bool(model)
            model.clear()
        elif op == "reparse":
            ctx.log("continue_on_reparsed_object")
            if model:
                f = self.read(str(f))
        elif op == "convert_set":
            h = self.new_header() if (not model or rng.random() < 0.6) else pick(rng, list(model))
            if self.kind == "fasta":
                s = gen_symbols(rng, pick(rng, [NUC, NUC_AMB, PROT]), gen_len(rng, self.cpl, 0, 100), self.cpl)
                sq = B.Prot(s) if any(c not in NUC_AMB for c in s) else B.Nuc(s)
                ctx.log("fasta.set_sequence", h, s)
                B.fasta.set_sequence(f, sq, h)
                model[h.strip()] = s
            else:
                ln = gen_len(rng, self.cpl, 1, 100)
                s = gen_symbols(rng, NUC_AMB, ln)
                given, ref, _ = gen_scores(rng, ln, self.cpl, self.off)
                ctx.log("fastq.set_sequence", h, s, ref.tolist())
                B.fastq.set_sequence(f, B.Nuc(s), given, h)
                model[h.strip()] = (s, given, ref)
            self.changed = True
        self.check(f, op)
        return f

    def empty_declined(self, f, h, v):
        """FASTQ entry of length 0: either declined with ValueError (file unchanged) or it must round-trip."""
        if self.kind != "fastq" or len(v[0]) > 0:
            return False
        self.ctx.oracle("fastq_empty_declined_or_roundtrip")
        before = str(f)
        try:
            f[h] = self.api_value(v)
        except ValueError as e:
            self.ctx.exc(e)
            if str(f) != before:
                self.ctx.fail("state_unchanged_after_reject", "FastqFile changed by a rejected empty entry")
            self.check(f, "rejected empty entry")
            return True
        self.model[h.strip()] = v
        self.changed = True
        try:
            self.check(f, "set empty entry")
        except Exception as e:
            oracle = getattr(e, "oracle", "unexpected_exception")
            self.ctx.fail("fastq_empty_declined_or_roundtrip", "zero-length entry %r accepted, then: %s" % (h, e), via=oracle)
        return True

    def assign(self, f, h, v):
        if self.empty_declined(f, h, v):
            return
        f[h] = self.api_value(v)
        self.model[h.strip()] = v
        self.changed = True
        if h != h.strip():
            self.ctx.mark_nontrivial()


def case_edit_map(rng, ctx, kind):
    hz = MapHarness(ctx, rng, kind)
    ctx.log(kind + "_history", hz.cpl, repr(getattr(hz, "offset", None)))
    f = hz.new_file()
    n0 = pick(rng, [0, 0, 1, 2, 3])
    for _ in range(n0):
        h, v = gen_header(rng, hz.used), hz.gen_value()
        if kind == "fastq" and len(v[0]) == 0:
            continue
        ctx.log("init", h, hz.log_value(v))
        f[h] = hz.api_value(v)
        hz.model[h] = v
    if hz.model and rng.random() < 0.5:
        f = hz.read(str(f))
        ctx.log("start_from_parsed_file")
    hz.check(f, "initial fill")
    for _ in range(rint(rng, 1, 12)):
        f = hz.step(f)
        ctx.state((kind, [(h, len(hz.log_value(v)[0]) if kind == "fastq" else len(v)) for h, v in hz.model.items()]))
    ctx.mark_nontrivial(hz.changed)
    if not hz.changed:
        ctx._nontrivial_flag = False


# ------------------------------------------------------------------ edit histories: GenBankFile (list of fields)
GB_FIELD_NAMES = ["LOCUS", "DEFINITION", "ACCESSION", "VERSION", "KEYWORDS", "SOURCE", "REFERENCE", "REFERENCE",
                  "COMMENT", "DBLINK", "FEATURES", "ORIGIN"]


def gen_gb_line(rng):
    kind = pick(rng, ["text", "text", "text", "empty", "blanks", "indented"])
    if kind == "empty":
        return ""
    if kind == "blanks":
        return " " * rint(rng, 1, 4)
    t = gen_text(rng, rint(rng, 1, 60), specials="/=\";.", p_special=0.1)
    if kind == "indented":
        return " " * rint(rng, 1, 5) + t + " " * rint(rng, 0, 2)
    return t


def gen_gb_field(rng, ctx):
    """(name as given, content, subfields or None)."""
    r = rng.random()
    if r < 0.6:
        name = pick(rng, GB_FIELD_NAMES)
        if rng.random() < 0.3:
            name = name.lower() if rng.random() < 0.5 else name.capitalize()
    else:
        name = gen_text(rng, rint(rng, 1, 12), p_uni=0, punct="_-.")
        if name.startswith("//"):
            name = "X" + name[1:]
    if name.upper() in ("FEATURES", "ORIGIN"):
        if name.upper() == "ORIGIN":
            content = ["%9d %s" % (1 + 60 * i, gen_symbols(rng, "acgt", rint(rng, 1, 10))) for i in range(rint(rng, 0, 3))]
        else:
            content = []
            for _ in range(rint(rng, 0, 3)):
                content.append("     %-15s %d..%d" % (pick(rng, GB_KEYS), rint(rng, 1, 50), rint(rng, 50, 99)))
                for _ in range(rint(rng, 0, 2)):
                    content.append(" " * 21 + '/%s="%s"' % (pick(rng, QUAL_KEYS), gen_text(rng, rint(rng, 0, 20), exclude='"')))
        sub = None if rng.random() < 0.7 else {"IGNORED": ["x"]}
        return name, content, sub
    empty_ok = ctx.allowed("gb_empty_line_list")
    nlines = rint(rng, 1, 3)
    if empty_ok and rng.random() < 0.08:
        nlines = 0
    content = [gen_gb_line(rng) for _ in range(nlines)]
    sub = None
    if rng.random() < 0.4:
        sub = OrderedDict()
        seen = set()
        for _ in range(rint(rng, 0, 3)):
            sn = pick(rng, ["ORGANISM", "AUTHORS", "TITLE", "JOURNAL", "PUBMED", "organism", "Sub field", "ABCDEFGHIJ", "x"])
            if sn.upper() in seen:
                continue
            seen.add(sn.upper())
            k = rint(rng, 1, 3)
            if empty_ok and rng.random() < 0.08:
                k = 0
            sub[sn] = [gen_gb_line(rng) for _ in range(k)]
    return name, content, sub


def gb_model_field(name, content, sub):
    up = name.strip().upper()
    if up in ("FEATURES", "ORIGIN"):
        return [up, list(content), OrderedDict()]
    return [up, list(content), OrderedDict((k.upper().strip(), list(v)) for k, v in (sub or {}).items())]


def gb_view(f):
    return [f[i] for i in range(len(f))]


def _lines_match(got, given):
    """An empty line list cannot be written; one empty line is the only faithful rendering."""
    return list(got) == list(given) or (len(given) == 0 and list(got) == [""])


def gb_check(ctx, f, model, what):
    ctx.oracle("edit_view_vs_model")
    if len(f) != len(model):
        ctx.fail("edit_view_vs_model", "after %s: len(file) = %d, model %d" % (what, len(f), len(model)))
    view = gb_view(f)
    for i, ((name, content, sub), (mname, mcontent, msub)) in enumerate(zip(view, model)):
        ok = name == mname and _lines_match(content, mcontent) and list(sub.keys()) == list(msub.keys()) \
            and all(_lines_match(sub[k], msub[k]) for k in msub)
        if not ok:
            ctx.fail("edit_view_vs_model", "after %s: field %d is %s, model %s" % (what, i, _short((name, content, dict(sub)), 500), _short((mname, mcontent, dict(msub)), 500)),
                     text=str(f)[:1200])
    if model:
        last = f[-1]
        first = f[-len(model)]
        if (last[0], last[1]) != (view[-1][0], view[-1][1]) or (first[0], first[1]) != (view[0][0], view[0][1]):
            ctx.fail("edit_view_vs_model", "after %s: negative indices do not address the same fields" % what)
        nm = model[len(model) // 2][0]
        if f.get_indices(nm) != [i for i, m in enumerate(model) if m[0] == nm]:
            ctx.fail("edit_view_vs_model", "after %s: get_indices(%r) = %r" % (what, nm, f.get_indices(nm)))
    ctx.oracle("edit_reparse_consistency")
    text = str(f)
    buf = StringIO()
    f.write(buf)
    if buf.getvalue() != text + "\n":
        ctx.fail("edit_reparse_consistency", "after %s: write() output is not str(file) + newline" % what)
    try:
        g = B.gb.GenBankFile.read(StringIO(text))
        gview = gb_view(g)
    except Exception as e:
        ctx.exc(e)
        ctx.fail("edit_reparse_consistency", "after %s: reading str(file) raised %s: %s" % (what, type(e).__name__, e), text=text[:1200])
    if gview != view:
        ctx.fail("edit_reparse_consistency", "after %s: fields of the object differ from fields of read(str(object))" % what,
                 object_view=_short(view, 800), reparsed_view=_short(gview, 800), text=text[:1200])
    return g


def gb_reject(ctx, f, model, what, fn):
    ctx.oracle("index_error_expected")
    try:
        res = fn()
    except IndexError as e:
        ctx.exc(e)
    else:
        ctx.fail("index_error_expected", "%s on %d fields returned %s instead of raising IndexError" % (what, len(model), _short(res)),
                 text=str(f)[:800])
    ctx.oracle("state_unchanged_after_reject")
    try:
        gb_check(ctx, f, model, what)
    except Exception as e:
        if getattr(e, "oracle", None) is None:
            raise
        ctx.fail("state_unchanged_after_reject", "rejected %s changed the file: %s" % (what, e))


def case_edit_genbank(rng, ctx):
    f = B.gb.GenBankFile()
    model = []
    changed = False
    for _ in range(pick(rng, [0, 0, 1, 2, 4])):
        name, content, sub = gen_gb_field(rng, ctx)
        ctx.log("init_append", name, content, None if sub is None else list(sub.items()))
        f.append(name, content, sub)
        model.append(gb_model_field(name, content, sub))
    if rng.random() < 0.4:
        f = B.gb.GenBankFile.read(StringIO(str(f)))
        ctx.log("start_from_parsed_file")
    gb_check(ctx, f, model, "initial fill")
    for _ in range(rint(rng, 1, 12)):
        n = len(model)
        op = pick(rng, ["append", "insert", "insert", "set", "set", "set_field", "set_field", "delete", "delete",
                        "bad_index", "clear", "reparse", "high_level"])
        if op in ("set", "delete") and n == 0:
            op = "append"
        ctx.op("genbank_" + op)
        if op == "append":
            name, content, sub = gen_gb_field(rng, ctx)
            ctx.log("append", name, content, None if sub is None else list(sub.items()))
            f.append(name, content, sub) if (sub is not None or rng.random() < 0.5) else f.append(name, content)
            model.append(gb_model_field(name, content, sub))
            changed = True
        elif op == "insert":
            i = rint(rng, -n, n)
            name, content, sub = gen_gb_field(rng, ctx)
            ctx.log("insert", i, name, content, None if sub is None else list(sub.items()))
            f.insert(i, name, content, sub)
            model.insert(i if i >= 0 else n + i, gb_model_field(name, content, sub))
            changed = True
            ctx.mark_nontrivial(i < 0)
        elif op == "set":
            i = rint(rng, -n, n - 1)
            name, content, sub = gen_gb_field(rng, ctx)
            ctx.log("setitem", i, name, content, None if sub is None else list(sub.items()))
            if sub is None and rng.random() < 0.5:
                f[i] = (name, content)
            else:
                f[i] = (name, content, sub)
            model[i] = gb_model_field(name, content, sub)
            changed = True
            ctx.mark_nontrivial(i < 0)
        elif op == "set_field":
            name, content, sub = gen_gb_field(rng, ctx)
            if model and rng.random() < 0.5:
                target = pick(rng, model)[0]
                while (name.upper() in ("FEATURES", "ORIGIN")) != (target in ("FEATURES", "ORIGIN")) or \
                        (target in ("FEATURES", "ORIGIN") and name.upper() != target):
                    name, content, sub = gen_gb_field(rng, ctx)
                name = target
            idx = [i for i, m in enumerate(model) if m[0] == name.strip().upper()]
            ctx.log("set_field", name, content, None if sub is None else list(sub.items()))
            if len(idx) > 1:
                ctx.oracle("ambiguous_set_field_rejected")
                try:
                    f.set_field(name, content, sub)
                except B.InvalidFileError as e:
                    ctx.exc(e)
                else:
                    ctx.fail("ambiguous_set_field_rejected", "set_field(%r) accepted although the field occurs %d times" % (name, len(idx)))
            else:
                f.set_field(name, content, sub)
                if idx:
                    model[idx[0]] = gb_model_field(name, content, sub)
                else:
                    model.append(gb_model_field(name, content, sub))
                changed = True
        elif op == "delete":
            i = rint(rng, -n, n - 1)
            ctx.log("del", i)
            del f[i]
            del model[i]
            changed = True
            ctx.mark_nontrivial(i < 0)
        elif op == "bad_index":
            low_ok = ctx.allowed("gb_index_below_minus_len")
            bad = pick(rng, [n, n + 1, n + 5] + ([-n - 1, -n - 2, -2 * n - 3] if low_ok else []))
            how = pick(rng, ["get", "set", "del", "insert"])
            if how == "insert" and bad == n:
                bad = n + 1
            ctx.log("bad_index", how, bad)
            ctx.mark_nontrivial()
            if how == "get":
                gb_reject(ctx, f, model, "file[%d]" % bad, lambda: f[bad])
            elif how == "set":
                gb_reject(ctx, f, model, "file[%d] = ..." % bad, lambda: f.__setitem__(bad, ("COMMENT", ["x"])))
            elif how == "del":
                gb_reject(ctx, f, model, "del file[%d]" % bad, lambda: f.__delitem__(bad))
            else:
                gb_reject(ctx, f, model, "file.insert(%d, ...)" % bad, lambda: f.insert(bad, "COMMENT", ["x"]))
            continue
        elif op == "clear":
            ctx.log("clear")
            while len(f):
                del f[-1 if rng.random() < 0.5 else 0]
            changed = changed or bool(model)
            model = []
        elif op == "reparse":
            ctx.log("continue_on_reparsed_object")
            f = B.gb.GenBankFile.read(StringIO(str(f)))
        elif op == "high_level":
            # set_sequence / set_annotation / set_locus go through set_field: position logic is modelled,
            # the content is taken from the object and checked through the typed getter
            which = pick(rng, ["ORIGIN", "FEATURES", "LOCUS"])
            idx = [i for i, m in enumerate(model) if m[0] == which]
            if len(idx) > 1:
                continue
            if which == "ORIGIN":
                s = gen_symbols(rng, NUC_AMB, rint(rng, 1, 130))
                st = pick(rng, [1, 7, 1000])
                ctx.log("set_sequence", s, st)
                B.gb.set_sequence(f, B.Nuc(s), st)
            elif which == "FEATURES":
                feats = [gen_feature(rng, ctx, 1, 100, "gb")[0] for _ in range(rint(rng, 1, 3))]
                ctx.log("set_annotation", [[k, sorted(map(lambda l: [l[0], l[1], l[2], sorted(l[3])], locs), key=repr), list(q)] for k, locs, q in feats])
                B.gb.set_annotation(f, B.Annotation([make_feature(x) for x in feats]))
            else:
                loc = ("NAME%d" % rint(rng, 0, 99), rint(rng, 1, 10 ** 6), "DNA", False, "SYN", "01-JAN-2000")
                ctx.log("set_locus", list(loc))
                B.gb.set_locus(f, *loc)
            pos = idx[0] if idx else len(model)
            new = [which, list(f[pos][1]), OrderedDict()]
            if idx:
                model[pos] = new
            else:
                model.append(new)
            changed = True
            gb_check(ctx, f, model, "high_level " + which)
            with warnings.catch_warnings():
                warnings.simplefilter("ignore")
                if which == "ORIGIN":
                    ctx.check(str(B.gb.get_sequence(f)) == s, "gb_sequence", "get_sequence after set_sequence in a history differs")
                elif which == "FEATURES":
                    diff = classify_annotation_diff({norm_model_feature(x) for x in feats}, {norm_feature(x) for x in B.gb.get_annotation(f)})
                    if diff:
                        ctx.fail(diff[0], "history: " + diff[1], text=str(f)[:1200])
                else:
                    ctx.check(tuple(B.gb.get_locus(f)) == loc, "gb_locus", "get_locus after set_locus in a history differs")
            continue
        gb_check(ctx, f, model, op)
        ctx.state(("gb_edit", [(m[0], len(m[1]), len(m[2])) for m in model]))
    if not changed:
        ctx._nontrivial_flag = False
    else:
        ctx.mark_nontrivial(len(model) > 0 or changed)


# ------------------------------------------------------------------ edit histories: GFFFile (entries + directives)
def gff_model_entries(items):
    return [gff_expected(x[1]) for x in items if x[0] == "e"]


def gff_model_insert(items, index, entry):
    """Entry index semantics of GFFFile.insert: directly before the line of entry `index`."""
    pos = [k for k, x in enumerate(items) if x[0] == "e"]
    n = len(pos)
    if index == n:
        items.append(("e", entry))
    else:
        items.insert(pos[index], ("e", entry))     # negative indices like a list


def gff_check(ctx, f, items, what):
    ctx.oracle("edit_view_vs_model")
    exp = gff_model_entries(items)
    try:
        view = gff_view(f)
    except Exception as e:
        ctx.exc(e)
        ctx.fail("edit_view_vs_model", "after %s: reading the entries of the object raised %s: %s" % (what, type(e).__name__, e), text=str(f)[:900])
    if len(f) != len(exp) or view != exp:
        ctx.fail("edit_view_vs_model", "after %s: entries %s, model %s" % (what, _short(view, 700), _short(exp, 700)), text=str(f)[:900])
    if list(map(gff_norm_view, f)) != view:
        ctx.fail("edit_view_vs_model", "after %s: iteration differs from indexing" % what)
    if exp and (gff_norm_view(f[-1]) != exp[-1] or gff_norm_view(f[-len(exp)]) != exp[0]):
        ctx.fail("edit_view_vs_model", "after %s: negative indices do not address the same entries" % what)
    dexp = [(x[1], k) for k, x in enumerate(items) if x[0] == "d"]
    if f.directives() != dexp:
        ctx.fail("edit_view_vs_model", "after %s: directives() = %s, model %s" % (what, _short(f.directives()), _short(dexp)))
    ctx.oracle("edit_reparse_consistency")
    text = str(f)
    buf = StringIO()
    f.write(buf)
    if buf.getvalue() != text + "\n":
        ctx.fail("edit_reparse_consistency", "after %s: write() output is not str(file) + newline" % what)
    try:
        g = B.gff.GFFFile.read(StringIO(text))
        gview = gff_view(g)
    except Exception as e:
        ctx.exc(e)
        ctx.fail("edit_reparse_consistency", "after %s: reading str(file) raised %s: %s" % (what, type(e).__name__, e), text=text[:900])
    if gview != view or g.directives() != f.directives():
        ctx.fail("edit_reparse_consistency", "after %s: view of the object differs from view of read(str(object))" % what,
                 object_view=_short(view, 700), reparsed_view=_short(gview, 700), text=text[:900])


def gff_reject(ctx, f, items, what, fn, exc=IndexError):
    ctx.oracle("index_error_expected")
    try:
        res = fn()
    except exc as e:
        ctx.exc(e)
    else:
        ctx.fail("index_error_expected", "%s returned %s instead of raising %s" % (what, _short(res), exc.__name__), text=str(f)[:600])
    ctx.oracle("state_unchanged_after_reject")
    try:
        gff_check(ctx, f, items, what)
    except Exception as e:
        if getattr(e, "oracle", None) is None:
            raise
        ctx.fail("state_unchanged_after_reject", "rejected %s changed the file: %s" % (what, e))


def log_entry(e):
    return [repr(x) if isinstance(x, float) else x for x in e[:8]] + [None if e[8] is None else list(e[8].items())]


def case_edit_gff(rng, ctx):
    f = B.gff.GFFFile()
    items = [("d", "gff-version 3")]
    changed = False
    for _ in range(pick(rng, [0, 0, 1, 2, 4])):
        e = gen_gff_entry(rng, ctx)
        ctx.log("init_append", log_entry(e))
        f.append(*gff_args(e))
        items.append(("e", e))
    if rng.random() < 0.4:
        f = B.gff.GFFFile.read(StringIO(str(f)))
        ctx.log("start_from_parsed_file")
    gff_check(ctx, f, items, "initial fill")
    for _ in range(rint(rng, 1, 12)):
        n = sum(1 for x in items if x[0] == "e")
        op = pick(rng, ["append", "append", "insert", "insert", "set", "set", "delete", "delete", "directive",
                        "bad_index", "clear", "reparse", "fasta_directive"])
        if op in ("set", "delete") and n == 0:
            op = "append"
        ctx.op("gff_" + op)
        if op == "append":
            e = gen_gff_entry(rng, ctx)
            ctx.log("append", log_entry(e))
            f.append(*gff_args(e))
            items.append(("e", e))
            changed = True
        elif op == "insert":
            i = rint(rng, -n, n)
            e = gen_gff_entry(rng, ctx)
            ctx.log("insert", i, log_entry(e))
            f.insert(i, *gff_args(e))
            gff_model_insert(items, i, e)
            changed = True
            ctx.mark_nontrivial(i < 0)
        elif op == "set":
            i = rint(rng, -n, n - 1)
            e = gen_gff_entry(rng, ctx)
            ctx.log("setitem", i, log_entry(e))
            f[i] = gff_args(e)
            pos = [k for k, x in enumerate(items) if x[0] == "e"]
            items[pos[i]] = ("e", e)
            changed = True
            ctx.mark_nontrivial(i < 0)
        elif op == "delete":
            i = rint(rng, -n, n - 1)
            ctx.log("del", i)
            del f[i]
            pos = [k for k, x in enumerate(items) if x[0] == "e"]
            del items[pos[i]]
            changed = True
            ctx.mark_nontrivial(i < 0)
        elif op == "directive":
            name = pick(rng, ["sequence-region", "species", "genome-build", "Example directive", "feature-ontology", "#"])
            args = [gen_text(rng, rint(rng, 1, 8), p_space=0) for _ in range(rint(rng, 0, 3))]
            ctx.log("append_directive", name, args)
            f.append_directive(name, *args)
            items.append(("d", name + " " + " ".join(args)))
            changed = True
        elif op == "fasta_directive":
            ctx.log("append_directive", "FASTA")
            gff_reject(ctx, f, items, "append_directive('FASTA')", lambda: f.append_directive("FASTA"), NotImplementedError)
            continue
        elif op == "bad_index":
            bad = pick(rng, [n, n + 1, n + 5, -n - 1, -n - 2])
            how = pick(rng, ["get", "set", "del", "insert"])
            if how == "insert" and bad == n:
                bad = n + 1
            ctx.log("bad_index", how, bad)
            ctx.mark_nontrivial()
            e = gff_args(gen_gff_entry(rng, ctx))
            if how == "get":
                gff_reject(ctx, f, items, "file[%d]" % bad, lambda: f[bad])
            elif how == "set":
                gff_reject(ctx, f, items, "file[%d] = ..." % bad, lambda: f.__setitem__(bad, e))
            elif how == "del":
                gff_reject(ctx, f, items, "del file[%d]" % bad, lambda: f.__delitem__(bad))
            else:
                gff_reject(ctx, f, items, "file.insert(%d, ...)" % bad, lambda: f.insert(bad, *e))
            continue
        elif op == "clear":
            ctx.log("clear")
            while len(f):
                del f[-1 if rng.random() < 0.5 else 0]
            changed = changed or n > 0
            items = [x for x in items if x[0] == "d"]
        elif op == "reparse":
            ctx.log("continue_on_reparsed_object")
            f = B.gff.GFFFile.read(StringIO(str(f)))
        gff_check(ctx, f, items, op)
        ctx.state(("gff_edit", [x[0] if x[0] == "d" else (x[1][6], x[1][7], len(x[1][8] or {})) for x in items]))
    ctx.mark_nontrivial(changed and any(gff_special(x[1]) for x in items if x[0] == "e"))
    if not changed:
        ctx._nontrivial_flag = False


# ------------------------------------------------------------------ general.py (file paths)
def _path(suffix):
    B.counter += 1
    return os.path.join(B.work, "c12_%d_%d%s" % (os.getpid(), B.counter, suffix))


def case_general(rng, ctx):
    sio = B.sio
    mode = pick(rng, ["single", "single", "multi", "multi_genbank"])
    ctx.op("general_" + mode)
    ctx.oracle("general_roundtrip")
    paths = []
    try:
        if mode == "single":
            suffix = pick(rng, [".fasta", ".fa", ".mpfa", ".fna", ".fsa", ".fastq", ".fq", ".gb", ".gbk", ".gp"])
            if suffix == ".gp" or (suffix in (".fasta", ".fa", ".mpfa", ".fna", ".fsa") and rng.random() < 0.4):
                s = gen_symbols(rng, PROT, rint(rng, 1, 200), 60)
                if suffix != ".gp" and all(c in NUC_AMB + "XU" for c in s):
                    s += "L"        # FASTA carries no type: make the string unambiguously a protein
                sq = B.Prot(s)
            else:
                s = gen_symbols(rng, pick(rng, [NUC, NUC_AMB]), rint(rng, 1, 200))
                sq = B.Nuc(s)
            ctx.log("save_sequence", suffix, type(sq).__name__, s)
            ctx.mark_nontrivial(len(s) > 60)
            p = _path(suffix)
            paths.append(p)
            sio.save_sequence(p, sq)
            with warnings.catch_warnings():
                warnings.simplefilter("ignore")
                back = sio.load_sequence(p)
            if str(back) != s or type(back) is not type(sq):
                ctx.fail("general_roundtrip", "load_sequence(save_sequence(%s)) = %s, saved %s(%r)" % (suffix, _short(back), type(sq).__name__, s))
        elif mode == "multi":
            suffix = pick(rng, [".fasta", ".fa", ".fastq", ".fq", ".gb"])
            if suffix in (".fastq", ".fq") and not ctx.allowed("general_save_sequences_fastq"):
                suffix = ".fasta"
            used = set()
            d = OrderedDict()
            for _ in range(rint(rng, 1, 4)):
                h = gen_header(rng, used)
                d[h] = B.Nuc(gen_symbols(rng, pick(rng, [NUC, NUC_AMB]), rint(rng, 1, 150)))
            ctx.log("save_sequences", suffix, [[h, str(v)] for h, v in d.items()])
            ctx.mark_nontrivial(len(d) > 1)
            p = _path(suffix)
            paths.append(p)
            if suffix == ".gb":
                try:
                    sio.save_sequences(p, d)
                except NotImplementedError as e:
                    ctx.exc(e)
                    ctx.note("multi_record_genbank_writing_declined")
                    return
                ctx.fail("general_roundtrip", "save_sequences(.gb) neither declined nor documented")
            sio.save_sequences(p, d)
            back = sio.load_sequences(p)
            got = [(h, str(v)) for h, v in back.items()]
            if got != [(h, str(v)) for h, v in d.items()]:
                ctx.fail("general_roundtrip", "load_sequences(save_sequences(%s)) = %s, saved %s" % (suffix, _short(got), _short([(h, str(v)) for h, v in d.items()])))
        else:
            fmt = pick(rng, ["gb", "gp"])
            recs = []
            text = ""
            for k in range(rint(rng, 1, 4)):
                name = ("record %d %s" % (k, gen_text(rng, rint(rng, 0, 10), p_space=0))).strip()
                s = gen_symbols(rng, PROT if fmt == "gp" else NUC_AMB, rint(rng, 1, 150), 60)
                f = B.gb.GenBankFile()
                f.set_field("DEFINITION", [name])
                B.gb.set_sequence(f, B.Prot(s) if fmt == "gp" else B.Nuc(s))
                text += str(f) + "\n"
                recs.append((name, s))
            ctx.log("load_sequences_multi", fmt, recs)
            ctx.mark_nontrivial(len(recs) > 1)
            p = _path("." + fmt)
            paths.append(p)
            with open(p, "w") as fh:
                fh.write(text)
            back = sio.load_sequences(p)
            got = [(h, str(v)) for h, v in back.items()]
            if got != recs:
                ctx.fail("general_roundtrip", "load_sequences(multi-record .%s) = %s, written %s" % (fmt, _short(got), _short(recs)))
    finally:
        for p in paths:
            try:
                os.remove(p)
            except OSError:
                pass


def run_case(stratum, rng, ctx):
    return CASES[stratum](rng, ctx)


CASES = {"fasta": case_fasta, "fastq": case_fastq, "genbank": case_genbank, "gff": case_gff,
         "edit_fasta": lambda rng, ctx: case_edit_map(rng, ctx, "fasta"),
         "edit_fastq": lambda rng, ctx: case_edit_map(rng, ctx, "fastq"),
         "edit_genbank": case_edit_genbank, "edit_gff": case_edit_gff, "general": case_general}


# ------------------------------------------------------------------ oracle audit
def selftest(ctx):
    rng = np.random.default_rng(12)
    # generators: printable, never blank at the ends, never a line break; headers unique also after strip
    used = set()
    heads = []
    for _ in range(400):
        t = gen_text(rng, rint(rng, 0, 60), specials=">@+;%=&,")
        assert t == t.strip() and t.isprintable() and "\n" not in t, repr(t)
        t2 = gen_text(rng, rint(rng, 1, 12), p_uni=0, p_space=0, punct="")
        assert t2.isalnum() and t2.isascii(), repr(t2)
        heads.append(gen_header(rng, used, blanks=bool(rng.random() < 0.3)))
    assert len({h.strip() for h in heads}) == len(heads)
    assert all(c.isprintable() and not c.isspace() for c in _UNI + _PUNCT + _ALNUM)
    assert set(PROT) == set(B.Prot.alphabet.get_symbols()) and set(NUC_AMB) == set(B.Nuc.alphabet_amb.get_symbols())
    # location model <-> Location for every defect subset and strand
    for bits in range(16):
        d = frozenset(n for k, n in enumerate(["BL", "BR", "UNK", "BET"]) if bits >> k & 1)
        for st in ("F", "R", None):
            loc = (3, 9, st, d)
            assert norm_location(make_location(loc)) == loc
    assert norm_location(B.Location(1, 2, B.S.FORWARD, B.D.MISS_LEFT))[3] != frozenset()
    # diff classifier
    a = ("gene", frozenset({(1, 5, "F", frozenset())}), frozenset({("a", "b")}))
    a_loc = ("gene", frozenset({(1, 5, "F", frozenset({"BR"}))}), frozenset({("a", "b")}))
    a_q = ("gene", frozenset({(1, 5, "F", frozenset())}), frozenset({("a", None)}))
    b = ("CDS", frozenset({(2, 3, "R", frozenset())}), frozenset())
    assert classify_annotation_diff({a, b}, {b, a}) is None
    assert classify_annotation_diff({a_loc, b}, {a, b})[0] == "gb_location"
    assert classify_annotation_diff({a_q, b}, {a, b})[0] == "gb_qualifier"
    assert classify_annotation_diff({a, b}, {b})[0] == "gb_feature_dropped"
    assert classify_annotation_diff({a}, {b})[0] == "gb_feature_set"
    assert classify_annotation_diff(set(), {b})[0] == "gb_feature_set"
    # CDS phase reference against brute force over the concatenated coding sequence
    for lens in itertools.product(range(1, 6), repeat=3):
        ref = reference_phases(list(lens))
        pos = 0
        for ln, ph in zip(lens, ref):
            brute = next(k for k in range(3) if (pos + k) % 3 == 0)
            assert brute == ph, (lens, ref)
            pos += ln
    # GFF entry-index model against plain list semantics
    for n in range(4):
        for pattern in itertools.product("de", repeat=n + 1):
            base = [("d", "x")] + [(k, i) for i, k in enumerate(pattern)]
            ents = [x[1] for x in base if x[0] == "e"]
            for idx in range(-len(ents), len(ents) + 1):
                items = list(base)
                gff_model_insert(items, idx, "NEW")
                ref = list(ents)
                ref.insert(idx, "NEW")
                assert [x[1] for x in items if x[0] == "e"] == ref, (pattern, idx)
                assert [x for x in items if x[0] == "d"] == [x for x in base if x[0] == "d"]
    # GenBank field model
    assert gb_model_field(" locus ", ["a"], {"org ": ["x"], "B": []}) == ["LOCUS", ["a"], OrderedDict([("ORG", ["x"]), ("B", [])])]
    assert gb_model_field("features", [" x"], {"S": ["y"]}) == ["FEATURES", [" x"], OrderedDict()]
    assert _lines_match([""], []) and _lines_match(["a"], ["a"]) and not _lines_match(["a"], []) and not _lines_match([], ["a"])
    # FASTQ comparison and the score-line observer
    q = np.array([1, 2, 3])
    assert fastq_items_equal([("a", ("ACG", np.array([1, 2, 3], dtype=np.int8)))], [("a", "ACG", q)])
    assert not fastq_items_equal([("a", ("ACG", np.array([1, 2, 4])))], [("a", "ACG", q)])
    assert not fastq_items_equal([("a", ("ACG", np.array([1.0, 2.0, 3.0])))], [("a", "ACG", q)])
    assert not fastq_items_equal([("b", ("ACG", q))], [("a", "ACG", q)])
    assert not fastq_items_equal([], [("a", "ACG", q)])

    class _N:
        def __init__(self):
            self.n = {}

        def note(self, k):
            self.n[k] = self.n.get(k, 0) + 1
    nn = _N()
    assert count_special_score_lines(nn, "@id\nACGT\nAC\n+\n@III\n+I\n@next\nA\n+\nI\n")
    assert nn.n == {"score_line_starts_with_at": 1, "score_line_starts_with_plus": 1}, nn.n
    # score generator covers the printable range and nothing else
    lo, hi = 200, 0
    for _ in range(300):
        given, ref, _k = gen_scores(rng, 40, 7, 33)
        lo, hi = min(lo, int(ref.min()) + 33), max(hi, int(ref.max()) + 33)
        assert np.array_equal(np.asarray(given).astype(np.int64), ref)
    assert (lo, hi) == (33, 126), (lo, hi)
    # gff expected view
    e = (None, "s", "t", 1, 2, 3, "F", None, None)
    assert gff_expected(e) == (".", "s", "t", 1, 2, 3.0, "F", None, {})


# ------------------------------------------------------------------ probes (one mechanism each)
def _gb_probe(ctx, feats, symbols="ACGTACGTACGTACGTACGTACGTACGTAC", start=1, fmt="gb"):
    model = (feats, symbols, start)
    ctx.log("genbank", fmt, symbols, start, [[k, sorted(map(lambda l: [l[0], l[1], l[2], sorted(l[3])], locs), key=repr), list(q)] for k, locs, q in feats])
    f, _ = gb_write(model, fmt)
    gb_check_roundtrip(ctx, model, fmt, str(f))


def _probe_single_base_beyond_right(ctx):
    """S16a: Location(p, p, defect=BEYOND_RIGHT) alone, complemented and inside a join."""
    for locs in ([(5, 5, "F", frozenset({"BR"}))], [(7, 7, "R", frozenset({"BR"}))],
                 [(2, 4, "F", frozenset()), (9, 9, "F", frozenset({"BR"}))]):
        ctx.op("probe_single_base_beyond_right")
        _gb_probe(ctx, [("gene", frozenset(locs), (("gene", "x"),))])


def _probe_all_qualifiers_without_value(ctx):
    """S16b: every qualifier of the feature is a flag (value None)."""
    for qual in ((("pseudo", None),), (("pseudo", None), ("partial", None))):
        ctx.op("probe_all_qualifiers_without_value")
        _gb_probe(ctx, [("gene", frozenset({(1, 5, "F", frozenset())}), qual),
                        ("CDS", frozenset({(7, 9, "F", frozenset())}), (("product", "p"),))])


def _probe_empty_annotation(ctx):
    ctx.op("probe_empty_annotation")
    _gb_probe(ctx, [])


def _probe_double_quote(ctx):
    for v in ('say "hi" ok', '"', 'a"b'):
        ctx.op("probe_qualifier_double_quote")
        _gb_probe(ctx, [("gene", frozenset({(1, 5, "F", frozenset())}), (("note", v),))])


def _probe_origin_9_digits(ctx):
    for start, n in ((100_000_000, 5), (99_999_990, 130), (999_999_000, 61)):
        ctx.op("probe_origin_9_digits")
        _gb_probe(ctx, [("gene", frozenset({(start, start + 2, "F", frozenset())}), ())], symbols=("ACGTTGCA" * 20)[:n], start=start)


def _probe_gb_index_below(ctx):
    for bad in (-4, -5, -7):
        for how in ("get", "set", "insert", "del"):
            f = B.gb.GenBankFile()
            model = []
            for nm in ("LOCUS", "DEFINITION", "COMMENT"):
                f.append(nm, [nm.lower() + " text"])
                model.append(gb_model_field(nm, [nm.lower() + " text"], None))
            ctx.log("bad_index", how, bad)
            ctx.op("probe_gb_index_below_minus_len")
            fn = {"get": lambda: f[bad], "set": lambda: f.__setitem__(bad, ("X", ["x"])),
                  "insert": lambda: f.insert(bad, "X", ["x"]), "del": lambda: f.__delitem__(bad)}[how]
            gb_reject(ctx, f, model, "%s with index %d" % (how, bad), fn)


def _probe_gb_empty_line_list(ctx):
    for name, content, sub in (("SOURCE", [], OrderedDict([("ORGANISM", ["Homo sapiens", "Eukaryota."])])),
                               ("REFERENCE", ["1"], OrderedDict([("AUTHORS", []), ("TITLE", ["t"])])),
                               ("COMMENT", [], None)):
        f = B.gb.GenBankFile()
        f.append("LOCUS", ["x"])
        model = [gb_model_field("LOCUS", ["x"], None)]
        ctx.log("append", name, content, None if sub is None else list(sub.items()))
        ctx.op("probe_gb_empty_line_list")
        f.append(name, content, sub)
        model.append(gb_model_field(name, content, sub))
        gb_check(ctx, f, model, "append with an empty line list")


def _probe_header_blanks(ctx):
    rng = np.random.default_rng(5)
    for kind in ("fasta", "fastq"):
        for h in (" a", "b ", "\tc d \t"):
            hz = MapHarness(ctx, rng, kind)
            f = hz.new_file()
            v = hz.gen_value()
            while kind == "fastq" and len(v[0]) == 0:
                v = hz.gen_value()
            ctx.log(kind, "set", h, hz.log_value(v))
            ctx.op("probe_header_surrounding_blanks")
            f[h] = hz.api_value(v)
            hz.model[h.strip()] = v
            hz.check(f, "set %r" % h)
            f["other"] = hz.api_value(v)
            hz.model["other"] = v
            del f["other"]
            del hz.model["other"]
            hz.check(f, "set and delete of another entry")


def _probe_fastq_empty(ctx):
    rng = np.random.default_rng(6)
    for cpl in (None, 10):
        hz = MapHarness(ctx, rng, "fastq")
        hz.cpl = cpl
        f = hz.new_file()
        f["first"] = ("ACGT", [1, 2, 3, 4])
        hz.model["first"] = ("ACGT", [1, 2, 3, 4], np.array([1, 2, 3, 4]))
        ctx.log("fastq", "set", "empty", "", [], cpl)
        ctx.op("probe_fastq_empty_sequence")
        done = hz.empty_declined(f, "empty", ("", [], np.zeros(0, dtype=np.int64)))
        assert done
        ctx.oracle("fastq_empty_declined_or_roundtrip")
        try:
            del f["first"]
            del hz.model["first"]
            hz.check(f, "delete after an empty entry")
        except Exception as e:
            if isinstance(e, AssertionError):
                raise
            ctx.fail("fastq_empty_declined_or_roundtrip", "after a zero-length entry: %s: %s" % (type(e).__name__, e))


def _gff_probe(ctx, entries):
    f = B.gff.GFFFile()
    ctx.log("gff_entries", [log_entry(e) for e in entries])
    for e in entries:
        f.append(*gff_args(e))
    expected = [gff_expected(e) for e in entries]
    ctx.check(gff_view(f) == expected, "gff_entry_roundtrip", "entries of the filled GFFFile differ from what was appended",
              got=_short(gff_view(f), 900), expected=_short(expected, 900), text=str(f)[:900])
    g = B.gff.GFFFile.read(StringIO(str(f)))
    ctx.check(gff_view(g) == expected, "gff_entry_roundtrip", "GFFFile.read(written text) entries differ from what was appended",
              got=_short(gff_view(g), 900), expected=_short(expected, 900), text=str(f)[:900])


def _probe_gff_type(ctx):
    for t in ("a%41b", "match%25", "x%3Bx"):
        ctx.op("probe_gff_type_percent_escape")
        _gff_probe(ctx, [("chr1", "src", t, 1, 9, None, "F", None, OrderedDict([("ID", "x")]))])


def _probe_gff_trailing_blank(ctx):
    for attrs in (OrderedDict([("ID", "x"), ("Note", "hello ")]), OrderedDict([("Note", "  ")])):
        ctx.op("probe_gff_last_attribute_trailing_blank")
        _gff_probe(ctx, [("chr1", "src", "gene", 1, 9, None, "F", None, attrs)])


def _probe_gff_hash(ctx):
    for seqid in ("#chr1", "##x"):
        ctx.op("probe_gff_seqid_leading_hash")
        _gff_probe(ctx, [("chr0", "src", "gene", 1, 9, None, "F", None, None), (seqid, "src", "gene", 1, 9, None, "F", None, None)])


def _probe_general_fastq(ctx):
    for suffix, d in ((".fastq", OrderedDict([("read1", "ACGT"), ("read2", "GGA")])), (".fq", OrderedDict([("only", "ACGTN")]))):
        p = _path(suffix)
        ctx.log("save_sequences", suffix, list(d.items()))
        ctx.op("probe_general_save_sequences_fastq")
        ctx.oracle("general_roundtrip")
        try:
            B.sio.save_sequences(p, OrderedDict((h, B.Nuc(s)) for h, s in d.items()))
            back = B.sio.load_sequences(p)
        finally:
            try:
                os.remove(p)
            except OSError:
                pass
        got = [(h, str(v)) for h, v in back.items()]
        if got != list(d.items()):
            ctx.fail("general_roundtrip", "load_sequences(save_sequences(%s)) = %s, saved %s" % (suffix, got, list(d.items())))


PROBES = {
    "gb_single_base_beyond_right": _probe_single_base_beyond_right,
    "gb_all_qualifiers_without_value": _probe_all_qualifiers_without_value,
    "gb_empty_annotation": _probe_empty_annotation,
    "gb_qualifier_double_quote": _probe_double_quote,
    "gb_origin_position_9_digits": _probe_origin_9_digits,
    "gb_index_below_minus_len": _probe_gb_index_below,
    "gb_empty_line_list": _probe_gb_empty_line_list,
    "header_surrounding_blanks": _probe_header_blanks,
    "fastq_empty_sequence": _probe_fastq_empty,
    "gff_type_percent_escape": _probe_gff_type,
    "gff_last_attribute_trailing_blank": _probe_gff_trailing_blank,
    "gff_seqid_leading_hash": _probe_gff_hash,
    "general_save_sequences_fastq": _probe_general_fastq,
}
