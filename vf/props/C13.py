"""C13  Slicing annotations and annotated sequences matches a per-base model.

Monitor: every generated Annotation / AnnotatedSequence is sliced with every
form [a:b], [a:], [:b], [:] (all bounds for short sequences, sampled for long
ones, second-level slices of the results) and every result is compared with a
per-base model: the set of (key, qualifiers, strand, base) covered, the
location set with `old flags | cut flags`, the sequence window and the
sequence start.  icontract postconditions on `Annotation.__getitem__` and
`AnnotatedSequence.__getitem__` re-evaluate the same relation from the *real*
object state at the call boundary of every call the workload makes (also the
nested ones).  Feature indexing / assignment, double reverse complement and
copies are judged against string models.
"""

import itertools

import numpy as np

ID = "C13"
FLAVOUR = "plain"
LEVEL = "exploration"
THOROUGH_MULT = 1.3       # deepens the sampled strata of the thorough tier (measured: about ten minutes on 16 cores)
RULE = (
    "seeded generator: nucleotide sequence of 1-60 symbols (15 % with IUPAC ambiguity letters), sequence_start in "
    "{1, 2, 17, 101, 10^6}, 0-8 features of 1-4 locations (either strand, 25 % mixed strands, nested / overlapping / "
    "coordinate-duplicate locations, any combination of the six Defect flags incl. pre-existing MISS_LEFT/MISS_RIGHT, "
    "unique or colliding key+qualifiers); bare annotations additionally carry locations left/right of the nominal window "
    "and at negative positions.  Slices: every [a:b] with start <= a <= b <= start+len plus every [a:], [:b], [:] for "
    "windows <= 12 (annotations <= 10), 25-30 sampled slices (boundaries forced) otherwise, and second-level slices of "
    "results.  A case is non-trivial when at least one slice removed bases of a location that kept others (a cut flag had "
    "to be added) - resp. a multi-location or reverse feature was indexed / a non-empty object was copied or reverse "
    "complemented; distinct = digest of the logged object (sequence, start, features) and operations."
)
STRATA = {
    "annot_slices": (4000, 90000),
    "aseq_small_all_slices": (4000, 70000),
    "aseq_long_sampled": (4000, 70000),
    "feature_index": (5000, 110000),
    "rc_copy": (3000, 70000),
}
# functions that must leave their arguments untouched (vf.core.PurityMonitor; '!' = the object itself is watched too)
PURE = [
    "biotite.sequence.annotation:Annotation.__getitem__!",
    "biotite.sequence.annotation:AnnotatedSequence.__getitem__!",
    "biotite.sequence.annotation:AnnotatedSequence.reverse_complement!",
    "biotite.sequence.annotation:AnnotatedSequence.__eq__!",
    "biotite.sequence.annotation:Annotation.__eq__!",
]
REQUIRED_ORACLES = [
    "coverage_vs_model", "cut_flags", "window", "slice_accepted", "source_unchanged",
    "feature_index_bio_order", "set_then_get", "set_frame", "rc_twice", "copy_equal", "copy_independent",
    "immutable_hash", "hook_annotation_getitem", "hook_aseq_getitem_slice", "hook_aseq_getitem_feature",
]
ANCHORS = [
    "biotite.sequence.annotation:Annotation.__getitem__",
    "biotite.sequence.annotation:AnnotatedSequence.__getitem__",
    "biotite.sequence.annotation:AnnotatedSequence.__setitem__",
    "biotite.sequence.annotation:AnnotatedSequence.reverse_complement",
    "biotite.sequence.annotation:AnnotatedSequence.__copy_create__",
    "biotite.sequence.annotation:Annotation.__copy_create__",
    "biotite.sequence.annotation:Location.__hash__",
    "biotite.sequence.annotation:Feature.__hash__",
    "biotite.sequence.annotation:Location.__init__",
    "biotite.sequence.sequence:Sequence.__getitem__",
    "biotite.sequence.seqtypes:NucleotideSequence.complement",
]
ASSUMPTIONS = [
    "features of an AnnotatedSequence lie inside the sequence (positions outside / negative are generated for bare annotations only, as DESIGN says); slice bounds lie inside the sequence and a <= b; no step",
    "an Annotation is a set of features and a Feature a set of locations: features/locations that become identical after clipping coincide; coverage is compared as a set of (key, qualifiers, strand, base), locations as a set of (first, last, strand, flags)",
    "every clipped location keeps its contiguous surviving bases as ONE location (first/last = outermost surviving base)",
    "biological order = ascending first position on the forward strand, descending last position on the reverse strand; ties (nested/duplicate locations) are accepted in any order; mixed-strand features raise the documented ValueError (counted, not judged)",
    "aseq[feature] = s; aseq[feature] == s is demanded only for uniform-strand features with pairwise disjoint locations and len(s) == number of bases",
    "rc(rc(x)) == x is evaluated with the original sequence_start passed to the second call (the method documents that the start is not kept)",
    "memory sharing between a slice result and its parent sequence (numpy view) is not judged; only copy() independence is",
    "start < sequence_start raises the documented IndexError (counted, not judged)",
]
MIN_CASES_PER_WORKER = 40
MANIFEST = {
    "technique": "per-base coverage reference model evaluated on every slice of generated annotations / annotated sequences (complete slice enumeration for short windows); icontract postconditions on Annotation.__getitem__ and AnnotatedSequence.__getitem__ (invariant at a hook, every call incl. nested ones); string models for feature indexing/assignment, reverse complement and copy independence (mutation test)",
    "level_text": "Runtime monitoring: generated Annotation/AnnotatedSequence objects are sliced with every slice form while a per-base model predicts the covered (key, qualifiers, strand, base) set, the location flags (old | cut), the sequence window and the sequence start; icontract postconditions re-evaluate the same relation from the real object state at every __getitem__ call boundary; feature indexing, feature assignment, double reverse complement and copies are compared with plain string models.  Held-on-what-was-observed, not a proof.",
    "level_note": "Trusts the per-base model (audited in selftest against interval arithmetic on all locations/slices of a 7-position window and against the literal docstring examples) and NucleotideSequence construction/str().  Features of annotated sequences are kept inside the sequence, bounds inside the sequence, a <= b, no step.  Findings S17a/b/c (+ empty slice, Feature.copy) are quarantined into probes while listed as known.",
    "design_ref": "DESIGN.md section 6, C13",
}

F, R = "F", "R"
ML, MR, BL, BR, UNK, BETW = 1, 2, 4, 8, 16, 32
ALL_FLAGS = [ML, MR, BL, BR, UNK, BETW]
STARTS = [1, 2, 17, 101, 10**6]
KEYS = ["gene", "CDS", "misc_feature", "regulatory", "exon"]
COMP = {"A": "T", "C": "G", "G": "C", "T": "A", "R": "Y", "Y": "R", "W": "W", "S": "S",
        "M": "K", "K": "M", "H": "D", "D": "H", "B": "V", "V": "B", "N": "N"}
AMB = "ACGTRYWSMKHBVDN"

seq = None
Location = Feature = Annotation = AnnotatedSequence = NucleotideSequence = None
_CTX = None
SKIP = object()
HOOK_MODE = ["raise"]          # "record" inside probes: the direct oracle names the mechanism, the hook must have seen it too
_HOOK_FAILS = []
_LAST = [None]


class ContractBroken(Exception):
    def __init__(self, oracle, message):
        super().__init__("%s: %s" % (oracle, message))
        self.oracle, self.message = oracle, message


# =========================================================================== model
def inside(p, a, b):
    return (a is None or p >= a) and (b is None or p < b)


def m_slice(feats, a, b):
    """Per-base model of slicing.  feats: iterable of (key, qualset, locs) with
    locs = iterable of (first, last, strand, flags).  Returns (coverage set,
    normalised feature set)."""
    cov, out = set(), set()
    for key, q, locs in feats:
        new = set()
        for first, last, st, d in locs:
            kept = [p for p in range(first, last + 1) if inside(p, a, b)]
            if not kept:
                continue
            for p in kept:
                cov.add((key, q, st, p))
            nd = d
            for p in range(first, last + 1):
                if p < kept[0]:
                    nd |= ML          # a base of this location was removed on the left
                elif p > kept[-1]:
                    nd |= MR
            new.add((kept[0], kept[-1], st, nd))
        if new:
            out.add((key, q, frozenset(new)))
    return cov, frozenset(out)


def m_cover(feats):
    return {(key, q, st, p) for key, q, locs in feats for first, last, st, d in locs for p in range(first, last + 1)}


def m_norm(feats):
    return frozenset((key, q, frozenset(locs)) for key, q, locs in feats)


def norm_to_feats(norm):
    return sorted(((k, q, tuple(sorted(locs))) for k, q, locs in norm), key=lambda t: (t[0], sorted(map(repr, t[1])), t[2]))


def revcomp(s):
    return "".join(COMP[c] for c in reversed(s))


def m_feature_strings(s, start, locs):
    """Set of acceptable strings for aseq[feature] (ties in the biological
    order are free); None for mixed strands."""
    locs = sorted(set(locs))
    strands = {l[2] for l in locs}
    if len(strands) != 1:
        return None
    st = next(iter(strands))

    def piece(l):
        sub = "".join(s[p - start] for p in range(l[0], l[1] + 1))
        return revcomp(sub) if st == R else sub

    keyf = (lambda l: l[0]) if st == F else (lambda l: -l[1])
    results = [""]
    for _, grp in itertools.groupby(sorted(locs, key=keyf), key=keyf):
        grp = list(grp)
        perms = {"".join(piece(l) for l in perm) for perm in itertools.permutations(grp)}
        results = [r + p for r in results for p in perms]
    return set(results)


def m_disjoint(locs):
    seen = set()
    for first, last, st, d in set(locs):
        for p in range(first, last + 1):
            if p in seen:
                return False
            seen.add(p)
    return True


def m_assign(s, start, locs, new):
    """String after aseq[feature] = new (uniform strand, disjoint locations)."""
    locs = sorted(set(locs))
    st = locs[0][2]
    pos = []
    if st == F:
        for l in sorted(locs, key=lambda l: l[0]):
            pos.extend(range(l[0], l[1] + 1))
    else:
        for l in sorted(locs, key=lambda l: -l[1]):
            pos.extend(range(l[1], l[0] - 1, -1))
    chars = list(s)
    for i, p in enumerate(pos):
        chars[p - start] = new[i] if st == F else COMP[new[i]]
    return "".join(chars)


def m_rc(s, start, feats, new_start):
    """Per-base reverse complement: index i -> n-1-i, strand flipped,
    left/right flags swapped."""
    n = len(s)
    out = []
    for key, q, locs in feats:
        nl = []
        for first, last, st, d in locs:
            pf = new_start + (n - 1 - (last - start))
            pl = new_start + (n - 1 - (first - start))
            nd = d & (UNK | BETW)
            if d & ML:
                nd |= MR
            if d & MR:
                nd |= ML
            if d & BL:
                nd |= BR
            if d & BR:
                nd |= BL
            nl.append((pf, pl, R if st == F else F, nd))
        out.append((key, q, tuple(nl)))
    return revcomp(s), out


class MSeq:
    """Model of an AnnotatedSequence."""
    __slots__ = ("s", "start", "feats")

    def __init__(self, s, start, feats):
        self.s, self.start, self.feats = s, start, list(feats)

    @property
    def end(self):          # exclusive
        return self.start + len(self.s)

    def describe(self):
        return {"seq": self.s, "start": self.start, "features": feats_json(self.feats)}


def feats_json(feats):
    return [[k, {a: b for a, b in sorted(q, key=repr)}, [list(l) for l in locs]] for k, q, locs in feats]


# =========================================================================== reading the real objects
def strand_of(l):
    return F if l.strand is Location.Strand.FORWARD else R


def snap_feats(annot):
    """Real Annotation -> model feature list (iteration, properties only)."""
    return [(f.key, frozenset(f.qual.items()), tuple((l.first, l.last, strand_of(l), l.defect.value) for l in f.locs))
            for f in annot]


def snap(annot):
    feats = snap_feats(annot)
    return m_cover(feats), m_norm(feats)


def sstr(s):
    return "".join(s.symbols)


# =========================================================================== building real objects
def mk_loc(l):
    return Location(l[0], l[1], Location.Strand.FORWARD if l[2] == F else Location.Strand.REVERSE, Location.Defect(l[3]))


def mk_feature(ft):
    key, q, locs = ft
    return Feature(key, [mk_loc(l) for l in locs], dict(q))


def mk_annotation(feats, rng=None):
    fs = [mk_feature(ft) for ft in feats]
    how = 0 if rng is None else int(rng.integers(3))
    if how == 0:
        return Annotation(fs)
    if how == 1:
        an = Annotation()
        for f in fs:
            an.add_feature(f)
        return an
    an = Annotation(fs[: len(fs) // 2])
    for f in fs[len(fs) // 2:]:
        an = an + f if rng.random() < 0.5 else an + Annotation([f])
    return an


def mk_aseq(m, rng=None):
    ns = NucleotideSequence(m.s)
    return AnnotatedSequence(mk_annotation(m.feats, rng), ns, m.start)


# =========================================================================== generators
def gen_defect(rng):
    r = rng.random()
    if r < 0.5:
        return 0
    if r < 0.8:
        return int(ALL_FLAGS[int(rng.integers(6))])
    return int(rng.integers(0, 64))


def gen_len(rng, span):
    r = rng.random()
    if r < 0.15:
        return 1
    if r < 0.6:
        return int(rng.integers(1, min(span, 6) + 1))
    return int(rng.integers(1, span + 1))


def gen_locs(rng, lo, hi, k, mode, disjoint=False):
    """k locations with positions in [lo, hi]; mode F / R / mixed."""
    span = hi - lo + 1
    pick = lambda: (F if rng.random() < 0.5 else R) if mode == "mixed" else mode
    if disjoint and span + 1 >= 2 * k:
        cuts = sorted(int(x) for x in rng.choice(np.arange(lo, hi + 2), size=2 * k, replace=False))
        locs = [(cuts[2 * i], cuts[2 * i + 1] - 1, pick(), gen_defect(rng)) for i in range(k)]
        order = rng.permutation(k)
        return [locs[int(i)] for i in order]
    locs = []
    for _ in range(k):
        r = rng.random()
        if locs and r < 0.25:           # nested in the previous one
            pf, pl = locs[-1][0], locs[-1][1]
            f = int(rng.integers(pf, pl + 1))
            l = int(rng.integers(f, pl + 1))
        elif locs and r < 0.45:         # overlapping the previous one
            pf, pl = locs[-1][0], locs[-1][1]
            f = int(rng.integers(pf, pl + 1))
            l = min(hi, f + gen_len(rng, span) - 1)
        elif locs and r < 0.53:         # same coordinates again (other flags / strand)
            f, l = locs[-1][0], locs[-1][1]
        elif locs and r < 0.63:         # directly adjacent
            f = min(hi, locs[-1][1] + 1)
            l = min(hi, f + gen_len(rng, span) - 1)
        else:
            f = int(rng.integers(lo, hi + 1))
            l = min(hi, f + gen_len(rng, span) - 1)
        locs.append((f, l, pick(), gen_defect(rng)))
    return locs


def gen_feats(rng, lo, hi, maxf=8, uniform=False, disjoint_share=0.0):
    nf = int(rng.choice([0, 1, 2, 3, 4, 5, 6, 7, 8][: maxf + 1]))
    if nf == 0 and rng.random() < 0.7:
        nf = 1 + int(rng.integers(min(3, maxf)))
    collide = rng.random() < 0.2
    feats = []
    for i in range(nf):
        k = int(rng.choice([1, 2, 3, 4], p=[.45, .25, .2, .1]))
        r = rng.random()
        mode = F if r < 0.4 else (R if r < 0.75 else "mixed")
        if mode == "mixed" and (uniform or k == 1):
            mode = F if rng.random() < 0.5 else R
        locs = gen_locs(rng, lo, hi, k, mode, disjoint=rng.random() < disjoint_share)
        q = {}
        if not collide or rng.random() < 0.5:
            q["uid"] = str(i)
        r = rng.random()
        if r < 0.15:
            q["note"] = "line one\nline two"
        elif r < 0.3:
            q["pseudo"] = None
        key = KEYS[int(rng.integers(len(KEYS)))] if not collide else KEYS[int(rng.integers(2))]
        feats.append((key, frozenset(q.items()), tuple(locs)))
    return feats


def gen_seq(rng, n):
    alpha = AMB if rng.random() < 0.15 else "ACGT"
    return "".join(alpha[int(i)] for i in rng.integers(0, len(alpha), size=n))


def gen_mseq(rng, nlo, nhi, overhang=False, **kw):
    n = int(rng.integers(nlo, nhi + 1))
    start = STARTS[int(rng.integers(len(STARTS)))]
    lo, hi = start, start + n - 1
    if overhang and rng.random() < 0.3:
        # features of the annotation may reach beyond the stored sequence (before its start: non-positive positions
        # included; behind its end), e.g. after the sequence of a larger record was cut
        lo, hi = start - int(rng.integers(1, 9)), hi + int(rng.integers(0, 6))
    return MSeq(gen_seq(rng, n), start, gen_feats(rng, lo, hi, **kw))


# =========================================================================== direct oracles
_STATE_TICK = [0]


def _state(ctx, obj):
    """Abstract-state digest, sampled (1 in 4 quick, 1 in 32 thorough) to keep the evidence small."""
    _STATE_TICK[0] += 1
    if _STATE_TICK[0] % (4 if ctx.tier == "quick" else 32) == 0:
        ctx.state(obj)


def fmt(a, b):
    return "[%s:%s]" % ("" if a is None else a, "" if b is None else b)


def _diff(got, exp):
    return {"unexpected": sorted(map(repr, got - exp))[:12], "missing": sorted(map(repr, exp - got))[:12]}


def judge_annotation(ctx, res_annot, exp_cov, exp_norm, what, detail):
    cov, norm = snap(res_annot)
    ctx.oracle("coverage_vs_model")
    if cov != exp_cov:
        ctx.fail("coverage_vs_model", "%s: covered (key, qual, strand, base) set differs from the per-base model" % what,
                 diff=_diff(cov, exp_cov), **detail)
    ctx.oracle("cut_flags")
    if norm != exp_norm:
        ctx.fail("cut_flags", "%s: locations/flags differ from model (flags must be old | cut)" % what,
                 diff=_diff(norm, exp_norm), **detail)
    return norm


def call_slice(ctx, obj, a, b, what, detail):
    """obj[a:b]; an in-range slice must be accepted."""
    ctx.oracle("slice_accepted")
    try:
        return obj[a:b]
    except ContractBroken as e:
        ctx.fail(e.oracle, "%s: %s" % (what, e.message), **detail)
    except (ValueError, IndexError, TypeError, OverflowError) as e:
        ctx.exc(e)
        ctx.fail("slice_accepted", "%s raised %s: %s" % (what, type(e).__name__, e), **detail)


def check_annot_slice(ctx, an, feats, a, b):
    what = "annotation%s" % fmt(a, b)
    detail = {"features": feats_json(feats), "slice": [a, b]}
    ctx.op("annot[%s:%s]" % ("a" if a is not None else "", "b" if b is not None else ""))
    res = call_slice(ctx, an, a, b, what, detail)
    exp_cov, exp_norm = m_slice(feats, a, b)
    if not isinstance(res, Annotation):
        ctx.fail("cut_flags", "%s returned %s" % (what, type(res).__name__), **detail)
    judge_annotation(ctx, res, exp_cov, exp_norm, what, detail)
    ctx.oracle("source_unchanged")
    if snap(an)[1] != m_norm(feats):
        ctx.fail("source_unchanged", "%s modified the source annotation" % what, **detail)
    return res, exp_norm, _has_cut(feats, exp_norm)


def _has_cut(feats, exp_norm):
    """True when some location lost bases but kept others."""
    orig = {(k, q, l[0], l[1]) for k, q, locs in feats for l in locs}
    for k, q, locs in exp_norm:
        for l in locs:
            if (k, q, l[0], l[1]) not in orig:
                return True
    return False


def check_aseq_slice(ctx, aseq, m, a, b):
    """aseq[a:b] against the model; returns (result, model of the result, cut?)."""
    what = "aseq%s (start %d, %d nt)" % (fmt(a, b), m.start, len(m.s))
    detail = dict(m.describe(), slice=[a, b])
    ctx.op("aseq[%s:%s]" % ("a" if a is not None else "", "b" if b is not None else ""))
    res = call_slice(ctx, aseq, a, b, what, detail)
    a_eff = m.start if a is None else a
    b_eff = m.end if b is None else b
    # an omitted start is an open bound for the annotation: nothing is removed on the left, also not from locations that
    # begin before the stored sequence (non-positive positions); an omitted stop stands for the end of the stored
    # sequence (what lies behind it is cut and marked as cut) - in both cases "cut on a side iff bases were removed there"
    exp_cov, exp_norm = m_slice(m.feats, a, b_eff)
    if not isinstance(res, AnnotatedSequence):
        ctx.fail("window", "%s returned %s" % (what, type(res).__name__), **detail)
    judge_annotation(ctx, res.annotation, exp_cov, exp_norm, what, detail)
    ctx.oracle("window")
    exp_s = "".join(m.s[p - m.start] for p in range(a_eff, b_eff))
    if not isinstance(res.sequence, NucleotideSequence) or sstr(res.sequence) != exp_s:
        ctx.fail("window", "%s: sequence %r, model %r" % (what, sstr(res.sequence) if hasattr(res.sequence, "symbols") else repr(res.sequence), exp_s), **detail)
    if res.sequence_start != a_eff:
        ctx.fail("window", "%s: sequence_start %r, model %d" % (what, res.sequence_start, a_eff), **detail)
    if res.sequence.get_alphabet() != aseq.sequence.get_alphabet():
        ctx.fail("window", "%s: alphabet changed" % what, **detail)
    ctx.oracle("source_unchanged")
    if snap(aseq.annotation)[1] != m_norm(m.feats) or sstr(aseq.sequence) != m.s or aseq.sequence_start != m.start:
        ctx.fail("source_unchanged", "%s modified the source object" % what, **detail)
    rm = MSeq(exp_s, a_eff, norm_to_feats(exp_norm))
    return res, rm, _has_cut(m.feats, exp_norm)


def state_of(m, a, b, exp_feats):
    s = m.start
    return (len(m.s), None if a is None else a - s, None if b is None else b - s,
            [(l[0] - s, l[1] - s, l[2], l[3]) for k, q, locs in exp_feats for l in locs])


def slice_forms(ctx, lo, hi, on_aseq, rng=None, nsample=0):
    """All (or sampled) slice forms with lo <= a <= b <= hi."""
    empty_ok = ctx.allowed("empty_slice")
    open_ok = (not on_aseq) or ctx.allowed("open_stop_slice")
    out = []
    if rng is None:
        for a in range(lo, hi + 1):
            for b in range(a, hi + 1):
                if a == b and not empty_ok:
                    continue
                out.append((a, b))
            if open_ok:
                out.append((a, None))
        for b in range(lo, hi + 1):
            out.append((None, b))
        if open_ok:
            out.append((None, None))
        return out
    forced = [(lo, hi), (lo, lo + 1), (hi - 1, hi), (None, hi), (None, lo + 1), (lo + 1, hi), (lo, hi - 1)]
    if open_ok:
        forced += [(lo, None), (hi - 1, None), (None, None), (hi, None), (lo + 1, None)]
    if empty_ok:
        forced += [(lo, lo), (hi, hi), (None, lo)]
    for a, b in forced:
        if (a is None or lo <= a <= hi) and (b is None or lo <= b <= hi) and (a is None or b is None or a <= b):
            if a is not None and b is not None and a == b and not empty_ok:
                continue
            out.append((a, b))
    while len(out) < nsample:
        a = int(rng.integers(lo, hi + 1))
        b = int(rng.integers(a, hi + 1))
        form = rng.random()
        if form < 0.15:
            a = None
        elif form < 0.30 and open_ok:
            b = None
        if a is not None and b is not None and a == b and not empty_ok:
            continue
        out.append((a, b))
    return out


# =========================================================================== hooks (icontract postconditions)
def _eval_hook(oid, msg):
    if msg is SKIP:
        _CTX.note("hook_precondition_not_met")
        return True
    _CTX.oracle(oid)
    if msg is None:
        return True
    if HOOK_MODE[0] == "record":
        _HOOK_FAILS.append((oid, msg))
        return True
    _LAST[0] = (oid, msg)
    return False


def _is_pos(x):
    return x is None or (isinstance(x, (int, np.integer)) and not isinstance(x, bool))


def _rel_annotation_slice(self, index, result):
    if not isinstance(index, slice) or not _is_pos(index.start) or not _is_pos(index.stop):
        return SKIP
    a, b = index.start, index.stop
    if a is not None and b is not None and a > b:
        return SKIP
    feats = snap_feats(self)
    if any(l[1] - l[0] > 5000 for k, q, locs in feats for l in locs):
        return SKIP
    exp_cov, exp_norm = m_slice(feats, a, b)
    if not isinstance(result, Annotation):
        return "result is %s" % type(result).__name__
    cov, norm = snap(result)
    if cov != exp_cov:
        return "coverage: %s on %s -> %s" % (fmt(a, b), feats_json(feats), _diff(cov, exp_cov))
    if norm != exp_norm:
        return "flags: %s on %s -> %s" % (fmt(a, b), feats_json(feats), _diff(norm, exp_norm))
    return None


def annotation_getitem_matches_per_base_model(self, index, result):
    return _eval_hook("hook_annotation_getitem", _rel_annotation_slice(self, index, result))


def _rel_aseq_getitem(self, index, result):
    """Returns (oracle id, message | None | SKIP)."""
    s = sstr(self.sequence)
    start = self.sequence_start
    end = start + len(s)
    feats = snap_feats(self.annotation)
    if isinstance(index, slice):
        oid = "hook_aseq_getitem_slice"
        if index.step is not None or not _is_pos(index.start) or not _is_pos(index.stop):
            return oid, SKIP
        a = start if index.start is None else index.start
        b = end if index.stop is None else index.stop
        if not (start <= a <= b <= end):
            return oid, SKIP
        if any(l[0] < start or l[1] >= end for k, q, locs in feats for l in locs):
            return oid, SKIP
        exp_cov, exp_norm = m_slice(feats, a, b)
        if not isinstance(result, AnnotatedSequence):
            return oid, "result is %s" % type(result).__name__
        cov, norm = snap(result.annotation)
        tag = "%s of %r start %d %s" % (fmt(index.start, index.stop), s, start, feats_json(feats))
        if cov != exp_cov:
            return oid, "coverage: %s -> %s" % (tag, _diff(cov, exp_cov))
        if norm != exp_norm:
            return oid, "flags: %s -> %s" % (tag, _diff(norm, exp_norm))
        if sstr(result.sequence) != s[a - start:b - start] or result.sequence_start != a:
            return oid, "window: %s -> %r start %r" % (tag, sstr(result.sequence), result.sequence_start)
        return oid, None
    if isinstance(index, Feature):
        oid = "hook_aseq_getitem_feature"
        locs = [(l.first, l.last, strand_of(l), l.defect.value) for l in index.locs]
        if any(l[0] < start or l[1] >= end for l in locs):
            return oid, SKIP
        exp = m_feature_strings(s, start, locs)
        if exp is None:
            return oid, "mixed-strand feature returned %r instead of raising" % (result,)
        got = sstr(result) if hasattr(result, "symbols") else repr(result)
        if got not in exp:
            return oid, "feature %s on %r start %d -> %r, model %s" % (locs, s, start, got, sorted(exp)[:4])
        return oid, None
    if isinstance(index, (int, np.integer)):
        oid = "hook_aseq_getitem_int"
        if not (start <= index < end):
            return oid, SKIP
        return oid, (None if result == s[index - start] else "aseq[%d] -> %r, model %r" % (index, result, s[index - start]))
    return "hook_aseq_getitem_slice", SKIP


def annotated_sequence_getitem_matches_model(self, index, result):
    oid, msg = _rel_aseq_getitem(self, index, result)
    return _eval_hook(oid, msg)


def _contract_error(self, index, result):
    oid, msg = _LAST[0]
    return ContractBroken(oid, msg)


def install_hooks():
    import icontract
    import biotite.sequence.annotation as mod
    for cls, cond in ((mod.Annotation, annotation_getitem_matches_per_base_model),
                      (mod.AnnotatedSequence, annotated_sequence_getitem_matches_model)):
        orig = cls.__dict__["__getitem__"]
        if getattr(orig, "__c13_hooked__", False):
            continue
        wrapped = icontract.ensure(cond, error=_contract_error)(orig)
        wrapped.__c13_hooked__ = True
        cls.__getitem__ = wrapped


def setup(ctx):
    global seq, Location, Feature, Annotation, AnnotatedSequence, NucleotideSequence, _CTX
    import biotite.sequence as seq_
    seq = seq_
    Location, Feature, Annotation = seq.Location, seq.Feature, seq.Annotation
    AnnotatedSequence, NucleotideSequence = seq.AnnotatedSequence, seq.NucleotideSequence
    _CTX = ctx
    install_hooks()


# =========================================================================== cases
def log_obj(ctx, m, what="aseq"):
    ctx.log(what, m.s, m.start, feats_json(m.feats))


def case_annot_slices(rng, ctx):
    n = int(rng.integers(1, 41))
    s = [-30, -5, 0, 1, 2, 17, 101, 10**6][int(rng.integers(8))]
    lo, hi = s, s + n            # nominal window [s, s+n), bounds s..s+n
    feats = gen_feats(rng, s - 12, s + n + 11)
    an = mk_annotation(feats, rng)
    ctx.log("annotation", n, s, feats_json(feats))
    if n <= 10:
        forms = slice_forms(ctx, lo - 2, hi + 2, on_aseq=False)
        ctx.log("all_slices", lo - 2, hi + 2)
    else:
        forms = slice_forms(ctx, lo - 2, hi + 2, on_aseq=False, rng=rng, nsample=30)
        ctx.log("slices", forms)
    anycut = False
    for a, b in forms:
        res, exp_norm, cut = check_annot_slice(ctx, an, feats, a, b)
        anycut = anycut or cut
        _state(ctx, (("A", n, None if a is None else a - s, None if b is None else b - s,
                   sorted((l[0] - s, l[1] - s, l[2], l[3]) for k, q, locs in exp_norm for l in locs))))
    # second level: slice a result again (pre-existing MISS flags made by biotite itself)
    if forms:
        a, b = forms[int(rng.integers(len(forms)))]
        res, exp_norm, _ = check_annot_slice(ctx, an, feats, a, b)
        f2 = norm_to_feats(exp_norm)
        a2 = lo if a is None else a
        b2 = hi if b is None else b
        if b2 - a2 >= 1:
            ctx.log("second_level", a, b)
            for c, d in slice_forms(ctx, a2, b2, on_aseq=False, rng=rng, nsample=6):
                check_annot_slice(ctx, res, f2, c, d)
    # the same Annotation object after edits (it has been sliced and asked for its range before): slices see its content
    # as it is now.  Edits: `+=` with a feature / an annotation, add_feature, del_feature; new features reach beyond the
    # old location range.
    cur = list(feats)
    an.get_location_range() if cur else None
    for step in range(int(rng.integers(1, 4))):
        kind = str(rng.choice(["iadd_feature", "iadd_annotation", "add_feature", "del_feature"]))
        if kind == "del_feature" and not cur:
            kind = "add_feature"
        if kind == "del_feature":
            k = int(rng.integers(len(cur)))
            ft = cur[k]
            an.del_feature(mk_feature(ft))
            cur = [f_ for f_ in cur if not (mk_feature(f_) == mk_feature(ft))]
        else:
            span = 6 + int(rng.integers(0, 12))
            base = (hi + int(rng.integers(-3, 8))) if rng.random() < 0.5 else (lo - span - int(rng.integers(-3, 8)))
            extra = gen_feats(rng, base, base + span, maxf=2)
            extra = [e_ for e_ in extra if all(not (mk_feature(e_) == mk_feature(c_)) for c_ in cur)]
            if not extra:
                continue
            if kind == "iadd_feature":
                for e_ in extra:
                    an += mk_feature(e_)
            elif kind == "iadd_annotation":
                an += Annotation([mk_feature(e_) for e_ in extra])
            else:
                for e_ in extra:
                    an.add_feature(mk_feature(e_))
            cur = cur + extra
        ctx.op("annotation_edit_" + kind)
        ctx.log("edit", kind, feats_json(cur))
        allpos = [p_ for _, _, locs in cur for l in locs for p_ in (l[0], l[1])]
        wlo, whi = (min(allpos + [lo]) - 2, max(allpos + [hi]) + 2)
        for a, b in slice_forms(ctx, wlo, whi, on_aseq=False, rng=rng, nsample=8) + [(lo, hi), (None, None)]:
            check_annot_slice(ctx, an, cur, a, b)
    ctx.mark_nontrivial(anycut)


def case_aseq_small(rng, ctx):
    m = gen_mseq(rng, 1, 12, overhang=True)
    aseq = mk_aseq(m, rng)
    log_obj(ctx, m)
    forms = slice_forms(ctx, m.start, m.end, on_aseq=True)
    ctx.log("all_slices", len(forms))
    anycut = False
    results = []
    for a, b in forms:
        res, rm, cut = check_aseq_slice(ctx, aseq, m, a, b)
        anycut = anycut or cut
        _state(ctx, (("S",) + state_of(m, a, b, rm.feats)))
        if len(rm.s) >= 2:
            results.append((res, rm))
    ctx.oracle("int_index")
    for p in range(m.start, m.end):
        try:
            got = aseq[p]
        except ContractBroken as e:
            ctx.fail(e.oracle, e.message, **m.describe())
        if got != m.s[p - m.start]:
            ctx.fail("int_index", "aseq[%d] = %r, model %r" % (p, got, m.s[p - m.start]), **m.describe())
    ctx.op("aseq[int]", len(m.s))
    # assignment by position: aseq[a:b] = s / aseq[p] = x writes exactly the bases a..b-1 (all four slice forms), counted
    # from the sequence start of the object
    if len(m.s) >= 1:
        ctx.oracle("set_frame")
        work = aseq.copy()
        cur = m.s
        L = len(cur)
        a = m.start + int(rng.integers(0, L))
        b = a + int(rng.integers(0, m.end - a + 1))
        for lo, hi in ((a, b), (a, None), (None, b), (None, None)):
            i0 = 0 if lo is None else lo - m.start
            i1 = L if hi is None else hi - m.start
            new = "".join("ACGT"[int(i)] for i in rng.integers(0, 4, size=i1 - i0))
            ctx.op("aseq[%s:%s]=s" % ("a" if lo is not None else "", "b" if hi is not None else ""))
            if i1 - i0 == 0:
                continue
            work[lo:hi] = NucleotideSequence(new)
            cur = cur[:i0] + new + cur[i1:]
            if sstr(work.sequence) != cur:
                ctx.fail("set_frame", "after aseq[%r:%r] = %r the sequence is %r, model %r" % (lo, hi, new, sstr(work.sequence), cur), **m.describe())
        pos = m.start + int(rng.integers(0, L))
        sym = "ACGT"[int(rng.integers(4))]
        ctx.op("aseq[int]=x")
        work[pos] = sym
        cur = cur[:pos - m.start] + sym + cur[pos - m.start + 1:]
        if sstr(work.sequence) != cur:
            ctx.fail("set_frame", "after aseq[%d] = %r the sequence is %r, model %r" % (pos, sym, sstr(work.sequence), cur), **m.describe())
        if sstr(aseq.sequence) != m.s:
            ctx.fail("copy_independent", "assigning to positions of a copy changed the original", **m.describe())
    if results:
        res, rm = results[int(rng.integers(len(results)))]
        ctx.log("second_level_all", rm.start, rm.end)
        for a, b in slice_forms(ctx, rm.start, rm.end, on_aseq=True):
            check_aseq_slice(ctx, res, rm, a, b)
    ctx.mark_nontrivial(anycut)


def case_aseq_long(rng, ctx):
    m = gen_mseq(rng, 13, 60, overhang=True)
    aseq = mk_aseq(m, rng)
    log_obj(ctx, m)
    forms = slice_forms(ctx, m.start, m.end, on_aseq=True, rng=rng, nsample=25)
    ctx.log("slices", forms)
    anycut = False
    results = []
    for a, b in forms:
        res, rm, cut = check_aseq_slice(ctx, aseq, m, a, b)
        anycut = anycut or cut
        _state(ctx, (("L",) + state_of(m, a, b, rm.feats)))
        if len(rm.s) >= 2:
            results.append((res, rm))
    # chains: slice of slice of slice
    for _ in range(3):
        if not results:
            break
        res, rm = results[int(rng.integers(len(results)))]
        sub = slice_forms(ctx, rm.start, rm.end, on_aseq=True, rng=rng, nsample=8)
        ctx.log("chain", rm.start, rm.end, sub)
        for a, b in sub:
            r2, rm2, cut = check_aseq_slice(ctx, res, rm, a, b)
            if len(rm2.s) >= 2 and rng.random() < 0.3:
                results.append((r2, rm2))
    # documented decline: start below the sequence start
    if rng.random() < 0.15:
        k = int(rng.integers(1, 4))
        if m.start - k >= 0:
            ctx.log("below_start", m.start - k)
            ctx.op("aseq[a<start:b]")
            try:
                aseq[m.start - k: m.end]
            except IndexError as e:
                ctx.exc(e)
            except ContractBroken as e:
                ctx.fail(e.oracle, e.message)
            else:
                ctx.note("start_below_sequence_start_accepted")
    ctx.mark_nontrivial(anycut)


def check_feature_index(ctx, aseq, m, ft, origin):
    """aseq[feature] against the biological-order model."""
    key, q, locs = ft
    f = mk_feature(ft)
    exp = m_feature_strings(m.s, m.start, locs)
    detail = dict(m.describe(), feature=feats_json([ft]), origin=origin)
    ctx.op("aseq[feature]")
    try:
        got = aseq[f]
    except ContractBroken as e:
        ctx.fail(e.oracle, e.message, **detail)
    except ValueError as e:
        ctx.exc(e)
        if exp is None:
            ctx.note("mixed_strand_feature_declined")
            return None
        ctx.fail("feature_index_bio_order", "aseq[feature] raised ValueError: %s" % e, **detail)
    ctx.oracle("feature_index_bio_order")
    if exp is None:
        ctx.fail("feature_index_bio_order", "mixed-strand feature was indexed without the documented ValueError", **detail)
    if not isinstance(got, NucleotideSequence) or sstr(got) not in exp:
        ctx.fail("feature_index_bio_order", "aseq[feature] = %r, model %s" % (sstr(got) if hasattr(got, "symbols") else got, sorted(exp)[:4]), **detail)
    return f


def check_feature_assign(ctx, rng, aseq, m, ft):
    """aseq[feature] = s; then aseq[feature] == s and only those bases changed.
    Updates m.s."""
    key, q, locs = ft
    dl = sorted(set(locs))
    total = sum(l[1] - l[0] + 1 for l in dl)
    amb = aseq.sequence.get_alphabet() == NucleotideSequence.alphabet_amb
    alpha = AMB if amb else "ACGT"
    new = "".join(alpha[int(i)] for i in rng.integers(0, len(alpha), size=total))
    f = mk_feature(ft)
    detail = dict(m.describe(), feature=feats_json([ft]), assigned=new)
    ctx.log("assign", feats_json([ft])[0][2], new)
    ctx.op("aseq[feature]=s")
    sq = NucleotideSequence(new, ambiguous=amb)
    aseq[f] = sq
    exp_s = m_assign(m.s, m.start, dl, new)
    try:
        got = aseq[f]
    except ContractBroken as e:
        ctx.fail(e.oracle, e.message, **detail)
    ctx.oracle("set_then_get")
    if not (got == sq) or sstr(got) != new:
        ctx.fail("set_then_get", "after aseq[feature] = %r, aseq[feature] = %r" % (new, sstr(got)), **detail)
    ctx.oracle("set_frame")
    if sstr(aseq.sequence) != exp_s:
        ctx.fail("set_frame", "after aseq[feature] = %r the sequence is %r, model %r" % (new, sstr(aseq.sequence), exp_s), **detail)
    if sstr(sq) != new:
        ctx.fail("set_frame", "the assigned sequence object was modified", **detail)
    m.s = exp_s


def assign_allowed(ctx, locs):
    dl = set(locs)
    strands = {l[2] for l in dl}
    if len(strands) != 1 or not m_disjoint(dl):
        return False
    if len(dl) > 1 and not ctx.allowed("feature_assign_multi_loc"):
        return False
    if R in strands and not ctx.allowed("feature_assign_reverse"):
        return False
    return True


def case_feature_index(rng, ctx):
    m = gen_mseq(rng, 4, 60, uniform=rng.random() < 0.6, disjoint_share=0.6)
    aseq = mk_aseq(m, rng)
    log_obj(ctx, m)
    nontrivial = False
    if rng.random() < 0.5:
        forms = slice_forms(ctx, m.start, m.end, on_aseq=True, rng=rng, nsample=14)
        a, b = forms[int(rng.integers(len(forms)))]
        ctx.log("slice_first", a, b)
        aseq, m, _ = check_aseq_slice(ctx, aseq, m, a, b)
    if len(m.s) == 0:
        return
    cands = [(ft, "annotation") for ft in m.feats]
    for _ in range(2):                      # features that are not part of the annotation
        k = int(rng.choice([1, 2, 3, 4]))
        mode = [F, R, "mixed"][int(rng.choice([0, 1, 2], p=[.45, .45, .1]))]
        if mode == "mixed" and k == 1:
            mode = R
        locs = gen_locs(rng, m.start, m.end - 1, k, mode, disjoint=rng.random() < 0.6)
        cands.append((("foreign", frozenset(), tuple(locs)), "foreign"))
    ctx.log("index_features", [feats_json([ft])[0][2] for ft, _ in cands])
    for ft, origin in cands:
        f = check_feature_index(ctx, aseq, m, ft, origin)
        dl = set(ft[2])
        if f is not None and (len(dl) > 1 or any(l[2] == R for l in dl)):
            nontrivial = True
        _state(ctx, (("FI", len(m.s), sorted((l[0] - m.start, l[1] - m.start, l[2]) for l in dl))))
    # assignment through features
    order = rng.permutation(len(cands))
    done = 0
    for i in order:
        ft, origin = cands[int(i)]
        if not assign_allowed(ctx, ft[2]):
            ctx.note("assign_skipped_class_or_quarantine")
            continue
        before = snap(aseq.annotation)[1]
        check_feature_assign(ctx, rng, aseq, m, ft)
        if snap(aseq.annotation)[1] != before:
            ctx.fail("set_frame", "feature assignment changed the annotation")
        done += 1
        if done >= 3:
            break
    # every feature must still be indexable consistently with the updated model
    for ft, origin in cands[:4]:
        check_feature_index(ctx, aseq, m, ft, origin)
    ctx.mark_nontrivial(nontrivial)


def check_copy_annotation(ctx, rng, an, feats):
    ctx.op("annotation.copy")
    c = an.copy()
    ctx.oracle("copy_equal")
    if not (c == an) or not (an == c) or snap(c)[1] != m_norm(feats) or not isinstance(c, Annotation):
        ctx.fail("copy_equal", "Annotation.copy() != original", features=feats_json(feats))
    ctx.oracle("copy_independent")
    extra = ("copy_probe", frozenset({("uid", "x")}), ((3, 4, F, 0),))
    c.add_feature(mk_feature(extra))
    if feats:
        victim = mk_feature(feats[int(rng.integers(len(feats)))])
        c.del_feature(victim)
    if snap(an)[1] != m_norm(feats):
        ctx.fail("copy_independent", "mutating an Annotation copy changed the original", features=feats_json(feats))
    c2 = an.copy()
    an.add_feature(mk_feature(extra))
    if snap(c2)[1] != m_norm(feats):
        ctx.fail("copy_independent", "mutating the original changed an Annotation copy", features=feats_json(feats))
    an.del_feature(mk_feature(extra))
    if snap(an)[1] != m_norm(feats):
        ctx.fail("copy_independent", "add_feature/del_feature did not restore the annotation", features=feats_json(feats))


def check_copy_aseq(ctx, rng, aseq, m):
    detail = m.describe()
    ctx.op("aseq.copy")
    c = aseq.copy()
    ctx.oracle("copy_equal")
    if not isinstance(c, AnnotatedSequence) or not isinstance(c.sequence, NucleotideSequence):
        ctx.fail("copy_equal", "AnnotatedSequence.copy(): sequence of the copy is %s" % type(c.sequence).__name__, **detail)
    if not (c == aseq) or not (aseq == c):
        ctx.fail("copy_equal", "AnnotatedSequence.copy() != original", **detail)
    if sstr(c.sequence) != m.s or c.sequence_start != m.start or snap(c.annotation)[1] != m_norm(m.feats):
        ctx.fail("copy_equal", "AnnotatedSequence.copy() differs from the model", **detail)
    ctx.oracle("copy_independent")
    if c.sequence is aseq.sequence or c.annotation is aseq.annotation or np.shares_memory(c.sequence.code, aseq.sequence.code):
        ctx.fail("copy_independent", "copy shares sequence/annotation objects with the original", **detail)
    p = m.start + int(rng.integers(len(m.s)))
    old = m.s[p - m.start]
    c[p] = "A" if old != "A" else "C"
    c.annotation.add_feature(mk_feature(("copy_probe", frozenset(), ((m.start, m.start, F, 0),))))
    c[m.start:m.end] = NucleotideSequence(revcomp(m.s), ambiguous=(aseq.sequence.get_alphabet() == NucleotideSequence.alphabet_amb))
    if sstr(aseq.sequence) != m.s or snap(aseq.annotation)[1] != m_norm(m.feats) or aseq.sequence_start != m.start:
        ctx.fail("copy_independent", "mutating an AnnotatedSequence copy changed the original", **detail)
    c2 = aseq.copy()
    aseq[p] = "A" if old != "A" else "C"
    if sstr(c2.sequence) != m.s:
        ctx.fail("copy_independent", "mutating the original changed an AnnotatedSequence copy", **detail)
    aseq[p] = old


def check_immutable_hash(ctx, rng, feats):
    ctx.oracle("immutable_hash")
    for ft in feats[:3]:
        key, q, locs = ft
        f = mk_feature(ft)
        g = Feature(key, [mk_loc(l) for l in reversed(locs)], dict(q))
        if not (f == g) or hash(f) != hash(g):
            ctx.fail("immutable_hash", "equal features compare/hash differently", feature=feats_json([ft]))
        h0 = hash(f)
        d = f.qual
        d["injected"] = "x"
        ls = f.locs
        if "injected" in f.qual or hash(f) != h0 or not (f == g) or not isinstance(ls, frozenset):
            ctx.fail("immutable_hash", "Feature state reachable through .qual/.locs", feature=feats_json([ft]))
        src = dict(q)
        f2 = Feature(key, [mk_loc(l) for l in locs], src)
        src["later"] = "y"
        if "later" in f2.qual or not (f2 == f):
            ctx.fail("immutable_hash", "Feature keeps a reference to the caller's qualifier dict", feature=feats_json([ft]))
        l0 = locs[0]
        a, b = mk_loc(l0), mk_loc(l0)
        if not (a == b) or hash(a) != hash(b):
            ctx.fail("immutable_hash", "equal locations compare/hash differently", loc=list(l0))
        for attr, val in (("first", l0[0] - 1), ("last", l0[1] + 1), ("strand", Location.Strand.REVERSE), ("defect", Location.Defect.UNK_LOC)):
            try:
                setattr(a, attr, val)
            except AttributeError as e:
                ctx.exc(e)
            else:
                ctx.fail("immutable_hash", "Location.%s is assignable" % attr, loc=list(l0))
        for other in ((l0[0] - 1, l0[1], l0[2], l0[3]), (l0[0], l0[1] + 1, l0[2], l0[3]),
                      (l0[0], l0[1], R if l0[2] == F else F, l0[3]), (l0[0], l0[1], l0[2], l0[3] ^ UNK)):
            if a == mk_loc(other):
                ctx.fail("immutable_hash", "different locations compare equal", loc=[list(l0), list(other)])
        an = Annotation([f])
        if g not in an or len(Annotation([f, g])) != 1:
            ctx.fail("immutable_hash", "equal features are not identified inside an Annotation", feature=feats_json([ft]))


def case_rc_copy(rng, ctx):
    m = gen_mseq(rng, 1, 60)
    aseq = mk_aseq(m, rng)
    log_obj(ctx, m)
    detail = m.describe()
    if rng.random() < 0.3 and len(m.s) >= 2:
        forms = slice_forms(ctx, m.start, m.end, on_aseq=True, rng=rng, nsample=14)
        a, b = forms[int(rng.integers(len(forms)))]
        ctx.log("slice_first", a, b)
        aseq, m, _ = check_aseq_slice(ctx, aseq, m, a, b)
        detail = m.describe()
    # ---- reverse complement
    s1 = STARTS[int(rng.integers(len(STARTS)))]
    use_default = rng.random() < 0.3
    ctx.log("reverse_complement", None if use_default else s1)
    ctx.op("reverse_complement")
    rc = aseq.reverse_complement() if use_default else aseq.reverse_complement(s1)
    if use_default:
        s1 = 1
    exp_s, exp_feats = m_rc(m.s, m.start, m.feats, s1)
    ctx.oracle("rc_once_model")
    if sstr(rc.sequence) != exp_s or rc.sequence_start != s1:
        ctx.fail("rc_once_model", "reverse complement sequence/start %r/%r, model %r/%d" % (sstr(rc.sequence), rc.sequence_start, exp_s, s1), **detail)
    cov, norm = snap(rc.annotation)
    if cov != m_cover(exp_feats) or norm != m_norm(exp_feats):
        ctx.fail("rc_once_model", "reverse complement annotation differs from the per-base mirror model",
                 diff=_diff(norm, m_norm(exp_feats)), **detail)
    ctx.oracle("source_unchanged")
    if sstr(aseq.sequence) != m.s or snap(aseq.annotation)[1] != m_norm(m.feats):
        ctx.fail("source_unchanged", "reverse_complement modified its source", **detail)
    rr = rc.reverse_complement(m.start)
    ctx.oracle("rc_twice")
    if not (rr == aseq) or not (aseq == rr):
        ctx.fail("rc_twice", "rc(rc(x)) != x", got=repr(rr)[:600], **detail)
    if sstr(rr.sequence) != m.s or rr.sequence_start != m.start or snap(rr.annotation)[1] != m_norm(m.feats):
        ctx.fail("rc_twice", "rc(rc(x)) differs from the model of x", **detail)
    # ---- copies
    check_copy_annotation(ctx, rng, aseq.annotation, m.feats)
    if ctx.allowed("aseq_copy") and len(m.s) > 0:
        check_copy_aseq(ctx, rng, aseq, m)
    if ctx.allowed("feature_copy"):
        for ft in m.feats[:3]:
            check_copy_feature(ctx, ft)
    check_immutable_hash(ctx, rng, m.feats)
    _state(ctx, (("RC", len(m.s), sorted((l[0] - m.start, l[1] - m.start, l[2], l[3]) for k, q, locs in m.feats for l in locs))))
    ctx.mark_nontrivial(len(m.feats) > 0)


def check_copy_feature(ctx, ft):
    f = mk_feature(ft)
    ctx.op("feature.copy")
    ctx.oracle("copy_returns")
    try:
        c = f.copy()
    except TypeError as e:
        ctx.exc(e)
        ctx.fail("copy_returns", "Feature.copy() raised TypeError: %s" % e, feature=feats_json([ft]))
    ctx.oracle("copy_equal")
    if not (c == f) or hash(c) != hash(f) or not isinstance(c, Feature):
        ctx.fail("copy_equal", "Feature.copy() != original", feature=feats_json([ft]))
    ctx.oracle("copy_independent")
    if c.qual is f.qual or c._qual is f._qual:
        ctx.fail("copy_independent", "Feature copy shares its qualifier dict", feature=feats_json([ft]))


def run_case(stratum, rng, ctx):
    HOOK_MODE[0] = "raise"
    del _HOOK_FAILS[:]
    if stratum == "annot_slices":
        return case_annot_slices(rng, ctx)
    if stratum == "aseq_small_all_slices":
        return case_aseq_small(rng, ctx)
    if stratum == "aseq_long_sampled":
        return case_aseq_long(rng, ctx)
    if stratum == "feature_index":
        return case_feature_index(rng, ctx)
    if stratum == "rc_copy":
        return case_rc_copy(rng, ctx)
    raise KeyError(stratum)


# =========================================================================== selftest (oracle audit)
def selftest(ctx):
    # enum values the model relies on
    D = Location.Defect
    assert (D.MISS_LEFT.value, D.MISS_RIGHT.value, D.BEYOND_LEFT.value, D.BEYOND_RIGHT.value, D.UNK_LOC.value, D.BETWEEN.value) == (1, 2, 4, 8, 16, 32)
    # per-base model vs interval arithmetic, all locations and all slice forms of a 7-position window
    q = frozenset()
    n = 0
    for first in range(-2, 5):
        for last in range(first, 5):
            for d in (0, ML, MR, BR | UNK):
                feats = [("k", q, ((first, last, R, d),))]
                for a in [None] + list(range(-3, 7)):
                    for b in [None] + list(range(-3, 7)):
                        if a is not None and b is not None and a > b:
                            continue
                        cov, norm = m_slice(feats, a, b)
                        lo = first if a is None else max(first, a)
                        hi = last if b is None else min(last, b - 1)
                        if lo > hi:
                            assert cov == set() and norm == frozenset(), (first, last, a, b)
                        else:
                            nd = d | (ML if lo > first else 0) | (MR if hi < last else 0)
                            assert norm == frozenset({("k", q, frozenset({(lo, hi, R, nd)}))}), (first, last, a, b, norm)
                            assert cov == {("k", q, R, p) for p in range(lo, hi + 1)}
                        n += 1
    assert n > 5000
    # literal docstring example of Annotation
    g = lambda name: frozenset({("gene", name)})
    feats = [("CDS", g("test1"), ((-10, 30, F, 0),)), ("CDS", g("test2"), ((20, 50, F, 0),)),
             ("CDS", g("test3"), ((100, 130, F, 0),)), ("CDS", g("test4"), ((150, 250, F, 0),)),
             ("CDS", g("test5"), ((-50, 200, F, 0),))]
    cov, norm = m_slice(feats, 40, 150)
    assert norm == frozenset({("CDS", g("test5"), frozenset({(40, 149, F, ML | MR)})),
                              ("CDS", g("test2"), frozenset({(40, 50, F, ML)})),
                              ("CDS", g("test3"), frozenset({(100, 130, F, 0)}))})
    # set semantics: two locations clipped onto each other coincide
    cov, norm = m_slice([("k", q, ((1, 5, F, 0), (1, 8, F, 0)))], None, 4)
    assert norm == frozenset({("k", q, frozenset({(1, 3, F, MR)}))})
    # feature strings: docstring of AnnotatedSequence + reverse strand literal
    s = "ATGGCGTACGATTAGAAAAAAA"
    assert m_feature_strings(s, 1, [(1, 2, F, 0), (11, 12, F, 0)]) == {"ATAT"}
    assert m_feature_strings(s, 1, [(16, 22, F, 0)]) == {"AAAAAAA"}
    assert m_assign(s, 1, [(11, 12, F, 0), (1, 2, F, 0)], "CCGG") == "CCGGCGTACGGGTAGAAAAAAA"
    assert revcomp("ACGCTT") == "AAGCGT"
    # join(complement): reverse feature over 2..3 and 6..8 of ACGTACGT (start 1): bases CG , CGT -> ACG + CG
    assert m_feature_strings("ACGTACGT", 1, [(2, 3, R, 0), (6, 8, R, 0)]) == {"ACG" + "CG"}
    assert m_feature_strings("ACGTACGT", 101, [(102, 103, R, 0), (106, 108, R, 0)]) == {"ACGCG"}
    assert m_feature_strings("ACGT", 1, [(1, 2, F, 0), (3, 4, R, 0)]) is None
    assert m_feature_strings("ACGT", 1, [(1, 2, F, 0), (1, 3, F, 0)]) == {"ACACG", "ACGAC"}
    # assignment model inverts the read model (all 2-location disjoint features of a 6-mer, both strands)
    base = "ACGTTG"
    for st in (F, R):
        for a in range(1, 7):
            for b in range(a, 7):
                for c in range(b + 1, 7):
                    for d in range(c, 7):
                        locs = [(c, d, st, 0), (a, b, st, 0)]
                        new = "TTGCAA"[: (b - a + 1) + (d - c + 1)]
                        after = m_assign(base, 1, locs, new)
                        assert m_feature_strings(after, 1, locs) == {new}
                        assert all(after[i] == base[i] for i in range(6) if not (a <= i + 1 <= b or c <= i + 1 <= d))
    # reverse-complement model is an involution and mirrors coverage
    feats = [("k", q, ((2, 3, F, ML | BR), (5, 5, R, UNK)))]
    s1, f1 = m_rc("ACGTA", 2, feats, 17)
    assert s1 == "TACGT" and f1 == [("k", q, ((20, 21, R, MR | BL), (18, 18, F, UNK)))], f1
    s2, f2 = m_rc(s1, 17, f1, 2)
    assert s2 == "ACGTA" and m_norm(f2) == m_norm(feats)
    # the hooks are not blind: a wrong result must be rejected by the relation
    an = mk_annotation([("k", q, ((1, 8, F, 0),))])
    assert _rel_annotation_slice(an, slice(3, 6), an) is not None
    good = mk_annotation([("k", q, ((3, 5, F, ML | MR),))])
    assert _rel_annotation_slice(an, slice(3, 6), good) is None
    noflag = mk_annotation([("k", q, ((3, 5, F, ML),))])
    assert str(_rel_annotation_slice(an, slice(3, 6), noflag)).startswith("flags")
    a0 = AnnotatedSequence(an, NucleotideSequence("ACGTACGTAC"), 1)
    ok = AnnotatedSequence(good, NucleotideSequence("GTA"), 3)
    assert _rel_aseq_getitem(a0, slice(3, 6), ok) == ("hook_aseq_getitem_slice", None)
    bad = AnnotatedSequence(good, NucleotideSequence("GTA"), 1)
    assert _rel_aseq_getitem(a0, slice(3, 6), bad)[1].startswith("window")
    assert _rel_aseq_getitem(a0, mk_feature(("k", q, ((2, 3, R, 0),))), NucleotideSequence("CG"))[1] is None
    assert _rel_aseq_getitem(a0, mk_feature(("k", q, ((2, 3, R, 0),))), NucleotideSequence("GC"))[1] is not None
    # and they are installed
    assert getattr(Annotation.__dict__["__getitem__"], "__c13_hooked__", False)
    assert getattr(AnnotatedSequence.__dict__["__getitem__"], "__c13_hooked__", False)
    # a deliberately wrong implementation must trip the contract with the declared error
    import icontract
    fake = icontract.ensure(annotation_getitem_matches_per_base_model, error=_contract_error)(lambda self, index: self)
    HOOK_MODE[0] = "raise"
    try:
        fake(an, slice(3, 6))
    except ContractBroken as e:
        assert e.oracle == "hook_annotation_getitem"
    else:
        raise AssertionError("contract did not fire on a wrong result")
    assert fake(an, slice(0, 20)) is an


# =========================================================================== probes
def _probe_prelude():
    HOOK_MODE[0] = "record"
    del _HOOK_FAILS[:]


def _probe_aseq_copy(ctx):
    """S17a trigger class: AnnotatedSequence.copy()."""
    _probe_prelude()
    rng = np.random.default_rng(1)
    for s, start in (("ACGTACGTAC", 1), ("A", 2), ("ACGTNNRY", 101)):
        m = MSeq(s, start, [("gene", frozenset({("uid", "0")}), ((start, start + len(s) - 1, F, 0),))])
        aseq = mk_aseq(m)
        ctx.log("aseq.copy", s, start)
        check_copy_aseq(ctx, rng, aseq, m)


def _probe_open_stop(ctx):
    """S17b trigger class: stop omitted on an AnnotatedSequence ([a:] and [:])."""
    from vf.core import Violation
    _probe_prelude()
    q = lambda i: frozenset({("uid", str(i))})
    for start in STARTS:
        for n in (5, 1, 10):
            s = ("ACGTTGCAAG" * 2)[:n]
            feats = [("gene", q(0), ((start, start + n - 1, F, 0),)),
                     ("CDS", q(1), ((start + n // 2, start + n - 1, R, 0),))]
            m = MSeq(s, start, feats)
            aseq = mk_aseq(m)
            log_obj(ctx, m)
            forms = [(None, None)] + [(a, None) for a in range(start, start + n)]
            ctx.log("open_slices", forms)
            for a, b in forms:
                before = len(_HOOK_FAILS)
                try:
                    check_aseq_slice(ctx, aseq, m, a, b)
                except Violation as v:
                    # a wrong *returned* result must also have been seen by the postcondition
                    if v.oracle in ("coverage_vs_model", "cut_flags", "window") and len(_HOOK_FAILS) == before:
                        ctx.oracle("hook_blind")
                        ctx.fail("hook_blind", "direct oracle %s failed on aseq%s but the postcondition did not" % (v.oracle, fmt(a, b)))
                    raise


def _probe_assign_multi(ctx):
    """S17c (order) trigger class: assignment through a forward feature with several locations."""
    _probe_prelude()
    rng = np.random.default_rng(2)
    base = "ACGTACGTACGT"
    for start in (1, 101):
        for a in range(0, 9):
            for k in (2, 3):
                locs = tuple((start + a + 2 * i, start + a + 2 * i, F, 0) for i in range(k))[::-1] if k == 3 else \
                    ((start + a + 2, start + a + 3, F, 0), (start + a, start + a, F, 0))
                if max(l[1] for l in locs) >= start + len(base):
                    continue
                m = MSeq(base, start, [])
                aseq = mk_aseq(m)
                ft = ("CDS", frozenset({("uid", "0")}), locs)
                log_obj(ctx, m)
                check_feature_assign(ctx, rng, aseq, m, ft)


def _probe_assign_reverse(ctx):
    """S17c (strand) trigger class: assignment through a single reverse-strand location."""
    _probe_prelude()
    rng = np.random.default_rng(3)
    base = "ACGTACGTACGT"
    for start in (1, 17):
        for a in range(0, 8):
            m = MSeq(base, start, [])
            aseq = mk_aseq(m)
            ft = ("CDS", frozenset({("uid", "0")}), ((start + a, start + a + 3, R, 0),))
            log_obj(ctx, m)
            check_feature_assign(ctx, rng, aseq, m, ft)


def _probe_empty_slice(ctx):
    """Empty slices [a:a] inside a location."""
    _probe_prelude()
    feats = [("gene", frozenset({("uid", "0")}), ((3, 8, F, 0),)), ("CDS", frozenset({("uid", "1")}), ((1, 2, R, 0), (9, 10, R, 0)))]
    an = mk_annotation(feats)
    ctx.log("annotation", feats_json(feats))
    for a in range(0, 12):
        ctx.log("slice", a, a)
        check_annot_slice(ctx, an, feats, a, a)
    for start in STARTS:
        m = MSeq("ACGTACGTAC", start, [("gene", frozenset({("uid", "0")}), ((start + 2, start + 7, F, 0),))])
        aseq = mk_aseq(m)
        log_obj(ctx, m)
        for a in range(start, start + 11):
            check_aseq_slice(ctx, aseq, m, a, a)
        check_aseq_slice(ctx, aseq, m, None, start)


def _probe_feature_copy(ctx):
    """Feature.copy()."""
    _probe_prelude()
    for ft in (("gene", frozenset({("uid", "0")}), ((3, 8, F, 0),)),
               ("CDS", frozenset(), ((1, 2, R, ML), (9, 10, R, BR)))):
        ctx.log("feature.copy", feats_json([ft]))
        check_copy_feature(ctx, ft)


PROBES = {
    "aseq_copy": _probe_aseq_copy,
    "open_stop_slice": _probe_open_stop,
    "feature_assign_multi_loc": _probe_assign_multi,
    "feature_assign_reverse": _probe_assign_reverse,
    "empty_slice": _probe_empty_slice,
    "feature_copy": _probe_feature_copy,
}
