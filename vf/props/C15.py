"""C15  Geometry is rigid-motion invariant; periodic helpers act by lattice vectors.

Monitor: differential oracle on every generated input.  References are float64
textbook formulas (vf/models/geom_ref.py); periodic results are judged by a lattice
test (d @ inv(box) integral) and a 125-image brute-force shortest image.
"""

import importlib.util
import os
import warnings

import numpy as np

from vf.models import geom_ref as G

ID = "C15"
FLAVOUR = "plain"
LEVEL = "exploration"
THOROUGH_MULT = 2.5       # deepens the sampled strata of the thorough tier (measured: about ten minutes on 16 cores)
RULE = (
    "seeded generator.  measure: 4 operands with shapes drawn from (3,), (n,3), (m,n,3), (1,3), (1,n,3), (m,1,3) "
    "(m 1-4, n 1-8), scale 10^-2..10^2 around a centre of magnitude up to 10^4, given as float32/float64 ndarray or "
    "Atom/AtomArray/AtomArrayStack, plus index_* on random index tuples; the whole system is then moved by a random unit-"
    "quaternion rotation + translation or by biotite's own translate/rotate/rotate_centered/rotate_about_axis/align_vectors. "
    "pbc: cubic / orthorhombic / rigidly rotated orthorhombic / triclinic (angles 40-140 deg, also 90 +- 10^-4..1 deg, "
    "rotated) boxes of edge 1-1000 A (and triclinic boxes of edge 10^-3.5..0.3 A, where is_orthogonal's absolute tolerance classifies them as orthogonal), float32 and float64, one box or per-model boxes, points anywhere within +-3 (sometimes "
    "+-50) cells.  helpers: move_inside_box, fraction conversion, unit-cell conversion, is_orthogonal.  remove_pbc: 1-4 "
    "molecules (random trees / rings, 2-30 atoms, diameter < 0.45 x smallest box height), atoms interleaved, every atom "
    "shifted by its own random lattice vector.  A case is non-trivial when at least one result array was compared against "
    "the reference with a non-degenerate input (a rotation by more than 0.1 rad, a box, or a wrapped atom); distinct = "
    "digest of the logged inputs."
)
STRATA = {
    "measure": (5000, 250000),
    "transform": (2200, 90000),
    "pbc": (4000, 200000),
    "helpers": (2200, 90000),
    "remove_pbc": (1800, 70000),
    "backbone": (300, 10000),
}
# functions that must leave their arguments untouched (vf.core.PurityMonitor; '!' = the object itself is watched too)
PURE = [
    "biotite.structure.geometry:distance",
    "biotite.structure.geometry:angle",
    "biotite.structure.geometry:dihedral",
    "biotite.structure.geometry:displacement",
    "biotite.structure.geometry:index_distance",
    "biotite.structure.geometry:index_angle",
    "biotite.structure.geometry:index_dihedral",
    "biotite.structure.geometry:centroid",
    "biotite.structure.box:unitcell_from_vectors",
    "biotite.structure.box:coord_to_fraction",
    "biotite.structure.box:fraction_to_coord",
    "biotite.structure.box:move_inside_box",
    "biotite.structure.box:remove_pbc",
    "biotite.structure.box:remove_pbc_from_coord",
    "biotite.structure.box:repeat_box",
    "biotite.structure.box:repeat_box_coord",
    "biotite.structure.box:is_orthogonal",
    "biotite.structure.transform:translate",
    "biotite.structure.transform:rotate",
    "biotite.structure.transform:rotate_centered",
    "biotite.structure.transform:rotate_about_axis",
    "biotite.structure.transform:align_vectors",
    "biotite.structure.transform:orient_principal_components",
]
REQUIRED_ORACLES = [
    "distance_textbook", "angle_textbook", "dihedral_textbook", "distance_invariant", "angle_invariant",
    "dihedral_invariant", "index_equals_coordinate_form", "pbc_lattice", "pbc_shortest_orthorhombic",
    "pbc_shortest_triclinic", "move_inside_lattice", "fraction_roundtrip", "unitcell_roundtrip",
    "unwrap_lattice", "unwrap_bonded_min_image", "transform_reference", "transform_is_rigid",
]
ANCHORS = [
    "biotite.structure.geometry:displacement",
    "biotite.structure.geometry:_displacement_orthogonal_box",
    "biotite.structure.geometry:_displacement_triclinic_box",
    "biotite.structure.geometry:distance",
    "biotite.structure.geometry:angle",
    "biotite.structure.geometry:dihedral",
    "biotite.structure.geometry:index_distance",
    "biotite.structure.geometry:index_angle",
    "biotite.structure.geometry:index_dihedral",
    "biotite.structure.geometry:index_displacement",
    "biotite.structure.geometry:_call_non_index_function",
    "biotite.structure.geometry:dihedral_backbone",
    "biotite.structure.geometry:centroid",
    "biotite.structure.box:vectors_from_unitcell",
    "biotite.structure.box:unitcell_from_vectors",
    "biotite.structure.box:coord_to_fraction",
    "biotite.structure.box:fraction_to_coord",
    "biotite.structure.box:move_inside_box",
    "biotite.structure.box:remove_pbc",
    "biotite.structure.box:remove_pbc_from_coord",
    "biotite.structure.box:repeat_box",
    "biotite.structure.box:is_orthogonal",
    "biotite.structure.transform:translate",
    "biotite.structure.transform:rotate",
    "biotite.structure.transform:rotate_centered",
    "biotite.structure.transform:rotate_about_axis",
    "biotite.structure.transform:align_vectors",
    "biotite.structure.transform:orient_principal_components",
    "biotite.structure.util:norm_vector",
    "biotite.structure.util:vector_dot",
    "biotite.structure.molecules:get_molecule_masks",
]
OPTIONAL_ANCHORS = []
ASSUMPTIONS = [
    "inputs are the float32 values biotite actually uses (coord() casts every ndarray to float32); references are float64 on exactly those values",
    "angles are compared through cosines (tolerance 16 eps32 plus input conditioning), dihedrals with 32 eps32 (1/sin t1 + 1/sin t2); "
    "elements whose reference is undefined (zero-length vector, collinear triple for a dihedral) or whose conditioning bound exceeds 0.05 rad are counted as undecided, not judged",
    "periodic tolerance: 16 eps (M + L) cond(box) with M the coordinate magnitude, L the longest box edge, eps of the least precise input",
    "triclinic minimality is judged only when the brute-force shortest image is shorter than half the smallest box height minus the tolerance; "
    "periodic angles/dihedrals only when every bond vector has a unique shortest image (gap to the second image > tolerance)",
    "is_orthogonal is judged outside a band of 8 eps L^2 around its documented absolute tolerance 1e-6",
    "repeat_box / repeat_box_coord: the number of images is only observed (`repeat_box(atoms, amount)` ignoring `amount` is counted); that every repeated atom is a lattice image of its original in the same model is judged",
    "dihedral_backbone needs the Chemical Component Dictionary, absent here: the synthetic dictionary /verif/fixtures/ccd.py is activated (residues ALA/GLY)",
    "remove_pbc documents that molecule centroids end up inside the box; this is observed (note) but not judged, the statement does not demand it",
    "orient_principal_components is judged as a rigid proper motion that centres the structure; alignment of the principal axes is observed only",
]
MIN_CASES_PER_WORKER = 50
MANIFEST = {
    "technique": "differential runtime monitor: every generated call of the geometry / box / transform functions is compared with float64 textbook "
                 "formulas, re-evaluated after a random rigid motion, and periodic results are checked with a lattice test and a 125-image brute-force minimum image",
    "level_text": "Runtime monitoring: thousands of generated coordinate sets (all documented shapes and broadcast pairs, float32/float64, Atom/AtomArray/"
                  "AtomArrayStack), rigid motions, boxes (orthorhombic, rotated, triclinic, per-model) and wrapped molecules are pushed through the real "
                  "biotite functions while float64 reference formulas, a lattice-vector test and a brute-force shortest-image search judge every returned array.  "
                  "Held-on-what-was-observed, not a proof.",
    "level_note": "Trusts numpy's float64 linear algebra and the reference module vf/models/geom_ref.py (audited at start-up on hand-computed cases and a "
                  "729-image search).  Tolerances are format-derived (k eps32 M); results inside the stated undecided bands are counted, not judged.  "
                  "Trigger classes of listed known findings are quarantined into probes.",
    "design_ref": "DESIGN.md section 6, C15",
}

E32 = G.EPS32
struc = None
BadStructureError = None
CCD_OK = False
WORST = {}          # oracle -> worst err/tol ratio seen in this worker (development aid)


def setup(ctx):
    global struc, BadStructureError, CCD_OK
    warnings.filterwarnings("ignore", category=RuntimeWarning)
    warnings.filterwarnings("ignore", message=".*chararray.*")
    import biotite.structure as struc_
    import biotite.structure.util  # noqa: F401  (anchors)
    struc = struc_
    BadStructureError = struc.BadStructureError
    try:
        path = os.path.join(os.path.dirname(os.path.dirname(os.path.dirname(os.path.abspath(__file__)))), "fixtures", "ccd.py")
        spec = importlib.util.spec_from_file_location("verif_fixture_ccd", path)
        mod = importlib.util.module_from_spec(spec)
        spec.loader.exec_module(mod)
        mod.activate()
        CCD_OK = True
    except Exception:
        CCD_OK = False


# ====================================================================== judging helpers
def within(ctx, oracle, err, tol, msg, **detail):
    """Judge |err| <= tol element-wise (NaN err = failure)."""
    ctx.oracle(oracle)
    err = np.abs(np.asarray(err, dtype=np.float64))
    tol = np.broadcast_to(np.asarray(tol, dtype=np.float64), err.shape)
    if err.size == 0:
        return
    with np.errstate(all="ignore"):
        ratio = np.where(tol > 0, err / np.where(tol > 0, tol, 1), np.where(err == 0, 0.0, np.inf))
    r = float(np.nanmax(ratio)) if np.isfinite(ratio).any() else 0.0
    if r > WORST.get(oracle, 0.0):
        WORST[oracle] = r
    bad = ~(err <= tol)
    if bad.any():
        k = int(np.argmax(np.where(np.isnan(err), np.inf, err / np.maximum(tol, 1e-300))))
        ctx.fail(oracle, "%s: error %.6g > tolerance %.6g (flat element %d of shape %s, %d of %d elements off)"
                 % (msg, float(err.ravel()[k]), float(tol.ravel()[k]), k, list(err.shape), int(bad.sum()), err.size), **detail)


def expect_shape(ctx, got, shape, what):
    ctx.oracle("result_shape")
    gs = tuple(np.shape(got))
    if gs != tuple(shape):
        ctx.fail("result_shape", "%s returned shape %s, expected %s" % (what, list(gs), list(shape)))


def absmax(*arrays):
    m = 0.0
    for a in arrays:
        a = np.asarray(a, dtype=np.float64)
        if a.size:
            m = max(m, float(np.abs(a).max()))
    return m


# ====================================================================== generators
def gen_dims(rng):
    return int(rng.integers(1, 5)), int(rng.integers(1, 9))


_SHAPE_KINDS = ["v", "a", "s", "a1", "s1n", "sm1"]


def shape_of(kind, m, n):
    return {"v": (3,), "a": (n, 3), "s": (m, n, 3), "a1": (1, 3), "s1n": (1, n, 3), "sm1": (m, 1, 3)}[kind]


def gen_shape_kinds(rng, k):
    mode = str(rng.choice(["same_v", "same_a", "same_s", "mixed", "mixed", "mixed"]))
    if mode == "mixed":
        return [str(rng.choice(_SHAPE_KINDS, p=[.2, .3, .3, .05, .05, .1])) for _ in range(k)]
    return [mode[-1]] * k


def gen_points(rng, shapes):
    """float32 point clouds of the given shapes around one centre."""
    scale = 10.0 ** rng.uniform(-2, 2)
    cmag = 0.0 if rng.random() < 0.3 else min(10.0 ** rng.uniform(-2, 4), scale * 1e3)
    centre = rng.normal(size=3) * cmag
    return [(centre + scale * rng.normal(size=s)).astype(np.float32) for s in shapes], scale


def wrap_form(form, x):
    """Present a float32 array as ndarray float32 / float64 or as biotite atoms."""
    if form == "nd32":
        return x
    if form == "nd64":
        return x.astype(np.float64)
    if x.ndim == 1:
        return struc.Atom(x.copy())
    if x.ndim == 2:
        a = struc.AtomArray(x.shape[0])
        a.coord = x.copy()
        return a
    s = struc.AtomArrayStack(x.shape[0], x.shape[1])
    s.coord = x.copy()
    return s


def gen_motion(rng, ctx, scale, allow_biotite=True):
    """A rigid motion of the whole system: returns (description, fn(list of float32 arrays) -> list of float32 arrays, big)."""
    kinds = ["own", "own"]
    if allow_biotite:
        kinds += ["rotate_translate", "rotate_centered", "rotate_about_axis", "align_vectors"]
    kind = str(rng.choice(kinds))
    tmag = 0.0 if rng.random() < 0.2 else scale * 10.0 ** rng.uniform(-1, 3)
    t = rng.normal(size=3) * tmag

    def pack(xs):
        flat = np.concatenate([x.reshape(-1, 3) for x in xs], axis=0)
        return flat

    def unpack(flat, xs):
        out, o = [], 0
        for x in xs:
            k = x.size // 3
            out.append(np.ascontiguousarray(flat[o:o + k].reshape(x.shape)).astype(np.float32))
            o += k
        return out

    if kind == "own":
        R = G.quat_rotation(rng)
        ang = float(np.arccos(np.clip((np.trace(R) - 1) / 2, -1, 1)))
        desc = ["own", R.tolist(), t.tolist()]
        return desc, (lambda xs: unpack(G.move(pack(xs), R, t), xs)), ang > 0.1
    if kind == "rotate_translate":
        angles = rng.uniform(-np.pi, np.pi, size=3)
        desc = ["rotate+translate", angles.tolist(), t.tolist()]
        return desc, (lambda xs: unpack(struc.translate(struc.rotate(pack(xs), angles), t), xs)), True
    if kind == "rotate_centered":
        angles = rng.uniform(-np.pi, np.pi, size=3)
        desc = ["rotate_centered+translate", angles.tolist(), t.tolist()]
        return desc, (lambda xs: unpack(struc.translate(struc.rotate_centered(pack(xs), angles), t), xs)), True
    if kind == "rotate_about_axis":
        axis = rng.normal(size=3) * 10.0 ** rng.uniform(-2, 2)
        angle = float(rng.uniform(-2 * np.pi, 2 * np.pi))
        support = None if rng.random() < 0.5 else (rng.normal(size=3) * scale).tolist()
        desc = ["rotate_about_axis", axis.tolist(), angle, support]
        return desc, (lambda xs: unpack(struc.rotate_about_axis(pack(xs), axis, angle, support), xs)), abs(angle) > 0.1
    o = rng.normal(size=3)
    limit = np.pi if ctx.allowed("align_vectors_near_antiparallel") else ALIGN_CLEAN_MAX
    tdir = G.move(o, G.axis_angle_matrix(np.cross(o, rng.normal(size=3)), float(rng.uniform(0.05, min(limit, 3.1)))))
    op = None if rng.random() < 0.5 else (rng.normal(size=3) * scale).tolist()
    tp = None if rng.random() < 0.5 else (rng.normal(size=3) * scale).tolist()
    desc = ["align_vectors", o.tolist(), tdir.tolist(), op, tp]
    return desc, (lambda xs: unpack(struc.align_vectors(pack(xs), o, tdir, op, tp), xs)), True


ALIGN_CLEAN_MAX = np.deg2rad(150.0)


# ====================================================================== stratum: measure
def _bc(*xs):
    return np.broadcast_shapes(*[x.shape for x in xs])[:-1]


def judge_distance(ctx, oracle, got, ref, extra_tol=0.0, what="distance"):
    within(ctx, oracle, np.asarray(got, np.float64) - ref, 8 * E32 * ref + extra_tol + 1e-37, what)


def judge_angle(ctx, oracle, got, cref, l1, l2, extra_abs=0.0, what="angle"):
    """got: angles (float32); cref: reference cosine; extra_abs: absolute perturbation of the vectors."""
    got = np.asarray(got, np.float64)
    defined = np.isfinite(cref) & (l1 > 0) & (l2 > 0)
    lmin = np.where(defined, np.minimum(l1, l2), 1.0)
    tol = 16 * E32 + 4.0 * extra_abs / lmin
    collinear = defined & (np.abs(cref) >= 1 - 16 * E32)
    if collinear.any() and not ctx.allowed("angle_of_collinear_atoms"):
        ctx.note("undecided_collinear_angle_quarantined", int(collinear.sum()))
        defined = defined & ~collinear
    ill = defined & (tol > 0.02)
    if ill.any():
        ctx.note("undecided_angle_ill_conditioned", int(ill.sum()))
        defined = defined & ~ill
    if (~np.isfinite(cref)).any():
        ctx.note("undefined_angle_zero_vector", int((~np.isfinite(cref)).sum()))
    if not defined.any():
        return False
    within(ctx, oracle, (np.cos(got) - cref)[defined], np.broadcast_to(tol, cref.shape)[defined], what)
    ctx.oracle("angle_range")
    g = got[defined]
    if ((g < 0) | (g > np.pi + 1e-6)).any():
        ctx.fail("angle_range", "%s outside [0, pi]: %r" % (what, g[(g < 0) | (g > np.pi + 1e-6)][:3].tolist()))
    return True


def judge_dihedral(ctx, oracle, got, dref, s1, s2, lmin, extra_abs=0.0, what="dihedral"):
    got = np.asarray(got, np.float64)
    with np.errstate(all="ignore"):
        cond = 1.0 / s1 + 1.0 / s2
        tol = (32 * E32 + 8.0 * extra_abs / lmin) * cond
    defined = np.isfinite(dref) & np.isfinite(cond) & (lmin > 0)
    if (~defined).any():
        ctx.note("undefined_dihedral_degenerate", int((~defined).sum()))
    ill = defined & ~(tol <= 0.05)
    if ill.any():
        ctx.note("undecided_dihedral_ill_conditioned", int(ill.sum()))
        defined = defined & ~ill
    if not defined.any():
        return False
    within(ctx, oracle, G.wrap_angle(got - dref)[defined], tol[defined], what)
    return True


def case_measure(rng, ctx):
    m, n = gen_dims(rng)
    sub = str(rng.choice(["random", "random", "random", "collinear", "planar", "duplicate"]))
    kinds = gen_shape_kinds(rng, 4)
    if sub == "collinear":
        kinds = [kinds[0]] * 4
    shapes = [shape_of(k, m, n) for k in kinds]
    pts, scale = gen_points(rng, shapes)
    if sub == "collinear":
        # b, c, d on the line through a and b
        a64, d64 = pts[0].astype(np.float64), pts[1].astype(np.float64) - pts[0].astype(np.float64)
        fs = (1.0, float(rng.choice([-1.5, 2.0, 3.0, 0.5])), float(rng.uniform(-3, 3)))
        pts = [pts[0]] + [(a64 + f * d64).astype(np.float32) for f in fs]
    elif sub == "planar":
        z = np.float32(pts[0].flat[2])
        pts = [np.where(np.arange(3) == 2, z, p).astype(np.float32) for p in pts]
    elif sub == "duplicate" and pts[1].shape == pts[0].shape:
        pts[1] = pts[0].copy()
    form = str(rng.choice(["nd32", "nd32", "nd64", "atoms"]))
    ctx.log("measure", sub, form, kinds, m, n, [p.tolist() for p in pts] if sum(p.size for p in pts) <= 120 else
            ["seeded", [p.shape for p in pts]])
    ctx.op("measure_" + sub)
    ctx.op("form_" + form)
    for k in set(kinds):
        ctx.op("shape_" + k)

    def measure(ps, tag, ref=None, extra=0.0):
        """Evaluate the three functions on ps; judge against `ref` (defaults to the textbook values of ps)."""
        a, b, c, d = ps
        A, B, C, D = (wrap_form(form, p) for p in ps)
        before = [p.copy() for p in ps]
        with np.errstate(all="ignore"):
            dist = struc.distance(A, B)
            ang = struc.angle(A, B, C)
            dih = struc.dihedral(A, B, C, D)
        for p, q in zip(ps, before):
            if not np.array_equal(p, q):
                ctx.fail("input_not_mutated", "a geometry function changed its input coordinates")
        expect_shape(ctx, dist, _bc(a, b), "distance")
        expect_shape(ctx, ang, _bc(a, b, c), "angle")
        expect_shape(ctx, dih, _bc(a, b, c, d), "dihedral")
        if ref is None:
            ref = (G.dist(a, b), G.cos_angle(a, b, c), G.dihedral(a, b, c, d))
        judge_distance(ctx, "distance_" + tag, dist, ref[0], extra_tol=2 * extra)
        ok1 = judge_angle(ctx, "angle_" + tag, ang, *ref[1], extra_abs=extra)
        ok2 = judge_dihedral(ctx, "dihedral_" + tag, dih, *ref[2], extra_abs=extra)
        return ref, ok1 or ok2

    ref, ok = measure(pts, "textbook")
    # centroid (mean over the atom axis) on the array-shaped operands
    for p in pts:
        if p.ndim >= 2:
            ctx.op("centroid")
            c = struc.centroid(wrap_form(form if form != "atoms" or p.ndim > 1 else "nd32", p))
            expect_shape(ctx, c, p.shape[:-2] + (3,), "centroid")
            within(ctx, "centroid_textbook", np.asarray(c, np.float64) - p.astype(np.float64).mean(axis=-2),
                   8 * E32 * absmax(p) + 1e-37, "centroid")
            break
    # rigid motion of the whole system
    desc, fn, big = gen_motion(rng, ctx, scale)
    ctx.log("motion", desc)
    ctx.op("motion_" + desc[0])
    moved = fn(pts)
    Mp = absmax(*moved)
    # the moved inputs are rounded to float32: a perturbation of eps32/2 * |coordinate| per component
    measure(moved, "textbook")
    measure(moved, "invariant", ref=ref, extra=2 * E32 * (Mp + absmax(*pts)) * (1 if desc[0] == "own" else 4))
    if ok and (big or sub != "random"):
        ctx.mark_nontrivial()
    ctx.state([sub, form, sorted(set(kinds)), desc[0]])

    # ---- index forms
    base_kind = str(rng.choice(["a", "s"]))
    nn = int(rng.integers(2, 10))
    X = gen_points(rng, [(nn, 3) if base_kind == "a" else (m, nn, 3)])[0][0]
    k = int(rng.integers(0, 7))
    Xf = wrap_form(str(rng.choice(["nd32", "nd64", "atoms"])), X)
    for name, width, coordfn in (("index_distance", 2, struc.distance), ("index_angle", 3, struc.angle),
                                 ("index_dihedral", 4, struc.dihedral), ("index_displacement", 2, struc.displacement)):
        idx = rng.integers(0, nn, size=(k, width))
        if rng.random() < 0.3:
            idx = np.where(rng.random(idx.shape) < 0.3, idx - nn, idx)
        idx = idx.astype(str(rng.choice(["int64", "int32"])))
        ctx.log(name, X.tolist() if X.size <= 60 else list(X.shape), idx.tolist())
        ctx.op(name)
        with np.errstate(all="ignore"):
            got = getattr(struc, name)(Xf, idx)
            cols = [X[..., idx[:, j], :] for j in range(width)]
            same = coordfn(*cols)
        ctx.oracle("index_equals_coordinate_form")
        if np.shape(got) != np.shape(same) or not np.allclose(got, same, rtol=0, atol=0, equal_nan=True):
            ctx.fail("index_equals_coordinate_form", "%s differs from %s on the indexed coordinates" % (name, coordfn.__name__))
        c64 = [c.astype(np.float64) for c in cols]
        if name == "index_distance":
            judge_distance(ctx, "distance_textbook", got, G.dist(*c64), what=name)
        elif name == "index_angle":
            judge_angle(ctx, "angle_textbook", got, *G.cos_angle(*c64), what=name)
        elif name == "index_dihedral":
            judge_dihedral(ctx, "dihedral_textbook", got, *G.dihedral(*c64), what=name)
        else:
            within(ctx, "displacement_textbook", np.asarray(got, np.float64) - (c64[1] - c64[0]), 2 * E32 * np.abs(c64[1] - c64[0]) + 1e-37, name)
    # documented rejections
    if rng.random() < 0.15:
        ctx.op("index_wrong_width")
        ctx.oracle("index_wrong_width_rejected")
        bad = rng.integers(0, nn, size=(2, 3))
        try:
            struc.index_distance(Xf, bad)
        except ValueError as e:
            ctx.exc(e)
        else:
            ctx.fail("index_wrong_width_rejected", "index_distance accepted index tuples of width 3")
        if isinstance(Xf, np.ndarray):
            try:
                struc.index_distance(Xf, bad[:, :2], periodic=True)
            except ValueError as e:
                ctx.exc(e)
            else:
                ctx.fail("index_wrong_width_rejected", "periodic=True on bare coordinates without a box was accepted")


# ====================================================================== stratum: transform
def pair_dists(x):
    """All pair distances within each model (float64), for rigidity checks."""
    x = np.asarray(x, np.float64)
    if x.ndim == 1:
        return np.zeros(0)
    d = x[..., :, None, :] - x[..., None, :, :]
    return np.sqrt((d * d).sum(-1))


def case_transform(rng, ctx):
    fn = str(rng.choice(["translate", "rotate", "rotate_centered", "rotate_about_axis", "align_vectors",
                         "orient_principal_components"]))
    m, n = gen_dims(rng)
    kind = str(rng.choice(["v", "a", "s"], p=[.15, .5, .35]))
    if fn == "orient_principal_components":
        kind, n = "a", int(rng.integers(3, 12))
    (x,), scale = gen_points(rng, [shape_of(kind, m, n)])
    form = str(rng.choice(["nd32", "nd64", "atoms"]))
    X = wrap_form(form, x)
    x64 = x.astype(np.float64)
    M = absmax(x)
    ctx.op("transform_" + fn)
    ctx.op("form_" + form)
    rigid_only, ref, tol, extra_M = False, None, None, 0.0
    if fn == "translate":
        vshape = [(3,), x.shape, x.shape[-2:]][int(rng.integers(3))] if x.ndim > 1 else (3,)
        v = rng.normal(size=vshape) * scale * 10.0 ** rng.uniform(-1, 2)
        vv = v if rng.random() < 0.5 else v.tolist()
        ctx.log(fn, form, x.tolist(), v.tolist())
        got = struc.translate(X, vv)
        ref = x64 + v
        tol = 4 * E32 * (M + absmax(v))
        rigid_only = v.ndim == 1
    elif fn in ("rotate", "rotate_centered"):
        angles = rng.uniform(-2 * np.pi, 2 * np.pi, size=3)
        if rng.random() < 0.2:
            angles[int(rng.integers(3))] = 0.0
        ctx.log(fn, form, x.tolist(), angles.tolist())
        R = G.euler_xyz_matrix(angles)
        if fn == "rotate":
            got = struc.rotate(X, angles if rng.random() < 0.5 else angles.tolist())
            ref = G.move(x64, R)
        else:
            got = struc.rotate_centered(X, angles)
            if x.ndim == 1:
                ref = x64
            else:
                c = x64.mean(axis=-2, keepdims=True)
                ref = G.move(x64 - c, R) + c
        tol = 16 * E32 * M
        rigid_only = True
    elif fn == "rotate_about_axis":
        axis = rng.normal(size=3) * 10.0 ** rng.uniform(-3, 3)
        angle = float(rng.uniform(-2 * np.pi, 2 * np.pi))
        support = None if rng.random() < 0.4 else rng.normal(size=3) * scale * 10.0 ** rng.uniform(-1, 1)
        ctx.log(fn, form, x.tolist(), axis.tolist(), angle, None if support is None else support.tolist())
        got = struc.rotate_about_axis(X, axis if rng.random() < 0.5 else axis.tolist(), angle,
                                      None if support is None else (support if rng.random() < 0.5 else support.tolist()))
        s = 0.0 if support is None else support
        ref = G.move(x64 - s, G.axis_angle_matrix(axis, angle)) + s
        extra_M = absmax(s)
        tol = 16 * E32 * (M + 2 * extra_M)
        rigid_only = True
    elif fn == "align_vectors":
        o = rng.normal(size=3) * 10.0 ** rng.uniform(-2, 2)
        limit = 3.1 if ctx.allowed("align_vectors_near_antiparallel") else ALIGN_CLEAN_MAX
        theta = float(rng.uniform(0, limit)) if rng.random() < 0.9 else 0.0
        perp = np.cross(o, rng.normal(size=3))
        tdir = G.move(o, G.axis_angle_matrix(perp, theta)) * 10.0 ** rng.uniform(-1, 1)
        op = None if rng.random() < 0.4 else rng.normal(size=3) * scale
        tp = None if rng.random() < 0.4 else rng.normal(size=3) * scale
        ctx.log(fn, form, x.tolist(), o.tolist(), tdir.tolist(), None if op is None else op.tolist(),
                None if tp is None else tp.tolist())
        got = struc.align_vectors(X, o, tdir, op, tp)
        o32, t32 = o.astype(np.float32).astype(np.float64), tdir.astype(np.float32).astype(np.float64)
        cr = np.cross(o32, t32)
        c, l1, l2 = G.cos_angle_vec(o32, t32)
        R = np.eye(3) if np.sqrt((cr * cr).sum()) < 1e-12 * l1 * l2 else G.axis_angle_matrix(cr, float(np.arccos(np.clip(c, -1, 1))))
        a0 = 0.0 if op is None else op.astype(np.float32).astype(np.float64)
        a1 = 0.0 if tp is None else tp.astype(np.float32).astype(np.float64)
        ref = G.move(x64 - a0, R) + a1
        extra_M = absmax(a0) + absmax(a1)
        tol = 16 * E32 * (M + 2 * extra_M) * 2.0 / (1.0 + float(c))
        rigid_only = True
    else:
        order = None if rng.random() < 0.4 else rng.permutation(3)
        sub = str(rng.choice(["random", "planar", "elongated"]))
        if sub == "planar":
            x[:, 2] = x[0, 2]
        elif sub == "elongated":
            x = (x.astype(np.float64) * np.array([10.0, 1.0, 0.1])).astype(np.float32)
        x64 = x.astype(np.float64)
        X = wrap_form(form, x)
        M = absmax(x)
        ctx.log(fn, form, sub, x.tolist(), None if order is None else order.tolist())
        got = struc.orient_principal_components(X, None if order is None else (order if rng.random() < 0.5 else order.tolist()))
    g = np.asarray(got.coord if form == "atoms" else got, np.float64)
    expect_shape(ctx, g, x.shape, fn)
    ctx.oracle("input_not_mutated")
    cur = X.coord if form == "atoms" else X
    if not np.array_equal(np.asarray(cur, np.float64), x64):
        ctx.fail("input_not_mutated", "%s changed its input" % fn)
    if form == "atoms" and type(got) is not type(X):
        ctx.fail("result_shape", "%s returned %s for %s input" % (fn, type(got).__name__, type(X).__name__))
    Mg = absmax(g)
    if ref is not None:
        within(ctx, "transform_reference", g - ref, tol, "%s vs float64 reference" % fn)
    if fn == "orient_principal_components":
        rt = 64 * E32 * (M + Mg)
        within(ctx, "transform_is_rigid", pair_dists(g) - pair_dists(x64), rt, "%s changes pair distances" % fn)
        within(ctx, "opc_centred", g.mean(axis=0), 16 * E32 * (M + Mg), "centroid after orient_principal_components")
        xc = x64 - x64.mean(axis=0)
        sv = np.linalg.svd(xc, compute_uv=False)
        if sv[-1] > 1e-3 * sv[0]:
            ctx.oracle("transform_is_proper")
            H = xc.T @ (g - g.mean(axis=0))
            if np.linalg.det(H) <= 0:
                ctx.fail("transform_is_proper", "orient_principal_components mirrored the structure (det of the cross-covariance <= 0)")
        var = g.var(axis=0)
        rank = np.arange(3) if order is None else np.asarray(order)
        cov = np.cov(g.T)
        off = np.abs(cov - np.diag(np.diag(cov))).max()
        bad_order = any(rank[i] < rank[j] and var[i] < var[j] - 1e-3 * var.sum() for i in range(3) for j in range(3))
        if bad_order or off > 1e-3 * max(np.trace(cov), 1e-300):
            ctx.note("opc_principal_axes_not_aligned")
        ctx.mark_nontrivial()
    elif rigid_only and x.ndim > 1:
        within(ctx, "transform_is_rigid", pair_dists(g) - pair_dists(x64), 16 * E32 * (M + Mg + extra_M),
               "%s changes pair distances" % fn)
        ctx.mark_nontrivial()
    else:
        ctx.mark_nontrivial(ref is not None)
    ctx.state([fn, kind, form])
    # documented rejections
    r = rng.random()
    if r < 0.05:
        ctx.oracle("bad_argument_rejected")
        for what, call in (("translate with a 2-vector", lambda: struc.translate(x, [1.0, 2.0])),
                           ("rotate with 2 angles", lambda: struc.rotate(x, [1.0, 2.0])),
                           ("rotate_about_axis with a zero axis", lambda: struc.rotate_about_axis(x, [0, 0, 0], 1.0)),
                           ("align_vectors with a zero direction", lambda: struc.align_vectors(x, [0, 0, 0], [1, 0, 0])),
                           ("align_vectors with opposite directions", lambda: struc.align_vectors(x, [1, 0, 0], [-1, 0, 0])),
                           ("orient_principal_components with 2 atoms", lambda: struc.orient_principal_components(np.zeros((2, 3), np.float32))),
                           ("orient_principal_components with a bad order", lambda: struc.orient_principal_components(np.eye(3, dtype=np.float32), [0, 1, 1]))):
            try:
                call()
            except ValueError as e:
                ctx.exc(e)
            else:
                ctx.fail("bad_argument_rejected", "%s was accepted" % what)


# ====================================================================== boxes
def gen_box(rng, ctx, dtype=None, kind=None):
    """Returns (box as ndarray of dtype, info)."""
    if dtype is None:
        dtype = np.float32 if rng.random() < 0.6 else np.float64
    kinds = ["cubic", "ortho", "ortho_rot", "tri", "tri", "tri_rot", "tri_near90", "tri_tiny"]
    kind = kind or str(rng.choice(kinds))
    L = 10.0 ** rng.uniform(0, 3)
    if kind == "tri_tiny":
        L = 10.0 ** rng.uniform(-3.5, -0.5)
    lens = L * (np.ones(3) if kind == "cubic" else 10.0 ** rng.uniform(-0.4, 0.4, size=3))
    if kind in ("cubic", "ortho", "ortho_rot"):
        box = np.diag(lens)
        if rng.random() < 0.3:
            box = box[rng.permutation(3)]
        angles = np.full(3, np.pi / 2)
    else:
        while True:
            if kind == "tri_near90":
                angles = np.deg2rad(90.0 + rng.choice([-1.0, 1.0], size=3) * 10.0 ** rng.uniform(-4, 0, size=3))
            else:
                angles = np.deg2rad(rng.uniform(40, 140, size=3))
            if G.unitcell_volume_factor(*angles) > 0.05:
                break
        box = G.unitcell_vectors(*lens, *angles)
        if rng.random() < 0.3:
            box = box * rng.choice([-1.0, 1.0], size=(3, 1))      # left-handed / negative vectors are still a lattice basis
    if kind in ("ortho_rot", "tri_rot") or (kind in ("tri_near90", "tri_tiny") and rng.random() < 0.5):
        box = box @ G.quat_rotation(rng).T
    box = box.astype(dtype)
    return box, {"kind": kind, "orth": kind in ("cubic", "ortho", "ortho_rot")}


def gen_box_points(rng, box, shape, far=False):
    """float32 points: uniform fractions plus integer cell offsets (exact lattice shifts in float64, then rounded)."""
    b = np.asarray(box, np.float64)
    frac = rng.uniform(0, 1, size=shape)
    if rng.random() < 0.15:
        frac = np.round(frac * 2) / 2          # faces, edges, cell centres: ties of the minimum image
    span = 50 if far else 3
    frac = frac + rng.integers(-span, span + 1, size=shape)
    return (frac @ b).astype(np.float32)


def prime_box_object(rng, ctx, box, pts):
    """The caller's box array has held other values before: the same ndarray object was used for calls, then edited in
    place (a simulation box that is rescaled every step).  The judged calls must depend on its current content only."""
    if rng.random() >= 0.3 or not isinstance(box, np.ndarray) or not box.flags.writeable:
        return
    saved = box.copy()
    box *= box.dtype.type(1.37)
    box[..., 0, :] *= box.dtype.type(0.5)
    with np.errstate(all="ignore"):
        for fn in (lambda: struc.coord_to_fraction(pts, box), lambda: struc.move_inside_box(pts, box),
                   lambda: struc.displacement(pts, pts, box), lambda: struc.is_orthogonal(box)):
            try:
                fn()
            except Exception:
                pass
    box[...] = saved
    ctx.op("box_object_edited_in_place_between_calls")


def per_model(fn, diff, box):
    """Apply fn(diff_i, box_i) for per-model boxes (m,3,3) or one box."""
    box = np.asarray(box)
    if box.ndim == 2:
        return fn(diff, box)
    outs = [fn(diff[i], box[i]) for i in range(len(box))]
    if isinstance(outs[0], tuple):
        return tuple(np.stack([o[j] for o in outs]) for j in range(len(outs[0])))
    return np.stack(outs)


def model_tol(box, M, eps):
    box = np.asarray(box)
    if box.ndim == 2:
        return G.pbc_tol(box, M, eps)
    return np.array([G.pbc_tol(b, M, eps) for b in box])[:, None]


def judge_pbc_disp(ctx, disp, plain, box, orth, M, eps, what):
    """disp: biotite's periodic displacement; plain: b - a (float64); returns (best vectors, unique mask, tol)."""
    disp = np.asarray(disp, np.float64)
    tol = model_tol(box, M, eps)
    tolb = np.broadcast_to(tol, disp.shape[:-1]) if np.ndim(tol) else tol
    _, res = per_model(G.lattice_residual, disp - plain, box)
    within(ctx, "pbc_lattice", res, tolb, "%s - (b - a) is not a lattice vector" % what)
    best, l1, l2 = per_model(G.min_image, plain, box)
    got_len = np.sqrt((disp * disp).sum(-1))
    b3 = np.asarray(box, np.float64)
    hmin = G.heights(b3).min() if b3.ndim == 2 else np.array([G.heights(b).min() for b in b3])[:, None]
    orthb = np.broadcast_to(np.asarray(orth)[..., None] if np.ndim(orth) else orth, got_len.shape)
    inside = l1 < 0.5 * hmin - tolb
    jo = orthb
    jt = ~orthb & inside
    if jo.any():
        within(ctx, "pbc_shortest_orthorhombic", np.maximum(got_len - l1, 0)[jo], np.broadcast_to(tolb, got_len.shape)[jo],
               "%s is longer than the shortest image (orthorhombic box)" % what)
    if jt.any():
        within(ctx, "pbc_shortest_triclinic", np.maximum(got_len - l1, 0)[jt], np.broadcast_to(tolb, got_len.shape)[jt],
               "%s is longer than the unique shortest image (triclinic box, |d| < h_min/2)" % what)
    nj = int((~orthb & ~inside).sum())
    if nj:
        ctx.note("triclinic_beyond_half_height_not_judged", nj)
        longer = (~orthb & ~inside) & (got_len > l1 + tolb)
        if longer.any():
            ctx.note("triclinic_not_shortest_beyond_half_height", int(longer.sum()))
    unique = (l2 - l1 > 4 * tolb) & (jo | jt)
    return best, unique, tolb


def case_pbc(rng, ctx):
    m, n = gen_dims(rng)
    kinds = gen_shape_kinds(rng, 4)
    per = m > 1 and rng.random() < 0.3
    if per:
        # shape (m,3,3) is documented only for multi-model coordinates: every bond vector must carry the model axis
        kinds = [str(rng.choice(["s", "s", "sm1"])) for _ in range(4)]
    shapes = [shape_of(k, m, n) for k in kinds]
    dtype = np.float32 if rng.random() < 0.6 else np.float64
    if per:
        bl = [gen_box(rng, ctx, dtype) for _ in range(m)]
        box = np.stack([b for b, _ in bl])
        orth = np.array([i["orth"] for _, i in bl])
        bkinds = [i["kind"] for _, i in bl]
        pbox = box[0]
    else:
        box, info = gen_box(rng, ctx, dtype)
        orth, bkinds, pbox = info["orth"], [info["kind"]], box
    far = rng.random() < 0.1
    pts = [gen_box_points(rng, pbox, s, far) for s in shapes]
    if rng.random() < 0.4:        # a compact cluster somewhere: short bonds across faces
        c = gen_box_points(rng, pbox, (3,))
        pts = [(c + (rng.normal(size=s) * 0.05 * G.box_scale(pbox))).astype(np.float32) for s in shapes]
    form = str(rng.choice(["nd32", "nd64", "atoms"]))
    ctx.log("pbc", bkinds, str(dtype.__name__), np.asarray(box, np.float64).tolist(), kinds, form,
            [p.tolist() for p in pts[:2]] if pts[0].size + pts[1].size <= 90 else "seeded")
    for bk in bkinds:
        ctx.op("box_" + bk)
    ctx.op("box_per_model" if per else "box_single")
    a, b, c, d = pts
    A, B, C, D = (wrap_form(form, p) for p in pts)
    prime_box_object(rng, ctx, box, a)
    eps = E32
    M2 = absmax(a) + absmax(b)
    # ---- displacement / distance
    with np.errstate(all="ignore"):
        disp = struc.displacement(A, B, box)
        dist = struc.distance(A, B, box)
    plain = b.astype(np.float64) - a.astype(np.float64)
    expect_shape(ctx, disp, plain.shape, "displacement")
    expect_shape(ctx, dist, plain.shape[:-1], "distance")
    best, unique, tol = judge_pbc_disp(ctx, disp, plain, box, orth, M2, eps, "displacement")
    within(ctx, "pbc_distance_consistent", np.asarray(dist, np.float64) - np.sqrt((np.asarray(disp, np.float64) ** 2).sum(-1)),
           tol, "distance(box) differs from |displacement(box)|")
    ctx.mark_nontrivial()
    ctx.state([sorted(set(bkinds)), per, sorted(set(kinds[:2])), form, str(dtype.__name__)])
    # ---- angle / dihedral with a box
    if rng.random() < 0.5:
        M4 = absmax(a, b, c, d) * 2
        a64, b64, c64, d64 = (p.astype(np.float64) for p in pts)
        full4 = np.broadcast_shapes(a.shape, b.shape, c.shape, d.shape)
        full3 = np.broadcast_shapes(a.shape, b.shape, c.shape)
        with np.errstate(all="ignore"):
            ang = struc.angle(A, B, C, box)
            dih = struc.dihedral(A, B, C, D, box)
        ctx.op("pbc_angle_dihedral")

        def mi(p, q, full):
            diff = np.broadcast_to(q - p, full)
            v, l1, l2 = per_model(G.min_image, diff, box)
            t = np.broadcast_to(model_tol(box, M4, eps), l1.shape) if per else G.pbc_tol(box, M4, eps)
            b3 = np.asarray(box, np.float64)
            hmin = G.heights(b3).min() if b3.ndim == 2 else np.array([G.heights(x).min() for x in b3])[:, None]
            ok = (l2 - l1 > 4 * t) & (np.broadcast_to(np.asarray(orth)[..., None] if np.ndim(orth) else orth, l1.shape) | (l1 < 0.5 * hmin - t))
            return v, ok, t
        v_ba, ok1, t = mi(b64, a64, full3)
        v_bc3, ok2, _ = mi(b64, c64, full3)
        v_ab, ok3, _ = mi(a64, b64, full4)
        v_bc, ok2b, _ = mi(b64, c64, full4)
        v_cd, ok4, _ = mi(c64, d64, full4)
        tt = float(np.max(t))
        cref, l1, l2 = G.cos_angle_vec(v_ba, v_bc3)
        okang = ok1 & ok2
        expect_shape(ctx, ang, full3[:-1], "angle(box)")
        if okang.any():
            cr = np.where(okang, cref, np.nan)
            judge_angle(ctx, "pbc_angle", ang, cr, l1, l2, extra_abs=tt, what="angle with box")
        dref, s1, s2, lmin = G.dihedral_vec(v_ab, v_bc, v_cd)
        okd = ok3 & ok2b & ok4
        expect_shape(ctx, dih, full4[:-1], "dihedral(box)")
        if okd.any():
            judge_dihedral(ctx, "pbc_dihedral", dih, np.where(okd, dref, np.nan), s1, s2, lmin, extra_abs=tt, what="dihedral with box")
        nund = int((~okang).sum() + (~okd).sum())
        if nund:
            ctx.note("undecided_pbc_angle_image_not_unique", nund)
    # ---- index forms with periodic=True
    if rng.random() < 0.5:
        nn = int(rng.integers(2, 9))
        use_stack = per or rng.random() < 0.3
        X = gen_box_points(rng, pbox, (m, nn, 3) if use_stack else (nn, 3), far)
        ibox = box
        how = str(rng.choice(["box_arg", "atoms_box", "atoms_box_override"]))
        if use_stack and not per and how != "box_arg":
            ibox = np.stack([box] * m)            # a stack stores one box per model
        if how == "box_arg":
            Xf, kw = wrap_form(str(rng.choice(["nd32", "nd64"])), X), {"box": ibox}
            rbox = ibox
        else:
            Xf = wrap_form("atoms", X)
            if how == "atoms_box":
                Xf.box = ibox
                kw, rbox = {}, np.asarray(ibox).astype(np.float32)
            else:
                other, _ = gen_box(rng, ctx, np.float32, kind="cubic")
                Xf.box = np.stack([other] * m) if use_stack else other
                kw, rbox = {"box": ibox}, ibox
        idx = rng.integers(0, nn, size=(int(rng.integers(1, 6)), 2))
        ctx.op("index_periodic_" + how)
        ctx.log("index_displacement periodic", how, X.tolist() if X.size <= 60 else list(X.shape), idx.tolist())
        with np.errstate(all="ignore"):
            idisp = struc.index_displacement(Xf, idx, periodic=True, **kw)
            idist = struc.index_distance(Xf, idx, periodic=True, **kw)
            same = struc.displacement(X[..., idx[:, 0], :], X[..., idx[:, 1], :], rbox)
            # periodic=False must ignore every box: the one of the atoms and one passed explicitly
            plain_i = struc.index_distance(Xf, idx, periodic=False, **kw) if ctx.index % 2 else struc.index_distance(Xf, idx)
        ctx.oracle("index_equals_coordinate_form")
        if np.shape(idisp) != np.shape(same) or not np.array_equal(idisp, same, equal_nan=True):
            ctx.fail("index_equals_coordinate_form", "index_displacement(periodic=True) differs from displacement(.., box)")
        x64 = X.astype(np.float64)
        pl = x64[..., idx[:, 1], :] - x64[..., idx[:, 0], :]
        o = orth if (np.ndim(orth) or not use_stack) else orth
        _, _, t2 = judge_pbc_disp(ctx, idisp, pl, rbox, o, 2 * absmax(X), eps, "index_displacement")
        within(ctx, "pbc_distance_consistent", np.asarray(idist, np.float64) - np.sqrt((np.asarray(idisp, np.float64) ** 2).sum(-1)),
               t2, "index_distance(periodic) differs from |index_displacement|")
        judge_distance(ctx, "distance_textbook", plain_i, np.sqrt((pl * pl).sum(-1)), what="index_distance(periodic=False) on atoms with a box")


# ====================================================================== stratum: helpers
def unitcell_small_component(lens, angles):
    """True when vectors_from_unitcell's clean-up (|component| < 1e-4 (a+b+c) -> 0) would hit a component
    that is not a rounding artefact of an exact zero."""
    ref = G.unitcell_vectors(*lens, *angles)
    tol = 1e-4 * float(np.sum(lens))
    genuine = np.abs(ref) > 64 * G.EPS64 * float(np.max(lens))
    return bool(((np.abs(ref) < 1.05 * tol) & genuine).any())


def case_helpers(rng, ctx):
    sub = str(rng.choice(["move_inside", "move_inside", "fraction", "unitcell", "unitcell_reverse", "is_orthogonal", "repeat"]))
    ctx.op("helpers_" + sub)
    if sub in ("move_inside", "fraction"):
        m, n = gen_dims(rng)
        stack = rng.random() < 0.4
        cdt = np.float32 if rng.random() < 0.6 else np.float64
        bdt = np.float32 if rng.random() < 0.6 else np.float64
        if stack:
            bl = [gen_box(rng, ctx, bdt) for _ in range(m)]
            box = np.stack([b for b, _ in bl])
            bk = [i["kind"] for _, i in bl]
        else:
            box, info = gen_box(rng, ctx, bdt)
            bk = [info["kind"]]
        far = rng.random() < 0.15
        x = gen_box_points(rng, box[0] if stack else box, (m, n, 3) if stack else (n, 3), far).astype(cdt)
        if cdt is np.float64:
            x = x + rng.normal(size=x.shape) * 1e-9 * absmax(x)       # genuinely float64 values
        eps = G.eps_for(x, box)
        x64, M = x.astype(np.float64), absmax(x)
        tol = model_tol(box, M, eps)
        ctx.log(sub, bk, cdt.__name__, bdt.__name__, np.asarray(box, np.float64).tolist(), x64.tolist() if x.size <= 60 else list(x.shape))
        for k in bk:
            ctx.op("box_" + k)
        prime_box_object(rng, ctx, box, x)
        b64 = np.asarray(box, np.float64)
        inv = np.linalg.inv(b64)
        if sub == "move_inside":
            with np.errstate(all="ignore"):
                y = struc.move_inside_box(x, box)
            expect_shape(ctx, y, x.shape, "move_inside_box")
            y64 = np.asarray(y, np.float64)
            _, res = per_model(G.lattice_residual, y64 - x64, box)
            tb = np.broadcast_to(tol, res.shape)
            within(ctx, "move_inside_lattice", res, tb, "move_inside_box shifts by a non-lattice vector")
            fr = y64 @ inv
            hm = (G.heights(b64) if b64.ndim == 2 else np.stack([G.heights(b) for b in b64])[:, None, :])
            tf = tb[..., None] / hm
            within(ctx, "move_inside_inside", np.maximum(np.maximum(-fr, fr - 1), 0), tf, "move_inside_box result is outside the box (fractions)")
            if not np.array_equal(np.asarray(x, np.float64), x64):
                ctx.fail("input_not_mutated", "move_inside_box changed its input")
        else:
            with np.errstate(all="ignore"):
                f = struc.coord_to_fraction(x, box)
                back = struc.fraction_to_coord(f, box)
            expect_shape(ctx, f, x.shape, "coord_to_fraction")
            f64_ = np.asarray(f, np.float64)
            hm = (G.heights(b64) if b64.ndim == 2 else np.stack([G.heights(b) for b in b64])[:, None, :])
            tb = np.broadcast_to(tol, x.shape[:-1])
            within(ctx, "fraction_textbook", f64_ - x64 @ inv, tb[..., None] / hm, "coord_to_fraction vs x @ inv(box)")
            within(ctx, "fraction_roundtrip", np.sqrt(((np.asarray(back, np.float64) - x64) ** 2).sum(-1)), tb,
                   "fraction_to_coord(coord_to_fraction(x)) != x")
            g = rng.uniform(-3, 3, size=x.shape).astype(cdt)
            with np.errstate(all="ignore"):
                c2 = struc.fraction_to_coord(g, box)
                g2 = struc.coord_to_fraction(c2, box)
            Mg = absmax(c2)
            tg = np.broadcast_to(model_tol(box, Mg, eps), x.shape[:-1])
            within(ctx, "fraction_textbook", np.sqrt(((np.asarray(c2, np.float64) - g.astype(np.float64) @ b64) ** 2).sum(-1)), tg,
                   "fraction_to_coord vs f @ box")
            within(ctx, "fraction_roundtrip", np.asarray(g2, np.float64) - g.astype(np.float64), tg[..., None] / hm,
                   "coord_to_fraction(fraction_to_coord(f)) != f")
        ctx.mark_nontrivial()
        ctx.state([sub, sorted(set(bk)), stack, cdt.__name__, bdt.__name__])
        return
    if sub in ("unitcell", "unitcell_reverse"):
        allowed_small = ctx.allowed("unitcell_component_below_cleanup_tolerance")
        for _ in range(200):
            L = 10.0 ** rng.uniform(-1, 3)
            lens = L * 10.0 ** rng.uniform(-0.7, 0.7, size=3)
            r = rng.random()
            if r < 0.2:
                angles = np.full(3, np.pi / 2)
                if rng.random() < 0.5:
                    angles[int(rng.integers(3))] = np.deg2rad(rng.uniform(50, 130))      # monoclinic
            elif r < 0.3:
                angles = np.array([np.pi / 2, np.pi / 2, 2 * np.pi / 3])                  # hexagonal
                lens[1] = lens[0]
            elif r < 0.45:
                angles = np.deg2rad(90.0 + rng.choice([-1.0, 1.0], size=3) * 10.0 ** rng.uniform(-3, 0.5, size=3))
            else:
                angles = np.deg2rad(rng.uniform(40, 140, size=3))
            if G.unitcell_volume_factor(*angles) > 0.03 and (allowed_small or not unitcell_small_component(lens, angles)):
                break
        else:
            ctx.inconclusive("no admissible unit cell generated")
        if rng.random() < 0.3:
            lens, angles = lens.astype(np.float32), angles.astype(np.float32)
        ref = G.unitcell_vectors(*(float(v) for v in lens), *(float(v) for v in angles))
        Lm = float(np.max(lens))
        if sub == "unitcell":
            ctx.log(sub, [float(v) for v in lens], [float(v) for v in angles])
            with np.errstate(all="ignore"):
                box = struc.vectors_from_unitcell(*lens, *angles)
                cell = struc.unitcell_from_vectors(box)
            expect_shape(ctx, box, (3, 3), "vectors_from_unitcell")
            b64 = np.asarray(box, np.float64)
            within(ctx, "unitcell_textbook", b64 - ref, 16 * E32 * Lm, "vectors_from_unitcell vs textbook formula")
            got_l = np.array([float(v) for v in cell[:3]])
            got_a = np.array([float(v) for v in cell[3:]])
            within(ctx, "unitcell_roundtrip", got_l - np.asarray(lens, np.float64), 16 * E32 * Lm * 1.0,
                   "unitcell_from_vectors(vectors_from_unitcell(cell)): lengths")
            within(ctx, "unitcell_roundtrip", np.cos(got_a) - np.cos(np.asarray(angles, np.float64)), 64 * E32,
                   "unitcell_from_vectors(vectors_from_unitcell(cell)): cos(angles)")
            if np.allclose(np.asarray(angles, np.float64), np.pi / 2, atol=1e-6):
                ctx.oracle("orthorhombic_cell_is_orthogonal")
                if not struc.is_orthogonal(box):
                    ctx.fail("orthorhombic_cell_is_orthogonal", "box built from 90 degree angles is not is_orthogonal()")
        else:
            bdt = np.float32 if rng.random() < 0.6 else np.float64
            box = (ref @ G.quat_rotation(rng).T).astype(bdt) if rng.random() < 0.7 else ref.astype(bdt)
            ctx.log(sub, bdt.__name__, np.asarray(box, np.float64).tolist())
            with np.errstate(all="ignore"):
                cell = struc.unitcell_from_vectors(box)
                back = struc.vectors_from_unitcell(*cell)
            b64 = np.asarray(box, np.float64)
            rl = np.sqrt((b64 * b64).sum(-1))
            got_l = np.array([float(v) for v in cell[:3]])
            got_a = np.array([float(v) for v in cell[3:]])
            e = E32
            within(ctx, "unitcell_textbook", got_l - rl, 8 * e * Lm, "unitcell_from_vectors lengths")
            cosr = np.array([b64[1] @ b64[2] / rl[1] / rl[2], b64[0] @ b64[2] / rl[0] / rl[2], b64[0] @ b64[1] / rl[0] / rl[1]])
            within(ctx, "unitcell_textbook", np.cos(got_a) - cosr, 32 * e, "unitcell_from_vectors cos(angles)")
            k64 = np.asarray(back, np.float64)
            within(ctx, "unitcell_roundtrip", k64 @ k64.T - b64 @ b64.T, 64 * E32 * Lm * Lm,
                   "vectors_from_unitcell(unitcell_from_vectors(box)) spans a different cell (Gram matrix)")
        ctx.mark_nontrivial()
        ctx.state([sub, bool(np.allclose(np.asarray(angles, np.float64), np.pi / 2))])
        return
    if sub == "is_orthogonal":
        stack = rng.random() < 0.3
        bl = [gen_box(rng, ctx) for _ in range(int(rng.integers(2, 5)) if stack else 1)]
        bdt = bl[0][0].dtype
        box = np.stack([b.astype(bdt) for b, _ in bl]) if stack else bl[0][0]
        ctx.log(sub, [i["kind"] for _, i in bl], np.asarray(box, np.float64).tolist())
        got = struc.is_orthogonal(box)
        expect_shape(ctx, got, (len(bl),) if stack else (), "is_orthogonal")
        b64 = np.asarray(box, np.float64).reshape(-1, 3, 3)
        g = np.atleast_1d(np.asarray(got))
        for i, b in enumerate(b64):
            dots = np.abs(np.array([b[0] @ b[1], b[0] @ b[2], b[1] @ b[2]]))
            band = 8 * G.eps_for(box) * float((b * b).sum(-1).max())
            ctx.oracle("is_orthogonal_definition")
            if (dots < 1e-6 - band).all():
                if not g[i]:
                    ctx.fail("is_orthogonal_definition", "all dot products %r are below 1e-6 but is_orthogonal is False" % dots.tolist())
            elif (dots > 1e-6 + band).any():
                if g[i]:
                    ctx.fail("is_orthogonal_definition", "a dot product %r exceeds 1e-6 but is_orthogonal is True" % dots.tolist())
            else:
                ctx.note("undecided_is_orthogonal_band")
        ctx.mark_nontrivial()
        return
    # repeat_box / repeat_box_coord: observed only
    box, info = gen_box(rng, ctx, np.float32)
    n = int(rng.integers(1, 5))
    x = gen_box_points(rng, box, (n, 3))
    amount = int(rng.integers(1, 3))
    ctx.log(sub, info["kind"], box.tolist(), x.tolist(), amount)
    rep, idx = struc.repeat_box_coord(x, box, amount)
    k = (2 * amount + 1) ** 3
    # every returned coordinate is a lattice image of the atom its index entry names (the count of images is only observed)
    idx_a = np.asarray(idx)
    if idx_a.ndim != 1 or len(idx_a) != rep.shape[-2] or idx_a.dtype.kind not in "iu" or (len(idx_a) and (idx_a.min() < 0 or idx_a.max() >= n)):
        ctx.fail("repeat_index_names_original", "repeat_box_coord(amount=%d): %d coordinates but index array %r of length %d over %d atoms"
                 % (amount, rep.shape[-2], idx_a.dtype.str, len(idx_a), n))
        return
    _, res_i = G.lattice_residual(np.asarray(rep, np.float64) - x.astype(np.float64)[idx_a], box)
    if (res_i > G.pbc_tol(box, absmax(rep), E32)).any():
        ctx.fail("repeat_index_names_original", "repeat_box_coord(amount=%d): a returned coordinate is no lattice image of the atom its index names (residual %.3g)"
                 % (amount, float(res_i.max())))
        return
    ctx.oracle("repeat_index_names_original")
    if rep.shape != (k * n, 3) or not np.array_equal(idx, np.tile(np.arange(n), k)):
        ctx.note("repeat_box_coord_unexpected_shape")
    else:
        d = np.asarray(rep, np.float64).reshape(k, n, 3) - x.astype(np.float64)
        nvec, res = G.lattice_residual(d, box)
        if (res > G.pbc_tol(box, absmax(rep), E32)).any() or len({tuple(v) for v in nvec[:, 0].tolist()}) != k:
            ctx.note("repeat_box_coord_not_all_lattice_images")
        else:
            ctx.note("repeat_box_coord_lattice_images_ok")
    atoms = wrap_form("atoms", x)
    atoms.box = box
    rep2, _ = struc.repeat_box(atoms, amount)
    if rep2.array_length() != k * n:
        ctx.note("repeat_box_ignores_amount")
    ctx.oracle("repeat_observed")
    # repeat_box is one of the anchored box helpers: whatever the number of images, every atom of the result must be
    # the corresponding atom of the same model shifted by a lattice vector of that model's box (arrays and stacks)
    m = int(rng.integers(1, 4))
    boxes = [gen_box(rng, ctx, np.float32)[0] for _ in range(m)]
    xs = [gen_box_points(rng, b, (n, 3)) for b in boxes]
    if m == 1 and rng.random() < 0.5:
        obj = struc.AtomArray(n)
        obj.coord = xs[0]
        obj.box = boxes[0]
    else:
        obj = struc.AtomArrayStack(m, n)
        obj.coord = np.stack(xs)
        obj.box = np.stack(boxes)
    obj.set_annotation("uid", np.arange(n))
    ctx.log("repeat_box", type(obj).__name__, m, [b.tolist() for b in boxes], [x.tolist() for x in xs])
    ctx.op("repeat_box_%s_depth%d" % (type(obj).__name__, m))
    rep3, idx3 = struc.repeat_box(obj)
    ctx.oracle("repeat_box_lattice_images")
    uid = rep3.get_annotation("uid")
    if rep3.array_length() % n != 0 or not np.array_equal(uid, np.tile(np.arange(n), rep3.array_length() // n)) \
            or not np.array_equal(np.asarray(idx3), uid):
        ctx.fail("repeat_box_lattice_images", "repeat_box: annotations / index array are not the tiled originals")
    rc = rep3.coord if rep3.coord.ndim == 3 else rep3.coord[None]
    for mi in range(m):
        d = np.asarray(rc[mi], np.float64) - np.asarray(xs[mi], np.float64)[uid]
        nvec, res = G.lattice_residual(d, boxes[mi])
        tol = G.pbc_tol(boxes[mi], absmax(rc[mi]), E32)
        if (res > tol).any():
            ctx.fail("repeat_box_lattice_images", "repeat_box: model %d of %d: an atom is not a lattice image of its original "
                     "(residual %.4g > %.4g)" % (mi, m, float(res.max()), float(np.max(tol))))
    ctx.mark_nontrivial()


# ====================================================================== stratum: remove_pbc
def gen_molecule(rng, natoms):
    """Random tree (optionally closed to rings) with unit-ish bond lengths; returns (coords float64, bonds list)."""
    ring = rng.random() < 0.35 and natoms >= 3
    bonds = []
    xyz = np.zeros((natoms, 3))
    if ring:
        r = int(rng.integers(3, natoms + 1))
        ang = 2 * np.pi * np.arange(r) / r
        rad = 0.75 / np.sin(np.pi / r)
        xyz[:r] = np.stack([rad * np.cos(ang), rad * np.sin(ang), np.zeros(r)], axis=1) @ G.quat_rotation(rng).T
        bonds += [(i, (i + 1) % r) for i in range(r)]
        start = r
    else:
        start = 1
    for i in range(start, natoms):
        p = int(rng.integers(0, i)) if rng.random() < 0.6 else i - 1
        v = rng.normal(size=3)
        xyz[i] = xyz[p] + 1.5 * v / np.sqrt((v * v).sum())
        bonds.append((p, i))
    return xyz, bonds


def case_remove_pbc(rng, ctx):
    stack = rng.random() < 0.3
    m = int(rng.integers(1, 4)) if stack else 1
    bdt = np.float32
    boxes, infos = zip(*[gen_box(rng, ctx, bdt) for _ in range(m)])
    hmin = min(float(G.heights(b).min()) for b in boxes)
    nmol = int(rng.integers(1, 5))
    mols, bonds, owner = [], [], []
    long_chain = False
    off = 0
    for k in range(nmol):
        na = int(rng.choice([1, 2, 3, 5, 8, 13, 20, 30], p=[.05, .15, .15, .2, .15, .1, .1, .1]))
        xyz, bl = gen_molecule(rng, na)
        if na > 1:
            diam = pair_dists(xyz).max()
            xyz = xyz * (rng.uniform(0.05, 0.45) * hmin / diam)
        if na >= 8 and rng.random() < 0.25:
            # an extended chain: consecutive atoms are bonded and close, the whole molecule reaches further than half the
            # smallest box height from its first atom (stored in chain order; such a molecule is not compact)
            long_chain = True
            step = rng.uniform(0.04, 0.09) * hmin
            t = np.arange(na)
            xyz = np.stack([t * step, 0.3 * step * (t % 2), 0.2 * step * ((t // 2) % 2)], axis=1)
            bl = [(i, i + 1) for i in range(na - 1)]
        mols.append(xyz)
        bonds += [(i + off, j + off) for i, j in bl]
        owner += [k] * na
        off += na
    N = off
    owner = np.array(owner)
    perm = rng.permutation(N) if rng.random() < 0.6 else np.arange(N)     # interleave molecules
    if long_chain:
        perm = np.arange(N)
        ctx.op("remove_pbc_extended_chain")
    inv = np.argsort(perm)
    owner_p = owner[perm]
    bonds_p = [(int(inv[i]), int(inv[j])) for i, j in bonds]
    orig = np.zeros((m, N, 3))
    wrapped = np.zeros((m, N, 3), dtype=np.float32)
    wrap_mode = str(rng.choice(["per_atom_lattice", "into_box", "none"], p=[.6, .3, .1]))
    for mi in range(m):
        b64 = boxes[mi].astype(np.float64)
        parts = []
        for xyz in mols:
            pos = rng.uniform(-0.5, 1.5, size=3) @ b64
            parts.append(xyz @ G.quat_rotation(rng).T + pos)
        o = np.concatenate(parts)[perm]
        orig[mi] = o
        if wrap_mode == "per_atom_lattice":
            shift = rng.integers(-2, 3, size=(N, 3)).astype(np.float64) @ b64
        elif wrap_mode == "into_box":
            shift = -np.floor(o @ np.linalg.inv(b64)) @ b64
        else:
            shift = np.zeros((N, 3))
        wrapped[mi] = (o + shift).astype(np.float32)
    box = np.stack(boxes) if stack else boxes[0]
    W = wrapped if stack else wrapped[0]
    w64 = wrapped.astype(np.float64)
    M = absmax(wrapped) + absmax(orig)
    tols = [G.pbc_tol(b, M, E32) for b in boxes]
    ctx.log("remove_pbc", [i["kind"] for i in infos], np.asarray(box, np.float64).tolist(), wrap_mode, stack,
            bonds_p, owner_p.tolist(), W.tolist() if W.size <= 150 else list(W.shape))
    for i in infos:
        ctx.op("box_" + i["kind"])
    ctx.op("wrap_" + wrap_mode)

    def judge(res, sel_atoms, tag, chunked):
        """res: (m,N,3) float64 result; sel_atoms: bool (N,) atoms that were to be reassembled."""
        for mi in range(m):
            tol = tols[mi] * (1 + N / 4.0)    # cumulative sum over up to N displacements
            b = boxes[mi]
            nvec, resid = G.lattice_residual(res[mi] - w64[mi], b)
            within(ctx, "unwrap_lattice", resid[sel_atoms], tol, "%s moved an atom by a non-lattice vector" % tag)
            ctx.oracle("unwrap_unselected_unchanged")
            if not np.array_equal(res[mi][~sel_atoms], w64[mi][~sel_atoms]):
                ctx.fail("unwrap_unselected_unchanged", "%s changed atoms outside the selection" % tag)
            for (i, j) in bonds_p:
                if sel_atoms[i] and sel_atoms[j]:
                    _, l1, _ = G.min_image(w64[mi][j] - w64[mi][i], b)
                    dij = np.sqrt(((res[mi][j] - res[mi][i]) ** 2).sum())
                    within(ctx, "unwrap_bonded_min_image", max(dij - float(l1), 0.0), 2 * tol,
                           "%s leaves bonded atoms %d-%d farther apart than their minimum-image distance" % (tag, i, j))
            for k in chunked:
                sel = (owner_p == k) & sel_atoms
                if sel.sum() >= 2:
                    # the functions walk along adjacent array positions of the atoms they are given: the original geometry
                    # is only determined when each such step is a unique minimum image (always true for the compact
                    # molecules; an extended chain of which a selection drops several consecutive atoms is not)
                    steps = np.sqrt((np.diff(orig[mi][sel], axis=0) ** 2).sum(-1))
                    if steps.max() >= 0.49 * float(G.heights(b).min()):
                        ctx.note("selection_gap_beyond_half_box_not_judged")
                        continue
                    within(ctx, "unwrap_restores_geometry", pair_dists(res[mi][sel]) - pair_dists(orig[mi][sel]), 2 * tol,
                           "%s does not reassemble molecule %d" % (tag, k))
                if sel.any():
                    c = res[mi][sel].mean(axis=0) @ np.linalg.inv(b.astype(np.float64))
                    if tag == "remove_pbc" and ((c < -1e-3) | (c > 1 + 1e-3)).any():
                        ctx.note("remove_pbc_centroid_outside_box")

    # ---- remove_pbc_from_coord on one molecule (array order = adjacency used by the function)
    k = int(rng.integers(nmol))
    sel = owner_p == k
    ctx.op("remove_pbc_from_coord")
    with np.errstate(all="ignore"):
        r = struc.remove_pbc_from_coord(W[..., sel, :], box)
    expect_shape(ctx, r, W[..., sel, :].shape, "remove_pbc_from_coord")
    full = w64.copy()
    full[:, sel, :] = np.asarray(r, np.float64).reshape(m, -1, 3)
    judge(full, sel, "remove_pbc_from_coord", [k])
    # documented inverse: wrapping the result again gives the wrapped input modulo lattice vectors
    with np.errstate(all="ignore"):
        again = struc.move_inside_box(np.asarray(r), box)
        direct = struc.move_inside_box(W[..., sel, :], box)
    dd = (np.asarray(again, np.float64) - np.asarray(direct, np.float64)).reshape(m, -1, 3)
    for mi in range(m):
        _, resid = G.lattice_residual(dd[mi], boxes[mi])
        within(ctx, "unwrap_inverse_of_wrap", resid, tols[mi] * (2 + N), "move_inside_box(remove_pbc_from_coord(x)) != move_inside_box(x) modulo lattice")
    # ---- remove_pbc on atoms
    mode = str(rng.choice(["bonds", "bonds", "bonds_selection", "chains"]))
    ctx.op("remove_pbc_" + mode)
    atoms = struc.AtomArrayStack(m, N) if stack else struc.AtomArray(N)
    atoms.coord = W.copy()
    atoms.box = box
    sel_atoms = np.ones(N, dtype=bool)
    selection = None
    chain_perm = None
    if mode == "chains":
        # without bonds the function works chain-wise: give each molecule its own chain, contiguous
        order = np.argsort(owner_p, kind="stable")
        chain_perm = order
        atoms = atoms[..., order]
        atoms.chain_id = np.array(["C%d" % c for c in owner_p[order]])
        atoms.res_id = np.arange(N)
    else:
        atoms.bonds = struc.BondList(N, np.array([(i, j, 1) for i, j in bonds_p], dtype=np.int64).reshape(-1, 3))
        if mode == "bonds_selection":
            selection = rng.random(N) < 0.7
            sel_atoms = selection.copy()
    before = atoms.coord.copy()
    with np.errstate(all="ignore"):
        out = struc.remove_pbc(atoms) if selection is None else struc.remove_pbc(atoms, selection)
    ctx.oracle("input_not_mutated")
    if not np.array_equal(atoms.coord, before):
        ctx.fail("input_not_mutated", "remove_pbc changed its input structure")
    res = np.asarray(out.coord, np.float64).reshape(m, N, 3)
    if chain_perm is not None:
        back = np.empty_like(res)
        back[:, chain_perm, :] = res
        res = back
    judge(res, sel_atoms, "remove_pbc", range(nmol))
    if rng.random() < 0.05:
        ctx.oracle("missing_box_rejected")
        nb = struc.AtomArray(2)
        nb.coord = np.zeros((2, 3), np.float32)
        try:
            struc.remove_pbc(nb)
        except BadStructureError as e:
            ctx.exc(e)
        else:
            ctx.fail("missing_box_rejected", "remove_pbc accepted a structure without box")
    ctx.mark_nontrivial(wrap_mode != "none")
    ctx.state([sorted({i["kind"] for i in infos}), wrap_mode, stack, mode, nmol])


# ====================================================================== stratum: backbone
def case_backbone(rng, ctx):
    if not CCD_OK:
        ctx.inconclusive("synthetic component dictionary fixture not available")
    nres = int(rng.integers(1, 9))
    stack = rng.random() < 0.3
    m = int(rng.integers(1, 4)) if stack else 1
    names, resid, resn, present = [], [], [], []
    for r in range(nres):
        rn = str(rng.choice(["ALA", "GLY"]))
        miss = str(rng.choice(["", "", "", "", "N", "CA", "C"])) if nres > 1 else ""
        atoms_r = [a for a in ("N", "CA", "C", "O") if a != miss]
        if rng.random() < 0.3:
            atoms_r = [atoms_r[i] for i in rng.permutation(len(atoms_r))]
        for a in atoms_r:
            names.append(a)
            resid.append(r + 1)
            resn.append(rn)
        present.append(set(atoms_r))
    N = len(names)
    (x,), scale = gen_points(rng, [(m, N, 3)])
    arr = struc.AtomArrayStack(m, N) if stack else struc.AtomArray(N)
    arr.coord = x if stack else x[0]
    arr.atom_name = np.array(names)
    arr.res_id = np.array(resid)
    arr.res_name = np.array(resn)
    arr.chain_id = np.array(["A"] * N)
    arr.element = np.array([a[0] for a in names])
    ctx.log("dihedral_backbone", names, resid, x.tolist() if x.size <= 120 else list(x.shape))
    ctx.op("dihedral_backbone")

    def ref_angles(xx):
        pos = {}
        for i, (a, r) in enumerate(zip(names, resid)):
            pos[(r, a)] = xx[:, i, :].astype(np.float64)
        nanv = np.full((m, 3), np.nan)
        P = lambda r, a: pos.get((r, a), nanv)          # noqa: E731
        out = []
        for quad in ((lambda r: (P(r - 1, "C"), P(r, "N"), P(r, "CA"), P(r, "C"))),
                     (lambda r: (P(r, "N"), P(r, "CA"), P(r, "C"), P(r + 1, "N"))),
                     (lambda r: (P(r, "CA"), P(r, "C"), P(r + 1, "N"), P(r + 1, "CA")))):
            vals = [G.dihedral(*quad(r)) for r in range(1, nres + 1)]
            out.append(tuple(np.stack([v[j] for v in vals], axis=1) for j in range(4)))
        return out

    def run(xx, tag, ref=None, extra=0.0):
        arr2 = arr.copy()
        arr2.coord = xx if stack else xx[0]
        with np.errstate(all="ignore"):
            got = struc.dihedral_backbone(arr2)
        if ref is None:
            ref = ref_angles(xx)
        for name, g, (dref, s1, s2, lmin) in zip(("phi", "psi", "omega"), got, ref):
            g = np.asarray(g, np.float64).reshape(m, nres)
            expect_shape(ctx, got[0], (m, nres) if stack else (nres,), "dihedral_backbone")
            ctx.oracle("backbone_nan_pattern")
            if not np.array_equal(np.isnan(g), np.isnan(dref)):
                ctx.fail("backbone_nan_pattern", "%s is NaN at %r, reference undefined at %r"
                         % (name, np.isnan(g).tolist(), np.isnan(dref).tolist()))
            if np.isfinite(dref).any():
                judge_dihedral(ctx, "backbone_" + tag, g, dref, s1, s2, lmin, extra_abs=extra, what=name)
        return ref

    ref = run(x, "textbook")
    R, t = G.quat_rotation(rng), rng.normal(size=3) * scale * 10.0 ** rng.uniform(-1, 2)
    moved = G.move(x, R, t).astype(np.float32)
    ctx.log("motion", ["own", R.tolist(), t.tolist()])
    run(moved, "textbook")
    run(moved, "invariant", ref=ref, extra=2 * E32 * (absmax(moved) + absmax(x)))
    ctx.mark_nontrivial(nres >= 2)
    ctx.state([nres, stack])


# ====================================================================== dispatch
_CASES = {
    "measure": case_measure, "transform": case_transform, "pbc": case_pbc,
    "helpers": case_helpers, "remove_pbc": case_remove_pbc, "backbone": case_backbone,
}


def run_case(stratum, rng, ctx):
    _CASES[stratum](rng, ctx)


# ====================================================================== oracle audit
def selftest(ctx):
    # textbook values, hand-computed
    assert abs(G.dist([0, 0, 0], [3, 4, 12]) - 13.0) < 1e-12
    c, l1, l2 = G.cos_angle([1, 0, 0], [0, 0, 0], [0, 2, 0])
    assert abs(c) < 1e-15 and l1 == 1 and l2 == 2
    c, _, _ = G.cos_angle([1, 0, 0], [0, 0, 0], [1, 1, 0])
    assert abs(c - np.sqrt(0.5)) < 1e-15
    # dihedral sign convention (IUPAC: clockwise looking along b->c is positive)
    for ang in (-2.5, -1.0, 0.0, 0.3, 1.5707963, 3.0):
        a, b, c_, d = [1, 0, 0], [0, 0, 0], [0, 0, 1], [np.cos(ang), np.sin(ang), 1]
        got = G.dihedral(a, b, c_, d)[0]
        assert abs(G.wrap_angle(got - ang)) < 1e-12, (ang, got)
    assert abs(G.dihedral([1, 0, 0], [0, 0, 0], [0, 0, 1], [0, 1, 1])[0] - np.pi / 2) < 1e-12
    # rotations are proper and orthonormal; euler order x then y then z
    rng = np.random.default_rng(15)
    for _ in range(20):
        R = G.quat_rotation(rng)
        assert np.abs(R @ R.T - np.eye(3)).max() < 1e-12 and abs(np.linalg.det(R) - 1) < 1e-12
    R = G.euler_xyz_matrix([np.pi / 2, 0, np.pi / 2])
    assert np.abs(G.move([0, 1, 0], R) - np.array([0, 0, 1])).max() < 1e-12        # y -(x)-> z -(z)-> z
    assert np.abs(G.move([1, 0, 0], R) - np.array([0, 1, 0])).max() < 1e-12        # x -(x)-> x -(z)-> y
    assert np.abs(G.move([2, 0, 0], G.axis_angle_matrix([0, 1, 1], np.pi / 2)) - np.array([0, np.sqrt(2), -np.sqrt(2)])).max() < 1e-12
    # lattice tools against a 9^3 = 729 image search on skewed boxes
    big = np.array([(i, j, k) for i in range(-4, 5) for j in range(-4, 5) for k in range(-4, 5)], dtype=float)
    for _ in range(60):
        ang = np.deg2rad(rng.uniform(40, 140, size=3))
        if G.unitcell_volume_factor(*ang) < 0.05:
            continue
        box = G.unitcell_vectors(*(10 ** rng.uniform(0, 1, size=3)), *ang) @ G.quat_rotation(rng).T
        h = G.heights(box)
        # heights: distance of box[i] from the plane spanned by the other two
        for i in range(3):
            nrm = np.cross(box[(i + 1) % 3], box[(i + 2) % 3])
            assert abs(abs(box[i] @ nrm) / np.linalg.norm(nrm) - h[i]) < 1e-9 * h[i]
        d = rng.uniform(-3, 3, size=(30, 3)) @ box
        v, l1, l2 = G.min_image(d, box)
        cand = d[:, None, :] + big @ box
        ll = np.sqrt((cand ** 2).sum(-1))
        lb = np.sort(ll, axis=1)
        inside = lb[:, 0] < 0.5 * h.min()
        assert (np.abs(l1 - lb[:, 0])[inside] < 1e-9).all()
        assert (lb[:, 1][inside] > 0.5 * h.min()).all()          # uniqueness below half the smallest height
        nvec, res = G.lattice_residual(v - d, box)
        assert (res < 1e-9).all()
        nvec, res = G.lattice_residual(np.array([1.0, -2.0, 3.0]) @ box, box)
        assert (nvec == [1, -2, 3]).all() and res < 1e-9
        assert G.lattice_residual(0.5 * box[0], box)[1] > 0.49 * h.min() * 0   # half a vector is not a lattice vector
        assert G.lattice_residual(0.5 * box[0], box)[1] > 1e-3
    # orthorhombic: the component-wise rule is the shortest image
    box = np.diag([3.0, 4.0, 5.0])
    d = rng.uniform(-20, 20, size=(200, 3))
    v, l1, _ = G.min_image(d, box)
    comp = d - np.rint(d / np.diag(box)) * np.diag(box)
    assert np.abs(l1 - np.sqrt((comp ** 2).sum(-1))).max() < 1e-9
    # unit cell formula: lengths and angles of the produced vectors
    b = G.unitcell_vectors(3, 4, 5, np.deg2rad(70), np.deg2rad(80), np.deg2rad(110))
    ln = np.sqrt((b * b).sum(-1))
    assert np.abs(ln - [3, 4, 5]).max() < 1e-12
    assert abs(b[1] @ b[2] / 20 - np.cos(np.deg2rad(70))) < 1e-12 and abs(b[0] @ b[2] / 15 - np.cos(np.deg2rad(80))) < 1e-12
    assert abs(b[0] @ b[1] / 12 - np.cos(np.deg2rad(110))) < 1e-12
    assert abs(abs(np.linalg.det(b)) - 60 * np.sqrt(G.unitcell_volume_factor(np.deg2rad(70), np.deg2rad(80), np.deg2rad(110)))) < 1e-9


# ====================================================================== probes
def _probe_collinear(ctx):
    """Angle of exactly collinear atoms: textbook value 0 or pi."""
    rng = np.random.default_rng(1501)
    for i in range(400):
        p = rng.normal(size=3) * 10.0 ** rng.uniform(-1, 2)
        dvec = rng.normal(size=3) * 10.0 ** rng.uniform(-1, 1)
        f = float(rng.choice([2.0, 3.0, -1.0, -2.5]))
        a = p.astype(np.float32)
        b = (a.astype(np.float64) + dvec).astype(np.float32)
        c = (b.astype(np.float64) + f * (b.astype(np.float64) - a.astype(np.float64))).astype(np.float32)
        cref, l1, l2 = G.cos_angle(a, b, c)
        if abs(cref) < 1 - 16 * E32:
            continue
        ctx.log("angle", a.tolist(), b.tolist(), c.tolist())
        ctx.op("probe_collinear_angle")
        with np.errstate(all="ignore"):
            got = float(struc.angle(a, b, c))
        within(ctx, "angle_textbook", np.cos(got) - cref, 16 * E32, "angle of collinear atoms (reference cos %.9f, got %r)" % (cref, got))


def _probe_align_antiparallel(ctx):
    """align_vectors with directions 150..179.9 degrees apart must still be a rigid motion."""
    rng = np.random.default_rng(1502)
    x = (rng.normal(size=(6, 3)) * 5).astype(np.float32)
    for deg in (150, 160, 170, 175, 178, 179, 179.5, 179.9):
        o = rng.normal(size=3)
        tdir = G.move(o, G.axis_angle_matrix(np.cross(o, rng.normal(size=3)), np.deg2rad(deg)))
        ctx.log("align_vectors", x.tolist(), o.tolist(), tdir.tolist(), deg)
        ctx.op("probe_align_vectors")
        try:
            y = struc.align_vectors(x, o, tdir)
        except ValueError as e:        # documented refusal for exactly opposite directions
            ctx.exc(e)
            continue
        y = np.asarray(y, np.float64)
        within(ctx, "transform_is_rigid", pair_dists(y) - pair_dists(x), 16 * E32 * (absmax(x) + absmax(y)),
               "align_vectors changes pair distances for directions %.1f degrees apart" % deg)


def _probe_unitcell_small(ctx):
    """Unit cells with a genuine component below 1e-4 (a+b+c)."""
    cells = [(10, 10, 10, 90, 90, 89.99), (10, 10, 10, 90.01, 90, 90), (100, 10, 10, 90, 90, 89.9), (1000, 1, 1, 86, 86, 86),
             (50, 60, 70, 89.995, 90.004, 90)]
    for a, b, c, al, be, ga in cells:
        ang = np.deg2rad([al, be, ga])
        ctx.log("vectors_from_unitcell", a, b, c, al, be, ga)
        ctx.op("probe_unitcell")
        with np.errstate(all="ignore"):
            box = struc.vectors_from_unitcell(a, b, c, *ang)
            cell = struc.unitcell_from_vectors(box)
        got_a = np.array([float(v) for v in cell[3:]])
        within(ctx, "unitcell_roundtrip", np.cos(got_a) - np.cos(ang), 64 * E32,
               "unitcell_from_vectors(vectors_from_unitcell(%r)): cos(angles), got angles %r deg" % ((a, b, c, al, be, ga), np.rad2deg(got_a).tolist()))


PROBES = {
    "angle_of_collinear_atoms": _probe_collinear,
    "align_vectors_near_antiparallel": _probe_align_antiparallel,
    "unitcell_component_below_cleanup_tolerance": _probe_unitcell_small,
}
