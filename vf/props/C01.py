"""C01  Atom arrays and stacks stay coherent under any sequence of operations.

Monitor: operation histories over a pool of live AtomArray/AtomArrayStack
objects run in lock-step with a plain list-of-atoms model (no numpy indexing in
the model); after every step every live container is compared field by field
with the model and with a container rebuilt from the model; class-level
invariant wrappers fire inside composite calls; copy() independence is tested
by mutation and np.shares_memory.
"""

import numpy as np

ID = "C01"
FLAVOUR = "san"
LEVEL = "exploration"
RULE = (
    "seeded generator: pool of 1-3 containers (AtomArray / AtomArrayStack, 0-12 atoms, 1-4 models, "
    "with/without bonds, box, 0-3 extra annotations of dtype int/float/bool/U), then 1-12 (quick) / 1-30 "
    "(thorough) operations from indexing (int, slice, mask, index array of every integer dtype, list, "
    "Ellipsis tuples, 2-D stack indices, negatives), +/concatenate, stack, repeat, from_template, array, "
    "del atom / del model, atom / model assignment, annotation edits, copy.  Non-trivial: at least one step "
    "produced or mutated a container and at least one index was not a plain non-negative int; distinct = "
    "digest of the logged initial containers and operations."
)
STRATA = {
    "array_hist": (5000, 150000),
    "stack_hist": (5000, 150000),
    "mixed_hist": (3000, 90000),
    "no_bonds_dups": (2000, 60000),
}
# functions that must leave their arguments untouched (vf.core.PurityMonitor; '!' = the object itself is watched too)
PURE = [
    "biotite.structure.atoms:concatenate",
    "biotite.structure.atoms:stack",
    "biotite.structure.atoms:repeat",
    "biotite.structure.atoms:from_template",
    "biotite.structure.atoms:AtomArray.__getitem__!",
    "biotite.structure.atoms:AtomArrayStack.__getitem__!",
    "biotite.structure.atoms:AtomArrayStack.get_array!",
    "biotite.structure.atoms:AtomArray.get_atom!",
    "biotite.structure.atoms:AtomArrayStack.__setitem__",
    "biotite.copyable:Copyable.copy!",
    "biotite.structure.atoms:_AtomArrayBase.equal_annotations!",
    "biotite.structure.atoms:_AtomArrayBase.__eq__!",
]
REQUIRED_ORACLES = ["fields_vs_model", "eq_vs_rebuilt", "invariant_hook", "copy_independent", "bond_uids"]
ANCHORS = [
    "biotite.structure.atoms:_AtomArrayBase._subarray",
    "biotite.structure.atoms:_AtomArrayBase._del_element",
    "biotite.structure.atoms:_AtomArrayBase._set_element",
    "biotite.structure.atoms:AtomArrayStack.get_array",
    "biotite.copyable:Copyable.copy",
]
ASSUMPTIONS = [
    "memory sharing between a sub-array/view and its parent is numpy semantics and is not judged; only copy() independence is",
    "in-place element writes are applied only to containers that share no arrays with another live container",
    "duplicate indices on a bonded container raise the documented NotImplementedError (counted, not judged)",
    "annotation values are compared by value, not by dtype width",
    "strings assigned into an existing annotation array are kept within its dtype width (numpy truncation is not judged)",
    "whole-attribute assignment of coord/box with a shape that contradicts the container is not generated (not an operation of the statement)",
]
MIN_CASES_PER_WORKER = 30
MANIFEST = {
    "technique": "lock-step operation histories vs list-of-atoms reference model; class-level invariant wrappers (invariant at a hook); copy-independence by mutation + np.shares_memory; ASan/UBSan build of bonds.c",
    "level_text": "Runtime monitoring: generated operation histories are executed on real AtomArray/AtomArrayStack objects while a pure-Python list-of-atoms model runs in lock-step; after every step each live container is compared field-by-field (annotations, coordinates of every model, box depth, bond uid pairs) with the model and via == with a container rebuilt from it; structural invariants are also evaluated by wrappers inside composite calls.  Held-on-observed, not a proof.",
    "level_note": "Trusts the list model (its index resolution is audited against Python range/list semantics in selftest) and numpy.  View aliasing is not judged.  Findings S22 (non-contiguous mask on bonded containers) is quarantined.",
    "design_ref": "DESIGN.md section 6, C01",
}

struc = None
atoms_mod = None
HOOK = [0]
MANDATORY = ["chain_id", "res_id", "ins_code", "res_name", "hetero", "atom_name", "element"]
EXTRA = {"b_factor": "float", "charge": "int", "flag": "bool", "label": "str", "occ": "float"}
_INT_DTYPES = ["int8", "int16", "int32", "int64", "uint8", "uint16", "uint32", "uint64"]
_UID = [0]


class InvariantBroken(Exception):
    pass


# ----------------------------------------------------------------- invariants
def invariant_violation(obj):
    """Return a message if the structural invariant of C01 is broken, else None."""
    n = obj._array_length
    c = obj._coord
    is_stack = isinstance(obj, struc.AtomArrayStack)
    if c is None:
        return None
    if is_stack:
        if c.ndim != 3 or c.shape[1] != n or c.shape[2] != 3:
            return "stack coord shape %s for length %d" % (c.shape, n)
        m = c.shape[0]
    else:
        if c.ndim != 2 or c.shape != (n, 3):
            return "array coord shape %s for length %d" % (c.shape, n)
        m = None
    for name, a in obj._annot.items():
        if a.shape != (n,):
            return "annotation %s shape %s for length %d" % (name, a.shape, n)
    b = obj._box
    if b is not None:
        if is_stack:
            if b.shape != (m, 3, 3):
                return "box shape %s for depth %d" % (b.shape, m)
        elif b.shape != (3, 3):
            return "box shape %s for an AtomArray" % (b.shape,)
    if obj._bonds is not None:
        if obj._bonds.get_atom_count() != n:
            return "bond list has %d atoms for length %d" % (obj._bonds.get_atom_count(), n)
        arr = obj._bonds.as_array()
        if len(arr) and int(arr[:, :2].max()) >= n:
            return "bond index %d >= length %d" % (int(arr[:, :2].max()), n)
    return None


_hook_failures = []


def _post_check(res, args, kwargs):
    HOOK[0] += 1
    for o in list(args[:1]) + [res]:
        if isinstance(o, atoms_mod._AtomArrayBase):
            msg = invariant_violation(o)
            if msg:
                _hook_failures.append(msg)


def setup(ctx):
    global struc, atoms_mod
    import biotite.structure as struc_
    import biotite.structure.atoms as atoms_
    from vf.core import wrap_method
    struc, atoms_mod = struc_, atoms_
    for cls, names in (
        (atoms_._AtomArrayBase, ["_subarray", "_del_element", "_set_element", "set_annotation", "add_annotation", "del_annotation"]),
        (atoms_.AtomArray, ["__getitem__", "__delitem__", "__setitem__"]),
        (atoms_.AtomArrayStack, ["__getitem__", "__delitem__", "__setitem__", "get_array"]),
    ):
        for nm in names:
            wrap_method(cls, nm, post=_post_check)
    # module-level constructors: patch the defining module and the package namespace
    for fn in ("concatenate", "stack", "repeat", "from_template", "array"):
        orig = getattr(atoms_, fn)

        def make(orig):
            def wrapper(*a, **k):
                res = orig(*a, **k)
                _post_check(res, (), {})
                return res
            wrapper.__wrapped__ = orig
            wrapper.__name__ = orig.__name__
            return wrapper
        w = make(orig)
        setattr(atoms_, fn, w)
        setattr(struc_, fn, w)


# ----------------------------------------------------------------- model
class M:
    """kind 'array': coords[0] is the only model.  atoms: list of dicts."""

    def __init__(self, kind, atoms, coords, box, bonds):
        self.kind = kind
        self.atoms = atoms              # list of {annotation: value}
        self.coords = coords            # list (models) of list (atoms) of (x,y,z)
        self.box = box                  # None | list (models) of 3x3 nested lists
        self.bonds = bonds              # None | {(i,j): type}, i<j positions

    @property
    def n(self):
        return len(self.atoms)

    @property
    def m(self):
        return len(self.coords)

    def cats(self):
        return list(self.atoms[0].keys()) if self.atoms else list(self._cats)

    def clone(self):
        mm = M(self.kind, [dict(a) for a in self.atoms], [list(c) for c in self.coords],
               None if self.box is None else [[list(r) for r in b] for b in self.box],
               None if self.bonds is None else dict(self.bonds))
        mm._cats = list(self._cats)
        return mm

    def key(self):
        return (self.kind, self.n, self.m, tuple(sorted(self._cats)), self.box is not None,
                None if self.bonds is None else len(self.bonds))

    def select_atoms(self, pos):
        inv = {}
        for new, old in enumerate(pos):
            inv.setdefault(old, new)
        bonds = None
        if self.bonds is not None:
            bonds = {}
            for (i, j), t in self.bonds.items():
                if i in inv and j in inv:
                    a, b = inv[i], inv[j]
                    bonds[(min(a, b), max(a, b))] = t
        mm = M(self.kind, [dict(self.atoms[p]) for p in pos], [[c[p] for p in pos] for c in self.coords],
               None if self.box is None else [[list(r) for r in b] for b in self.box], bonds)
        mm._cats = list(self._cats)
        return mm

    def select_models(self, pos):
        mm = self.clone()
        mm.coords = [list(self.coords[p]) for p in pos]
        if self.box is not None:
            mm.box = [[list(r) for r in self.box[p]] for p in pos]
        return mm


def resolve(index, n):
    """Positions selected by a one-axis index, written without numpy indexing.
    index: ('int', i) | ('slice', a, b, s) | ('mask', [bools]) | ('array', [ints]).  IndexError when out of range."""
    kind = index[0]
    if kind == "int":
        i = index[1]
        if i < -n or i >= n:
            raise IndexError(i)
        return [i + n if i < 0 else i]
    if kind == "slice":
        return list(range(n))[slice(index[1], index[2], index[3])]
    if kind == "mask":
        if len(index[1]) != n:
            raise IndexError("mask length")
        return [i for i, b in enumerate(index[1]) if b]
    out = []
    for i in index[1]:
        if i < -n or i >= n:
            raise IndexError(i)
        out.append(i + n if i < 0 else i)
    return out


# ----------------------------------------------------------------- generators
def new_uid():
    _UID[0] += 1
    return _UID[0]


_CHAINS = ["A", "B", "AB", "", "x1"]
_RES = ["ALA", "GLY", "HOH", "A", "LIGX"]
_NAMES = ["CA", "N", "O1'", "C", "H5''", "X"]
_ELEMS = ["C", "N", "O", "H", "FE"]


def rand_atom_annots(rng, extras):
    a = {
        "chain_id": str(rng.choice(_CHAINS)), "res_id": int(rng.integers(-5, 40)), "ins_code": str(rng.choice(["", "", "A"])),
        "res_name": str(rng.choice(_RES)), "hetero": bool(rng.random() < 0.3), "atom_name": str(rng.choice(_NAMES)),
        "element": str(rng.choice(_ELEMS)), "uid": new_uid(),
    }
    for e in extras:
        a[e] = rand_value(rng, EXTRA[e])
    return a


def rand_value(rng, typ):
    if typ == "float":
        return float(np.float32(rng.normal() * 10)) if rng.random() > 0.05 else float("nan")
    if typ == "int":
        return int(rng.integers(-3, 4))
    if typ == "bool":
        return bool(rng.random() < 0.5)
    return str(rng.choice(["", "a", "bc", "xyz"]))


def rand_xyz(rng):
    return tuple(float(x) for x in np.float32(rng.normal(size=3) * 20))


def rand_box(rng):
    b = np.float32(np.diag(rng.uniform(5, 50, size=3)) + (rng.normal(size=(3, 3)) if rng.random() < 0.4 else 0))
    return [[float(x) for x in r] for r in b]


def rand_bonds(rng, n):
    bonds = {}
    if n < 2:
        return bonds
    for _ in range(int(rng.integers(0, 2 * n))):
        i, j = int(rng.integers(n)), int(rng.integers(n))
        if i != j:
            bonds[(min(i, j), max(i, j))] = int(rng.integers(10))
    return bonds


def gen_model(rng, kind, n=None, m=None, extras=None, bonds=None, box=None):
    if n is None:
        n = int(rng.choice([0, 1, 2, 3, 4, 5, 6, 8, 12], p=[.04, .08, .12, .16, .16, .14, .12, .1, .08]))
    if m is None:
        m = 1 if kind == "array" else int(rng.integers(1, 5))
    if extras is None:
        extras = [e for e in EXTRA if rng.random() < 0.25]
    atoms = [rand_atom_annots(rng, extras) for _ in range(n)]
    coords = [[rand_xyz(rng) for _ in range(n)] for _ in range(m)]
    if box is None:
        box = rng.random() < 0.5
    if bonds is None:
        bonds = rng.random() < 0.6
    mm = M(kind, atoms, coords, [rand_box(rng) for _ in range(m)] if box else None, rand_bonds(rng, n) if bonds else None)
    mm._cats = MANDATORY + ["uid"] + list(extras)
    return mm


_DT = {"chain_id": "U4", "res_id": int, "ins_code": "U1", "res_name": "U5", "hetero": bool, "atom_name": "U6",
       "element": "U2", "uid": np.int64, "b_factor": np.float64, "occ": np.float32, "charge": np.int32, "flag": bool, "label": "U3"}


def build_real(mm):
    """Container built from the model through the public API."""
    if mm.kind == "array":
        obj = struc.AtomArray(mm.n)
        obj.coord = np.array(mm.coords[0], dtype=np.float32).reshape(mm.n, 3)
        if mm.box is not None:
            obj.box = np.array(mm.box[0], dtype=np.float32)
    else:
        obj = struc.AtomArrayStack(mm.m, mm.n)
        obj.coord = np.array(mm.coords, dtype=np.float32).reshape(mm.m, mm.n, 3)
        if mm.box is not None:
            obj.box = np.array(mm.box, dtype=np.float32).reshape(mm.m, 3, 3)
    for c in mm._cats:
        vals = [a[c] for a in mm.atoms]
        dt = _DT.get(c)
        if c == "charge" and any(isinstance(v, float) for v in vals):
            dt = np.float64
        obj.set_annotation(c, np.array(vals, dtype=dt))
    for c in MANDATORY:
        if c not in mm._cats:
            obj.del_annotation(c)
    if mm.bonds is not None:
        arr = np.array([(i, j, t) for (i, j), t in mm.bonds.items()], dtype=np.int64).reshape(-1, 3)
        obj.bonds = struc.BondList(mm.n, arr)
    return obj


def _veq(a, b):
    if isinstance(a, float) and isinstance(b, float):
        return a == b or (a != a and b != b)
    return a == b


def compare(ctx, obj, mm, what="container"):
    """Field-by-field comparison of the live object with the model."""
    ctx.oracle("fields_vs_model")
    msg = invariant_violation(obj)
    ctx.oracle("invariant_direct")
    if msg:
        ctx.fail("invariant_direct", "%s: %s" % (what, msg))
    want_cls = struc.AtomArray if mm.kind == "array" else struc.AtomArrayStack
    if type(obj) is not want_cls:
        ctx.fail("fields_vs_model", "%s is %s, model says %s" % (what, type(obj).__name__, mm.kind))
    if obj.array_length() != mm.n:
        ctx.fail("fields_vs_model", "%s length %d, model %d" % (what, obj.array_length(), mm.n))
    if mm.kind == "stack" and obj.stack_depth() != mm.m:
        ctx.fail("fields_vs_model", "%s depth %d, model %d" % (what, obj.stack_depth(), mm.m))
    cats = sorted(obj.get_annotation_categories())
    if cats != sorted(mm._cats):
        ctx.fail("fields_vs_model", "%s categories %s, model %s" % (what, cats, sorted(mm._cats)))
    for c in mm._cats:
        got = obj.get_annotation(c).tolist()
        exp = [a[c] for a in mm.atoms]
        if len(got) != len(exp) or not all(_veq(g, e) for g, e in zip(got, exp)):
            ctx.fail("fields_vs_model", "%s annotation %s = %s, model %s" % (what, c, got, exp))
    coord = obj.coord
    exp = np.array(mm.coords if mm.kind == "stack" else mm.coords[0], dtype=np.float32)
    exp = exp.reshape((mm.m, mm.n, 3) if mm.kind == "stack" else (mm.n, 3))
    if coord.dtype != np.float32 or coord.shape != exp.shape or not np.array_equal(coord, exp, equal_nan=True):
        ctx.fail("fields_vs_model", "%s coord differs from model (shape %s vs %s)" % (what, coord.shape, exp.shape),
                 got=coord.tolist(), expected=exp.tolist())
    if (obj.box is None) != (mm.box is None):
        ctx.fail("fields_vs_model", "%s box presence %s, model %s" % (what, obj.box is not None, mm.box is not None))
    if mm.box is not None:
        eb = np.array(mm.box if mm.kind == "stack" else mm.box[0], dtype=np.float32)
        eb = eb.reshape((mm.m, 3, 3) if mm.kind == "stack" else (3, 3))
        if obj.box.shape != eb.shape or not np.array_equal(obj.box, eb):
            ctx.fail("fields_vs_model", "%s box %s differs from model %s" % (what, obj.box.shape, eb.shape),
                     got=obj.box.tolist(), expected=eb.tolist())
    if (obj.bonds is None) != (mm.bonds is None):
        ctx.fail("fields_vs_model", "%s bonds presence %s, model %s" % (what, obj.bonds is not None, mm.bonds is not None))
    if mm.bonds is not None:
        ctx.oracle("bond_uids")
        if obj.bonds.get_atom_count() != mm.n:
            ctx.fail("bond_uids", "%s bond list atom count %d != %d" % (what, obj.bonds.get_atom_count(), mm.n))
        got = {(int(i), int(j), int(t)) for i, j, t in obj.bonds.as_array()}
        expb = {(i, j, t) for (i, j), t in mm.bonds.items()}
        if got != expb:
            uid = [a.get("uid") for a in mm.atoms]
            ctx.fail("bond_uids", "%s bonds connect other atoms than in the model" % what,
                     got=sorted(got), expected=sorted(expb), uids=uid)
    ctx.oracle("eq_vs_rebuilt")
    rebuilt = build_real(mm)
    e1, e2 = obj == rebuilt, rebuilt == obj
    has_nan_annot = any(isinstance(v, float) and v != v for a in mm.atoms for v in a.values())
    has_nan_coord = bool(np.isnan(exp).any())
    if not (has_nan_coord):
        if not e1 or not e2:
            ctx.fail("eq_vs_rebuilt", "%s == container rebuilt from the model is %s/%s" % (what, e1, e2))
    else:
        ctx.note("eq_skipped_nan_coord")
    # '==' is what "equals" is read with: it must tell apart, in both directions, a container that differs from the
    # model only by the presence of a box or of a bond list
    _EQ_TICK[0] += 1
    if _EQ_TICK[0] % 3 == 0:
        other = build_real(mm)
        if _EQ_TICK[0] % 2 == 0 and mm.bonds is not None:
            other.bonds, diff = None, "lacks the bond list"
        elif mm.box is not None:
            other.box, diff = None, "lacks the box"
        else:
            other.box = np.tile(np.eye(3, dtype=np.float32) * 7, (mm.m, 1, 1)) if mm.kind == "stack" else np.eye(3, dtype=np.float32) * 7
            diff = "has a box"
        ctx.oracle("eq_discriminates")
        f1, f2 = obj == other, other == obj
        if f1 or f2:
            ctx.fail("eq_discriminates", "%s compares equal (%s/%s) to a container that only %s" % (what, bool(f1), bool(f2), diff))


_EQ_TICK = [0]


def compare_atom(ctx, atom, mm, p, k=0, what="atom"):
    ctx.oracle("atom_vs_model")
    if not isinstance(atom, struc.Atom):
        ctx.fail("atom_vs_model", "%s is %s, expected Atom" % (what, type(atom).__name__))
    for c in mm._cats:
        if not _veq(np.asarray(getattr(atom, c)).tolist(), mm.atoms[p][c]):
            ctx.fail("atom_vs_model", "%s %s=%r model %r" % (what, c, getattr(atom, c), mm.atoms[p][c]))
    if not np.array_equal(atom.coord, np.array(mm.coords[k][p], dtype=np.float32), equal_nan=True):
        ctx.fail("atom_vs_model", "%s coord %s model %s" % (what, atom.coord.tolist(), mm.coords[k][p]))


# ----------------------------------------------------------------- index generation
T_NARROW = "narrow_index_dtype_negative"     # negative entries in an index array whose integer type cannot hold the atom count


def gen_index(rng, n, allow_dups, allow_strided, allow_int=True, narrow_ok=True):
    """Return (python index object, model descriptor, loggable, plain) for one axis of length n."""
    kinds = ["slice", "slice", "mask", "array", "array", "list", "empty"] + (["int", "int"] if allow_int and n > 0 else [])
    kind = str(rng.choice(kinds))
    if kind == "int":
        i = int(rng.integers(-n, n))
        return (i if rng.random() < 0.7 else np.int64(i)), ("int", i), ("int", i), i >= 0
    if kind == "slice":
        def b():
            return None if rng.random() < 0.35 else int(rng.integers(-n - 2, n + 3))
        step = None if rng.random() < 0.4 else int(rng.choice([1, 2, 3, -1, -2, -3]))
        s = slice(b(), b(), step)
        return s, ("slice", s.start, s.stop, s.step), ("slice", s.start, s.stop, s.step), False
    if kind == "mask":
        mask = rng.random(n) < float(rng.choice([0.0, 0.3, 0.6, 1.0]))
        if allow_strided and rng.random() < 0.3:
            big = np.zeros(2 * n, dtype=bool)
            big[::2] = mask
            return big[::2], ("mask", mask.tolist()), ("mask_strided", mask.tolist()), False
        if rng.random() < 0.15:
            return mask.tolist(), ("mask", mask.tolist()), ("mask_list", mask.tolist()), False
        return mask, ("mask", mask.tolist()), ("mask", mask.tolist()), False
    if kind == "empty":
        if rng.random() < 0.5:
            return [], ("array", []), ("list", []), False
        return np.array([], dtype=np.int64), ("array", []), ("array", "int64", []), False
    if n == 0:
        return np.array([], dtype=np.int32), ("array", []), ("array", "int32", []), False
    k = int(rng.integers(1, n + 2))
    if allow_dups:
        idx = rng.integers(0, n, size=k)
    else:
        idx = rng.permutation(n)[:k]
    if rng.random() < 0.3:
        idx = np.sort(idx)
    vals = [int(i) - n if rng.random() < 0.3 else int(i) for i in idx]
    if kind == "list":
        return list(vals), ("array", vals), ("list", vals), False
    lo, hi = min(vals), max(vals)
    cands = [d for d in _INT_DTYPES if np.iinfo(d).min <= lo and hi <= np.iinfo(d).max]
    if not narrow_ok and lo < 0:
        # open finding: a bonded container turns negative entries into positive ones inside the index array's own type
        cands = [d for d in cands if np.iinfo(d).max >= n] or ["int64"]
    dt = str(rng.choice(cands))
    return np.array(vals, dtype=dt), ("array", vals), ("array", dt, vals), False


# ----------------------------------------------------------------- history engine
class Entry:
    __slots__ = ("obj", "mm", "group")

    def __init__(self, obj, mm, group):
        self.obj, self.mm, self.group = obj, mm, group


class Hist:
    def __init__(self, ctx, rng, allow_dups=False):
        self.ctx, self.rng = ctx, rng
        self.pool = []
        self._g = 0
        self.allow_dups = allow_dups
        self.changed = False

    def fresh_group(self):
        self._g += 1
        return self._g

    def add(self, obj, mm, group=None):
        e = Entry(obj, mm, group if group is not None else self.fresh_group())
        self.pool.append(e)
        while len(self.pool) > 4:
            self.pool.pop(0)
        return e

    def exclusive(self, e):
        return sum(1 for x in self.pool if x.group == e.group) == 1

    def pick(self, kind=None, pred=None):
        c = [e for e in self.pool if (kind is None or e.mm.kind == kind) and (pred is None or pred(e))]
        return c[int(self.rng.integers(len(c)))] if c else None

    def verify_all(self):
        for k, e in enumerate(self.pool):
            compare(self.ctx, e.obj, e.mm, "pool[%d]" % k)
            self.ctx.state(e.mm.key())
        if _hook_failures:
            msg = _hook_failures[0]
            del _hook_failures[:]
            self.ctx.fail("invariant_hook", "invariant broken inside a call: " + msg)
        self.ctx.oracles["invariant_hook"] = HOOK[0]


def expect_exc(ctx, oracle, classes, fn, what):
    ctx.oracle(oracle)
    try:
        res = fn()
    except classes as e:
        ctx.exc(e)
        return True
    ctx.fail(oracle, "%s returned %s instead of raising %s" % (what, type(res).__name__, "/".join(c.__name__ for c in classes)))


def op_getitem_array(h, e):
    ctx, rng, mm = h.ctx, h.rng, e.mm
    dups = h.allow_dups and mm.bonds is None
    strided = mm.bonds is None or ctx.allowed("noncontiguous_mask")
    idx, desc, lg, plain = gen_index(rng, mm.n, dups, strided, narrow_ok=(mm.bonds is None or ctx.allowed(T_NARROW)))
    wrap = rng.random() < 0.15
    ctx.log("a.getitem", "(...,)" if wrap else "", lg)
    ctx.op("array[%s]" % lg[0])
    if not plain:
        ctx.mark_nontrivial()
    res = e.obj[(Ellipsis, idx)] if wrap else e.obj[idx]
    pos = resolve(desc, mm.n)
    if desc[0] == "int":
        compare_atom(ctx, res, mm, pos[0])
        # Atom.copy(): editing the copy in place leaves the atom it was copied from (and the container) as they were
        c = res.copy()
        ctx.oracle("copy_independent")
        if np.shares_memory(c.coord, res.coord):
            ctx.fail("copy_independent", "Atom.copy() shares its coord array with the original atom")
        c.coord += np.float32(1.25)
        c.coord[:] = c.coord * 2
        compare_atom(ctx, res, mm, pos[0])
        h.changed = True
        return
    nm = mm.select_atoms(pos)
    h.add(res, nm, e.group)
    h.changed = True


def op_getitem_oob(h, e):
    ctx, rng, mm = h.ctx, h.rng, e.mm
    n = mm.n
    bad = int(rng.choice([n, n + 1, -n - 1, -n - 3, 10**6]))
    form = str(rng.choice(["int", "array", "list"]))
    if form == "int" and mm.kind == "stack" and not ctx.allowed("stack_2d_negative_atom_int"):
        form = "array"
    ctx.log("getitem!", mm.kind, form, bad)
    ctx.op("getitem_oob")
    ctx.mark_nontrivial()
    idx = bad if form == "int" else (np.array([0, bad][-1:] if n == 0 else [0, bad]) if form == "array" else ([bad]))
    if mm.kind == "stack":
        idx = (Ellipsis, idx) if rng.random() < 0.5 else (slice(None), idx)
    expect_exc(ctx, "index_error_expected", (IndexError,), lambda: e.obj[idx], "getitem(%r)" % (idx,))


def _np_int(rng, k):
    """The same integer as a Python int or as one of NumPy's integer scalars (what np.argmin(), a loop over np.arange() give)."""
    r = rng.random()
    if r < 0.55:
        return int(k)
    return [np.int64, np.int32, np.intp, np.int16][int(rng.integers(4))](k)


def op_getitem_stack(h, e):
    ctx, rng, mm = h.ctx, h.rng, e.mm
    if mm.m == 0:
        return op_getitem_oob(h, e)
    form = str(rng.choice(["int", "models", "2d_int_first", "2d", "2d", "2d_ellipsis"]))
    if form == "int":
        k = int(rng.integers(-mm.m, mm.m))
        ctx.log("s.getitem", k); ctx.op("stack[int]")
        if k < 0:
            ctx.mark_nontrivial()
        res = e.obj[_np_int(rng, k)]
        nm = mm.select_models([k % mm.m])
        nm.kind = "array"
        h.add(res, nm, e.group); h.changed = True
        return
    if form == "models":
        idx, desc, lg, _ = gen_index(rng, mm.m, True, True, allow_int=False)
        ctx.log("s.getitem", lg); ctx.op("stack[models:%s]" % lg[0]); ctx.mark_nontrivial()
        res = e.obj[idx]
        h.add(res, mm.select_models(resolve(desc, mm.m)), e.group); h.changed = True
        return
    dups = h.allow_dups and mm.bonds is None
    strided = mm.bonds is None or ctx.allowed("noncontiguous_mask")
    aidx, adesc, alg, aplain = gen_index(rng, mm.n, dups, strided, narrow_ok=(mm.bonds is None or ctx.allowed(T_NARROW)))
    if adesc[0] == "int" and adesc[1] < 0 and form != "2d_int_first" and not ctx.allowed("stack_2d_negative_atom_int"):
        aidx = adesc[1] + mm.n
        adesc = alg = ("int", aidx)
    if form == "2d_int_first":
        k = int(rng.integers(-mm.m, mm.m))
        ctx.log("s.getitem2d", k, alg); ctx.op("stack[int,%s]" % alg[0]); ctx.mark_nontrivial()
        res = e.obj[_np_int(rng, k), aidx]
        pos = resolve(adesc, mm.n)
        if adesc[0] == "int":
            compare_atom(ctx, res, mm, pos[0], k % mm.m)
            return
        nm = mm.select_models([k % mm.m]).select_atoms(pos)
        nm.kind = "array"
        h.add(res, nm, e.group); h.changed = True
        return
    if form == "2d_ellipsis":
        midx, mdesc, mlg = Ellipsis, ("slice", None, None, None), "..."
    else:
        midx, mdesc, mlg, _ = gen_index(rng, mm.m, True, True, allow_int=False)
    ctx.log("s.getitem2d", mlg, alg); ctx.op("stack[%s,%s]" % (mlg if isinstance(mlg, str) else mlg[0], alg[0])); ctx.mark_nontrivial()
    res = e.obj[midx, aidx]
    nm = mm.select_atoms(resolve(adesc, mm.n)).select_models(resolve(mdesc, mm.m))
    h.add(res, nm, e.group); h.changed = True


def op_concat(h, e):
    ctx, rng = h.ctx, h.rng
    k = int(rng.integers(1, 4))
    parts = [e]
    for _ in range(k - 1):
        o = h.pick(e.mm.kind, lambda x: x.mm.kind != "stack" or x.mm.m == e.mm.m)
        if o is None or rng.random() < 0.5:
            nm = gen_model(rng, e.mm.kind, m=e.mm.m if e.mm.kind == "stack" else None)
            o = Entry(build_real(nm), nm, h.fresh_group())
            ctx.log("new", describe(nm))
        parts.append(o)
    rng.shuffle(parts)
    how = "+" if len(parts) == 2 and rng.random() < 0.5 else "concatenate"
    ctx.log(how, [describe_short(p.mm) for p in parts]); ctx.op(how)
    if how == "+":
        res = parts[0].obj + parts[1].obj
    else:
        objs = [p.obj for p in parts]
        res = struc.concatenate(objs if rng.random() < 0.6 else iter(objs))
    common = [c for c in parts[0].mm._cats if all(c in p.mm._cats for p in parts)]
    atoms_, off, bonds, has_bonds, box = [], 0, {}, False, None
    coords = [[] for _ in range(parts[0].mm.m)]
    for p in parts:
        atoms_ += [{c: a[c] for c in common} for a in p.mm.atoms]
        for kk in range(len(coords)):
            coords[kk] += p.mm.coords[kk]
        if p.mm.bonds is not None:
            has_bonds = True
            for (i, j), t in p.mm.bonds.items():
                bonds[(i + off, j + off)] = t
        if box is None and p.mm.box is not None:
            box = [[list(r) for r in b] for b in p.mm.box]
        off += p.mm.n
    nm = M(e.mm.kind, atoms_, coords, box, bonds if has_bonds else None)
    nm._cats = common
    g = parts[0].group
    for p in parts:          # the result may share its box with any operand
        old = p.group
        for x in h.pool:
            if x.group == old:
                x.group = g
        p.group = g
    h.add(res, nm, g); h.changed = True


def op_stack(h, e):
    ctx, rng, mm = h.ctx, h.rng, e.mm
    k = int(rng.integers(1, 4))
    arrs, models = [e.obj], [mm]
    for _ in range(k - 1):
        v = mm.clone()
        v.coords = [[rand_xyz(rng) for _ in range(mm.n)]]
        if v.box is not None and rng.random() < 0.7:
            v.box = [rand_box(rng)]
        elif rng.random() < 0.2:
            v.box = None if v.box is not None else [rand_box(rng)]
        if v.bonds is not None and rng.random() < 0.3:
            # the later arrays need not carry the same bond list (one bond removed, or none at all): the stack takes
            # the bonds of the first array
            if v.bonds and rng.random() < 0.6:
                del v.bonds[sorted(v.bonds)[int(rng.integers(len(v.bonds)))]]
            else:
                v.bonds = None
            ctx.op("stack_arrays_with_other_bonds")
        arrs.append(build_real(v)); models.append(v)
    ctx.log("stack", k, [m_.box is not None for m_ in models]); ctx.op("stack")
    res = struc.stack(arrs if rng.random() < 0.7 else tuple(arrs))
    allbox = all(m_.box is not None for m_ in models)
    nm = M("stack", [dict(a) for a in mm.atoms], [list(m_.coords[0]) for m_ in models],
           [[list(r) for r in m_.box[0]] for m_ in models] if allbox else None,
           None if mm.bonds is None else dict(mm.bonds))
    nm._cats = list(mm._cats)
    h.add(res, nm, e.group); h.changed = True


def op_repeat(h, e):
    ctx, rng, mm = h.ctx, h.rng, e.mm
    k = int(rng.integers(1, 4))
    if mm.kind == "stack" and mm.m >= 2 and k >= 2 and not ctx.allowed("repeat_stack_multi_model"):
        k = 1
    if mm.kind == "array":
        c = np.float32(rng.normal(size=(k, mm.n, 3)) * 10)
        newc = [[tuple(float(x) for x in c[r, i]) for r in range(k) for i in range(mm.n)]]
    else:
        # documented layout (k, m, n, 3): repeat r of model mi uses coord[r, mi]
        c = np.float32(rng.normal(size=(k, mm.m, mm.n, 3)) * 10)
        newc = [[tuple(float(x) for x in c[r, mi, i]) for r in range(k) for i in range(mm.n)] for mi in range(mm.m)]
    ctx.log("repeat", k); ctx.op("repeat")
    res = struc.repeat(e.obj, c)
    bonds = None
    if mm.bonds is not None:
        bonds = {(i + r * mm.n, j + r * mm.n): t for r in range(k) for (i, j), t in mm.bonds.items()}
    nm = M(mm.kind, [dict(a) for _ in range(k) for a in mm.atoms], newc,
           None if mm.box is None else [[list(r) for r in b] for b in mm.box], bonds)
    nm._cats = list(mm._cats)
    h.add(res, nm, e.group); h.changed = True


def op_from_template(h, e):
    ctx, rng, mm = h.ctx, h.rng, e.mm
    l_ = int(rng.integers(1, 4))
    c = np.float32(rng.normal(size=(l_, mm.n, 3)) * 10)
    withbox = rng.random() < 0.5
    box = np.array([rand_box(rng) for _ in range(l_)], dtype=np.float32) if withbox else None
    ctx.log("from_template", l_, withbox); ctx.op("from_template")
    res = struc.from_template(e.obj, c, box)
    nm = M("stack", [dict(a) for a in mm.atoms], [[tuple(float(x) for x in c[k, i]) for i in range(mm.n)] for k in range(l_)],
           box.tolist() if withbox else None, None if mm.bonds is None else dict(mm.bonds))
    nm._cats = list(mm._cats)
    h.add(res, nm, e.group); h.changed = True


def op_array_fn(h, e):
    ctx, mm = h.ctx, e.mm
    if mm.n == 0:
        return
    ctx.log("array(atoms)"); ctx.op("array()")
    isfloat = {c for c in mm._cats if any(isinstance(a[c], float) for a in mm.atoms)}
    atoms_ = [struc.Atom(list(mm.coords[0][i]), **{c: (float(mm.atoms[i][c]) if c in isfloat else mm.atoms[i][c]) for c in mm._cats})
              for i in range(mm.n)]
    if not all(c in mm._cats for c in MANDATORY):
        return
    res = struc.array(atoms_)
    nm = M("array", [dict(a) for a in mm.atoms], [list(mm.coords[0])], None, None)
    nm._cats = list(mm._cats)
    h.add(res, nm); h.changed = True


def op_del(h, e):
    ctx, rng, mm = h.ctx, h.rng, e.mm
    if mm.kind == "array":
        if mm.n == 0:
            return
        i = int(rng.integers(-mm.n, mm.n))
        ctx.log("del atom", i); ctx.op("del atom")
        if i < 0:
            ctx.mark_nontrivial()
        del e.obj[i if rng.random() < 0.7 else np.int64(i)]
        p = i % mm.n
        e.mm = mm.select_atoms([q for q in range(mm.n) if q != p])
    else:
        if mm.m <= 1:
            return
        if mm.box is not None and not ctx.allowed("del_model_with_box"):
            return
        k = int(rng.integers(-mm.m, mm.m))
        ctx.log("del model", k); ctx.op("del model")
        if k < 0:
            ctx.mark_nontrivial()
        del e.obj[k]
        p = k % mm.m
        e.mm = mm.select_models([q for q in range(mm.m) if q != p])
    h.changed = True


def op_del_oob(h, e):
    ctx, rng, mm = h.ctx, h.rng, e.mm
    size = mm.n if mm.kind == "array" else mm.m
    bad = int(rng.choice([size, size + 2, -size - 1]))
    ctx.log("del!", mm.kind, bad); ctx.op("del_oob"); ctx.mark_nontrivial()

    def f():
        del e.obj[bad]
    expect_exc(ctx, "index_error_expected", (IndexError,), f, "del [%d]" % bad)


def op_set_element(h, e):
    ctx, rng, mm = h.ctx, h.rng, e.mm
    if not h.exclusive(e):
        return op_copy(h, e)
    if mm.kind == "array":
        if mm.n == 0:
            return
        extras = [c for c in mm._cats if c in EXTRA]
        ann = rand_atom_annots(rng, extras)
        ann = {c: ann[c] for c in mm._cats}
        for c in ann:           # numpy truncates strings to the array's width: stay inside it
            dt = e.obj.get_annotation(c).dtype
            if dt.kind == "U":
                ann[c] = ann[c][: dt.itemsize // 4]
        xyz = rand_xyz(rng)
        atom = struc.Atom(list(xyz), **ann)
        if rng.random() < 0.75:
            i = int(rng.integers(-mm.n, mm.n))
            ctx.log("a[i]=Atom", i); ctx.op("array[int]=Atom")
            if i < 0:
                ctx.mark_nontrivial()
            e.obj[i if rng.random() < 0.7 else np.int32(i)] = atom
            pos = [i % mm.n]
        else:
            idx, desc, lg, _ = gen_index(rng, mm.n, True, True, allow_int=False, narrow_ok=(mm.bonds is None or ctx.allowed(T_NARROW)))
            if not isinstance(idx, np.ndarray):
                idx = np.array(idx, dtype=np.int64 if desc[0] == "array" else bool) if not isinstance(idx, slice) else None
            if idx is None:
                return
            ctx.log("a[idx]=Atom", lg); ctx.op("array[ndarray]=Atom"); ctx.mark_nontrivial()
            e.obj[idx] = atom
            pos = resolve(desc, mm.n)
        for p in pos:
            mm.atoms[p] = dict(ann)
            mm.coords[0][p] = xyz
    else:
        if mm.m == 0:
            return
        k = int(rng.integers(-mm.m, mm.m))
        v = mm.select_models([0])
        v.kind = "array"
        v.coords = [[rand_xyz(rng) for _ in range(mm.n)]]
        v.box = [rand_box(rng)] if mm.box is not None else (None if rng.random() < 0.5 else [rand_box(rng)])
        ctx.log("s[k]=array", k, v.box is not None); ctx.op("stack[int]=AtomArray")
        if k < 0:
            ctx.mark_nontrivial()
        e.obj[k] = build_real(v)
        mm.coords[k % mm.m] = list(v.coords[0])
        if mm.box is not None:
            mm.box[k % mm.m] = [list(r) for r in v.box[0]]
    h.changed = True


def op_set_element_bad(h, e):
    """Assignments the API documents as type errors / mismatches must not change the container."""
    ctx, rng, mm = h.ctx, h.rng, e.mm
    ctx.op("set_bad")
    if mm.kind == "array":
        if mm.n == 0:
            return
        atom = struc.Atom([0, 0, 0], **{c: mm.atoms[0][c] for c in mm._cats})
        ctx.log("a[slice]=Atom")
        expect_exc(ctx, "type_error_expected", (TypeError,), lambda: e.obj.__setitem__(slice(0, 1), atom), "a[0:1]=Atom")
        expect_exc(ctx, "type_error_expected", (TypeError,), lambda: e.obj.__delitem__(slice(0, 1)), "del a[0:1]")
    else:
        if mm.n == 0 or mm.m == 0:
            return
        v = mm.select_models([0]); v.kind = "array"
        v.atoms[0] = dict(v.atoms[0]); v.atoms[0]["res_id"] = v.atoms[0]["res_id"] + 1000
        ctx.log("s[0]=unequal array")
        expect_exc(ctx, "value_error_expected", (ValueError,), lambda: e.obj.__setitem__(0, build_real(v)), "s[0]=array with other annotations")


def op_annotation(h, e):
    ctx, rng, mm = h.ctx, h.rng, e.mm
    n = mm.n
    what = str(rng.choice(["set_new", "set_same", "set_promote", "attr", "add", "add_again", "del", "inplace", "wrong_len"]))
    ctx.op("annot_" + what)
    free = [c for c in EXTRA if c not in mm._cats]
    have = [c for c in EXTRA if c in mm._cats]
    if what == "set_new" and free:
        c = free[0]
        vals = [rand_value(rng, EXTRA[c]) for _ in range(n)]
        ctx.log("set_annotation new", c)
        e.obj.set_annotation(c, np.array(vals, dtype=_DT[c]))
        for a, v in zip(mm.atoms, vals):
            a[c] = v
        mm._cats.append(c)
    elif what in ("set_same", "attr") and have:
        c = have[int(rng.integers(len(have)))]
        vals = [rand_value(rng, EXTRA[c]) for _ in range(n)]
        arr = np.array(vals, dtype=_DT[c])
        ctx.log(what, c)
        if what == "attr":
            setattr(e.obj, c, arr)
        else:
            e.obj.set_annotation(c, arr if rng.random() < 0.6 else arr.tolist() if n else arr)
        for a, v in zip(mm.atoms, vals):
            a[c] = v
    elif what == "set_promote" and "charge" in mm._cats:
        vals = [float(np.float32(rng.normal())) + 0.5 for _ in range(n)]
        ctx.log("set_annotation promote charge->float")
        e.obj.set_annotation("charge", np.array(vals, dtype=np.float64))
        for a, v in zip(mm.atoms, vals):
            a["charge"] = v
    elif what == "add" and free:
        c = free[-1]
        ctx.log("add_annotation", c)
        e.obj.add_annotation(c, dtype=_DT[c])
        zero = {"float": 0.0, "int": 0, "bool": False, "str": ""}[EXTRA[c]]
        for a in mm.atoms:
            a[c] = zero
        mm._cats.append(c)
    elif what == "add_again":
        # add_annotation() on a category that already exists ("if not already existing"): the values stay as they are,
        # for the same dtype and for one that can also represent them
        c = str(rng.choice(["res_id", "chain_id", "hetero", "res_name"] + have))
        cur = e.obj.get_annotation(c).dtype
        wider = {"i": np.int64, "u": np.int64, "b": bool, "f": np.float64, "U": "U%d" % (cur.itemsize // 4 + int(rng.integers(0, 4)))}.get(cur.kind, cur)
        dt = cur if rng.random() < 0.5 else wider
        ctx.log("add_annotation again", c, str(dt))
        e.obj.add_annotation(c, dt)
    elif what == "del" and have:
        c = have[0]
        ctx.log("del_annotation", c)
        e.obj.del_annotation(c)
        for a in mm.atoms:
            del a[c]
        mm._cats.remove(c)
    elif what == "inplace" and n > 0 and mm.m > 0 and h.exclusive(e):
        i = int(rng.integers(-n, n))
        c = str(rng.choice(["res_id", "chain_id", "hetero"]))
        v = {"res_id": int(rng.integers(100, 200)), "chain_id": "Z", "hetero": True}[c]
        ctx.log("inplace", c, i)
        if i < 0:
            ctx.mark_nontrivial()
        e.obj.get_annotation(c)[i] = v
        mm.atoms[i % n][c] = v
        xyz = rand_xyz(rng)
        k = int(rng.integers(mm.m))
        if mm.kind == "array":
            e.obj.coord[i] = xyz
        else:
            e.obj.coord[k, i] = xyz
        mm.coords[k][i % n] = xyz
    elif what == "wrong_len":
        bad = n + int(rng.choice([1, 2])) if (n == 0 or rng.random() < 0.5) else n - 1
        ctx.log("set_annotation wrong length", bad)
        expect_exc(ctx, "wrong_length_rejected", (IndexError, ValueError),
                   lambda: e.obj.set_annotation("res_id", np.zeros(bad, dtype=int)), "set_annotation(len %d) on %d atoms" % (bad, n))
        return
    else:
        return
    h.changed = True


def op_copy(h, e):
    ctx, rng, mm = h.ctx, h.rng, e.mm
    ctx.log("copy"); ctx.op("copy")
    c = e.obj.copy()
    ctx.oracle("copy_independent")
    compare(ctx, c, mm, "copy")
    # no array of the copy may share memory with the original
    pairs = [("coord", e.obj.coord, c.coord)]
    if mm.box is not None:
        pairs.append(("box", e.obj.box, c.box))
    for cat in mm._cats:
        pairs.append((cat, e.obj.get_annotation(cat), c.get_annotation(cat)))
    for name, a, b in pairs:
        if np.shares_memory(a, b):
            ctx.fail("copy_independent", "copy shares memory of %s with the original" % name)
    if mm.bonds is not None and c.bonds is e.obj.bonds:
        ctx.fail("copy_independent", "copy shares the BondList object with the original")
    # mutate every mutable part of the copy, then the original must still equal the model
    cm = mm.clone()
    if mm.n > 0 and mm.m > 0:
        i = int(rng.integers(mm.n))
        c.get_annotation("res_id")[i] = 777; cm.atoms[i]["res_id"] = 777
        c.get_annotation("atom_name")[i] = "QQ"; cm.atoms[i]["atom_name"] = "QQ"
        if mm.kind == "array":
            c.coord[i] = (1.5, 2.5, 3.5)
        else:
            c.coord[0, i] = (1.5, 2.5, 3.5)
        cm.coords[0][i] = (1.5, 2.5, 3.5)
        if mm.bonds is not None and mm.n > 1:
            j = (i + 1) % mm.n
            c.bonds.add_bond(i, j, 4); cm.bonds[(min(i, j), max(i, j))] = 4
    if mm.box is not None and mm.m > 0:
        if mm.kind == "array":
            c.box[0, 0] = 99.0
        else:
            c.box[0, 0, 0] = 99.0
        cm.box[0][0][0] = 99.0
    if rng.random() < 0.5 and "label" not in cm._cats:
        c.set_annotation("label", np.array(["zz"] * mm.n, dtype="U3"))
        for a in cm.atoms:
            a["label"] = "zz"
        cm._cats.append("label")
    compare(ctx, e.obj, mm, "original after mutating its copy")
    compare(ctx, c, cm, "mutated copy")
    h.add(c, cm)
    h.changed = True


def op_iter(h, e):
    ctx, mm = h.ctx, e.mm
    ctx.log("iter"); ctx.op("iter")
    items = list(e.obj)
    if mm.kind == "array":
        if len(items) != mm.n:
            ctx.fail("atom_vs_model", "iteration yields %d atoms, model %d" % (len(items), mm.n))
        for p, a in enumerate(items):
            compare_atom(ctx, a, mm, p)
    else:
        if len(items) != mm.m:
            ctx.fail("fields_vs_model", "iteration yields %d models, model %d" % (len(items), mm.m))
        for k, a in enumerate(items):
            v = mm.select_models([k]); v.kind = "array"
            compare(ctx, a, v, "iterated model %d" % k)


def op_setup_attr(h, e):
    """Valid whole-attribute assignments (bonds / box present <-> absent)."""
    ctx, rng, mm = h.ctx, h.rng, e.mm
    what = str(rng.choice(["bonds", "box"]))
    ctx.op("assign_" + what)
    if what == "bonds":
        if mm.bonds is None or rng.random() < 0.5:
            mm.bonds = rand_bonds(rng, mm.n)
            arr = np.array([(i, j, t) for (i, j), t in mm.bonds.items()], dtype=np.int64).reshape(-1, 3)
            ctx.log("bonds=BondList", len(mm.bonds))
            e.obj.bonds = struc.BondList(mm.n, arr)
        else:
            ctx.log("bonds=None")
            mm.bonds = None
            e.obj.bonds = None
        wrong = struc.BondList(mm.n + 1)
        expect_exc(ctx, "wrong_length_rejected", (ValueError,), lambda: setattr(e.obj, "bonds", wrong), "bonds with other atom count")
    else:
        if mm.box is None or rng.random() < 0.5:
            mm.box = [rand_box(rng) for _ in range(mm.m)]
            ctx.log("box=array")
            b = np.array(mm.box if mm.kind == "stack" else mm.box[0], dtype=np.float64)
            if mm.kind == "stack":
                b = b.reshape(mm.m, 3, 3)
            e.obj.box = b
            mm.box = np.float32(np.array(mm.box)).tolist()
        else:
            ctx.log("box=None")
            mm.box = None
            e.obj.box = None
    h.changed = True


def describe_short(mm):
    return "%s n=%d m=%d box=%s bonds=%s extras=%s" % (mm.kind, mm.n, mm.m, mm.box is not None,
                                                     None if mm.bonds is None else len(mm.bonds), [c for c in mm._cats if c in EXTRA])


def describe(mm):
    return {"kind": mm.kind, "n": mm.n, "m": mm.m, "box": mm.box is not None,
            "bonds": None if mm.bonds is None else sorted((i, j, t) for (i, j), t in mm.bonds.items()),
            "extras": [c for c in mm._cats if c in EXTRA],
            "res_id": [a["res_id"] for a in mm.atoms]}


ARRAY_OPS = [(op_getitem_array, 6), (op_getitem_oob, 1), (op_concat, 2), (op_stack, 2), (op_repeat, 1), (op_from_template, 1),
             (op_array_fn, 1), (op_del, 2), (op_del_oob, 1), (op_set_element, 2), (op_set_element_bad, 1), (op_annotation, 3),
             (op_copy, 2), (op_iter, 1), (op_setup_attr, 1)]
STACK_OPS = [(op_getitem_stack, 7), (op_getitem_oob, 1), (op_concat, 2), (op_repeat, 1), (op_from_template, 1), (op_del, 3),
             (op_del_oob, 1), (op_set_element, 2), (op_set_element_bad, 1), (op_annotation, 3), (op_copy, 2), (op_iter, 1),
             (op_setup_attr, 1)]


def run_case(stratum, rng, ctx):
    _UID[0] = 0
    del _hook_failures[:]
    h = Hist(ctx, rng, allow_dups=(stratum == "no_bonds_dups"))
    kinds = {"array_hist": ["array"], "stack_hist": ["stack"], "mixed_hist": ["array", "stack"], "no_bonds_dups": ["array", "stack"]}[stratum]
    for _ in range(int(rng.integers(1, 3))):
        mm = gen_model(rng, str(rng.choice(kinds)), bonds=(False if stratum == "no_bonds_dups" else None))
        ctx.log("new", describe(mm))
        h.add(build_real(mm), mm)
    h.verify_all()
    nsteps = int(rng.integers(1, 13 if ctx.tier == "quick" else 31))
    for _ in range(nsteps):
        e = h.pool[int(rng.integers(len(h.pool)))]
        table = ARRAY_OPS if e.mm.kind == "array" else STACK_OPS
        w = np.array([x[1] for x in table], dtype=float)
        fn = table[int(rng.choice(len(table), p=w / w.sum()))][0]
        try:
            fn(h, e)
        except NotImplementedError as ex:
            if "Duplicate indices" in str(ex):
                ctx.note("declined_duplicate_index")
                ctx.exc(ex)
            else:
                raise
        h.verify_all()
    if not h.changed:
        ctx._nontrivial_flag = False


def selftest(ctx):
    """Audit the model's index resolution against Python/numpy semantics on all small cases,
    and the builder/comparator against each other."""
    for n in range(0, 5):
        base = list(range(n))
        arr = np.arange(n)
        for a in [None] + list(range(-n - 2, n + 3)):
            for b in [None] + list(range(-n - 2, n + 3)):
                for s in (None, 1, 2, -1, -2):
                    assert resolve(("slice", a, b, s), n) == arr[slice(a, b, s)].tolist() == base[slice(a, b, s)]
        for i in range(-n, n):
            assert resolve(("int", i), n) == [arr[i]]
            assert resolve(("array", [i]), n) == arr[[i]].tolist()
        for bad in (n, -n - 1):
            for d in (("int", bad), ("array", [bad])):
                try:
                    resolve(d, n)
                except IndexError:
                    pass
                else:
                    raise AssertionError("resolve accepted %r for n=%d" % (d, n))
        for bits in range(2 ** n):
            mask = [(bits >> k) & 1 == 1 for k in range(n)]
            assert resolve(("mask", mask), n) == arr[np.array(mask, dtype=bool)].tolist()
    rng = np.random.default_rng(1)
    for kind in ("array", "stack"):
        for _ in range(20):
            mm = gen_model(rng, kind)
            compare(ctx, build_real(mm), mm, "selftest")
            sel = mm.select_atoms(list(range(mm.n))[::-1])
            assert sel.n == mm.n and (mm.bonds is None or len(sel.bonds) == len(mm.bonds))


# ----------------------------------------------------------------- probes
def _probe_del_model_with_box(ctx):
    """S01: deleting a model from a stack that has per-model boxes."""
    rng = np.random.default_rng(11)
    for m in (2, 3, 4):
        for k in (0, -1, m - 2):
            mm = gen_model(rng, "stack", n=3, m=m, box=True)
            obj = build_real(mm)
            ctx.log("del model", m, k); ctx.op("probe_del_model")
            del obj[k]
            compare(ctx, obj, mm.select_models([q for q in range(m) if q != k % m]), "stack after del [%d]" % k)


def _probe_stack_2d_negative_int(ctx):
    """S02: stack[model_index, negative atom int]."""
    rng = np.random.default_rng(12)
    for n in (1, 3, 5):
        mm = gen_model(rng, "stack", n=n, m=2)
        obj = build_real(mm)
        for i in range(-n, 0):
            for midx, mpos in ((slice(None), [0, 1]), (Ellipsis, [0, 1]), ([1], [1])):
                ctx.log("s[:, i]", n, i); ctx.op("probe_stack_2d_negative")
                res = obj[midx, i]
                compare(ctx, res, mm.select_atoms([i % n]).select_models(mpos), "stack[%r, %d]" % (midx, i))


def _probe_strided_mask_bonded(ctx):
    """S22 seen through AtomArray: a non-contiguous boolean mask on a bonded array."""
    rng = np.random.default_rng(13)
    for n in (2, 5):
        mm = gen_model(rng, "array", n=n, bonds=True)
        obj = build_real(mm)
        big = np.zeros(2 * n, dtype=bool)
        big[::2] = np.arange(n) % 2 == 0
        mask = big[::2]
        ctx.log("a[strided mask]", n); ctx.op("probe_strided_mask")
        ctx.oracle("index_object_accepted")
        try:
            res = obj[mask]
        except Exception as ex:
            ctx.fail("index_object_accepted", "non-contiguous boolean mask refused on a bonded AtomArray: %s: %s" % (type(ex).__name__, ex))
        compare(ctx, res, mm.select_atoms([i for i in range(n) if mask[i]]), "array[strided mask]")


def _probe_narrow_index_dtype(ctx):
    """A bonded AtomArray with more atoms than the index array's integer type can count, indexed with negative entries
    (numpy accepts np.array([-114, 3], dtype=int8) as index for 132 elements)."""
    rng = np.random.default_rng(15)
    for n, dt, vals in ((132, "int8", [27, -114, -6, 3, -51]), (130, "int8", [-1, 0]), (200, "int8", [-100, 100, -3])):
        mm = gen_model(rng, "array", n=n, bonds=True)
        obj = build_real(mm)
        idx = np.array(vals, dtype=dt)
        ctx.log("a[int8 index array with negative entries]", n, vals); ctx.op("probe_narrow_index_dtype")
        ctx.oracle("index_object_accepted")
        try:
            res = obj[idx]
        except Exception as ex:
            ctx.fail("index_object_accepted", "%s index array %s refused on a bonded AtomArray of %d atoms: %s: %s" % (dt, vals, n, type(ex).__name__, ex))
        compare(ctx, res, mm.select_atoms([v % n for v in vals]), "array[%s index array]" % dt)


def _probe_repeat_stack(ctx):
    """repeat() of a stack with >= 2 models and >= 2 repetitions (documented coord layout (k, m, n, 3))."""
    rng = np.random.default_rng(14)
    for (m, k, n) in ((2, 2, 2), (3, 2, 1), (2, 3, 4)):
        mm = gen_model(rng, "stack", n=n, m=m)
        obj = build_real(mm)
        c = np.float32(rng.normal(size=(k, m, n, 3)) * 10)
        ctx.log("repeat stack", m, k, n); ctx.op("probe_repeat_stack")
        res = struc.repeat(obj, c)
        nm = M("stack", [dict(a) for _ in range(k) for a in mm.atoms],
               [[tuple(float(x) for x in c[r, mi, i]) for r in range(k) for i in range(n)] for mi in range(m)],
               None if mm.box is None else mm.box,
               None if mm.bonds is None else {(i + r * n, j + r * n): t for r in range(k) for (i, j), t in mm.bonds.items()})
        nm._cats = list(mm._cats)
        compare(ctx, res, nm, "repeat(stack m=%d, k=%d)" % (m, k))


PROBES = {
    "repeat_stack_multi_model": _probe_repeat_stack,
    "del_model_with_box": _probe_del_model_with_box,
    "stack_2d_negative_atom_int": _probe_stack_2d_negative_int,
    "noncontiguous_mask": _probe_strided_mask_bonded,
    T_NARROW: _probe_narrow_index_dtype,
}
